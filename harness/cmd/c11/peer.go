package main

// Peer family: a second OS process (this binary re-executed) registers the
// same types, atoms and errors in a different order plus some of its own, so
// that its cache ids differ from ours.  The real handshake runs over loopback
// TCP; every value travels A -> B (decoded with what B built from A's
// Introduce), is re-encoded by B with B's ids and travels back B -> A.  In one
// process both registries are the same object, so swapped or mixed-up id maps
// would be invisible there.

import (
	"bufio"
	"bytes"
	"encoding/binary"
	"fmt"
	"io"
	"net"
	"os"
	"os/exec"
	"reflect"
	"sort"
	"strings"
	"time"

	"ergo.services/ergo/gen"
	"ergo.services/ergo/lib"
	"ergo.services/ergo/net/edf"
	"ergo.services/ergo/net/handshake"

	"verif/harness/hk"
)

const peerRot = 3

func writeFrame(w io.Writer, status byte, payload []byte) error {
	var h [5]byte
	binary.BigEndian.PutUint32(h[:4], uint32(len(payload)))
	h[4] = status
	if _, err := w.Write(h[:]); err != nil {
		return err
	}
	_, err := w.Write(payload)
	return err
}

func readFrame(r io.Reader) (byte, []byte, error) {
	var h [5]byte
	if _, err := io.ReadFull(r, h[:]); err != nil {
		return 0, nil, err
	}
	p := make([]byte, binary.BigEndian.Uint32(h[:4]))
	_, err := io.ReadFull(r, p)
	return h[4], p, err
}

// encodeGrown encodes into a pooled buffer that is large enough not to grow
// (keeps the peer family clear of the marshaler/buffer-growth finding)
func encodeGrown(x any, o edf.Options, hint int) (out []byte, err error) {
	defer func() {
		if r := recover(); r != nil {
			err = fmt.Errorf("panic: %v", r)
		}
	}()
	buf := lib.TakeBuffer()
	defer lib.ReleaseBuffer(buf)
	buf.Allocate(hint)
	buf.Allocate(0)
	if err := edf.Encode(x, buf, o); err != nil {
		return nil, err
	}
	return append([]byte{}, buf.B...), nil
}

// peerMain: the child process (side B, accepting side of the handshake)
func peerMain() {
	fail := func(a ...any) {
		fmt.Fprintln(os.Stderr, append([]any{"c11 peer:"}, a...)...)
		os.Exit(4)
	}
	if len(os.Args) < 3 {
		fail("usage: peer <addr>")
	}
	if err := registerAll(peerRot); err != nil {
		fail(err)
	}
	conn, err := net.DialTimeout("tcp", os.Args[2], 10*time.Second)
	if err != nil {
		fail(err)
	}
	defer conn.Close()
	h := handshake.Create(handshake.Options{PoolSize: 1})
	res, err := h.Accept(stubNode{"peer@c11", 7}, conn, gen.HandshakeOptions{Cookie: "c11-cookie"})
	if err != nil {
		fail("handshake:", err)
	}
	conn.SetReadDeadline(time.Time{})
	enc, dec, err := connOptions(res, true)
	if err != nil {
		fail(err)
	}
	r := bufio.NewReaderSize(io.MultiReader(bytes.NewReader(res.Tail), conn), 1<<16)
	w := bufio.NewWriterSize(conn, 1<<16)
	for {
		_, packet, err := readFrame(r)
		if err != nil {
			return // parent closed the connection
		}
		v, rest, err := edf.Decode(packet, dec)
		switch {
		case err != nil:
			writeFrame(w, 1, []byte(err.Error()))
		case len(rest) != 0:
			writeFrame(w, 1, []byte(fmt.Sprintf("peer consumed %d of %d bytes", len(packet)-len(rest), len(packet))))
		default:
			out, err := encodeGrown(v, enc, 2*len(packet)+8192)
			if err != nil {
				writeFrame(w, 2, []byte(err.Error()))
			} else {
				writeFrame(w, 0, out)
			}
		}
		if err := w.Flush(); err != nil {
			return
		}
	}
}

type peerLink struct {
	cmd  *exec.Cmd
	conn net.Conn
	r    *bufio.Reader
	enc  edf.Options
	dec  edf.Options
	diff int // cached atoms/types/errors whose id at the peer differs from ours
	same int
}

func startPeer() (*peerLink, error) {
	bin := os.Getenv("VERIF_BIN")
	if bin == "" {
		var err error
		if bin, err = os.Executable(); err != nil {
			return nil, err
		}
	}
	ln, err := net.Listen("tcp", "127.0.0.1:0")
	if err != nil {
		return nil, err
	}
	defer ln.Close()
	cmd := exec.Command(bin, "peer", ln.Addr().String())
	cmd.Stderr = os.Stderr
	cmd.Env = append(os.Environ(), "VERIF_ONLY=")
	if err := cmd.Start(); err != nil {
		return nil, err
	}
	kill := func() { cmd.Process.Kill(); cmd.Wait() }
	ln.(*net.TCPListener).SetDeadline(time.Now().Add(20 * time.Second))
	conn, err := ln.Accept()
	if err != nil {
		kill()
		return nil, fmt.Errorf("peer did not connect: %w", err)
	}
	h := handshake.Create(handshake.Options{PoolSize: 1})
	res, err := h.Start(stubNode{"a@c11", 1}, conn, gen.HandshakeOptions{Cookie: "c11-cookie"})
	if err != nil {
		conn.Close()
		kill()
		return nil, fmt.Errorf("handshake with peer: %w", err)
	}
	conn.SetReadDeadline(time.Time{})
	enc, dec, err := connOptions(res, true)
	if err != nil {
		conn.Close()
		kill()
		return nil, err
	}
	p := &peerLink{cmd: cmd, conn: conn, enc: enc, dec: dec, r: bufio.NewReaderSize(io.MultiReader(bytes.NewReader(res.Tail), conn), 1<<16)}
	// how different are the two id spaces?  our encode cache: value -> our id; our decode cache: peer id -> value
	ours := map[any]uint16{}
	cmp := func(encM, decM interface {
		Range(func(k, v any) bool)
	}, keyOf func(any) any) {
		encM.Range(func(k, v any) bool {
			switch id := v.(type) {
			case uint16:
				ours[keyOf(k)] = id
			case []byte:
				ours[keyOf(k)] = binary.BigEndian.Uint16(id[1:3])
			}
			return true
		})
		decM.Range(func(k, v any) bool {
			id, ok := k.(uint16)
			if !ok {
				return true
			}
			if o, found := ours[keyOf(v)]; found {
				if o == id {
					p.same++
				} else {
					p.diff++
				}
			}
			return true
		})
	}
	if enc.AtomCache != nil && dec.AtomCache != nil {
		cmp(enc.AtomCache, dec.AtomCache, func(x any) any { return "atom:" + string(x.(gen.Atom)) })
	}
	if enc.ErrCache != nil && dec.ErrCache != nil {
		cmp(enc.ErrCache, dec.ErrCache, func(x any) any { return "err:" + x.(error).Error() })
	}
	if enc.RegCache != nil && dec.RegCache != nil {
		cmp(enc.RegCache, dec.RegCache, func(x any) any {
			if t, ok := x.(reflect.Type); ok {
				return "type:#" + t.PkgPath() + "/" + t.Name()
			}
			return "type:" + fmt.Sprint(x)
		})
	}
	return p, nil
}

func (p *peerLink) close() {
	p.conn.Close()
	done := make(chan struct{})
	go func() { p.cmd.Wait(); close(done) }()
	select {
	case <-done:
	case <-time.After(5 * time.Second):
		p.cmd.Process.Kill()
		<-done
	}
}

// there and back again: nil failure = held
func (p *peerLink) roundtrip(x any, hint int) (skip bool, f *failure, nbytes int, st eqStats) {
	out, err := encodeGrown(x, p.enc, hint)
	if err != nil {
		return true, nil, 0, st
	}
	nbytes = len(out)
	p.conn.SetDeadline(time.Now().Add(60 * time.Second))
	if err := writeFrame(p.conn, 0, out); err != nil {
		return false, &failure{kind: "link", msg: "write to peer: " + err.Error()}, nbytes, st
	}
	status, reply, err := readFrame(p.r)
	if err != nil {
		return false, &failure{kind: "link", msg: "read from peer: " + err.Error()}, nbytes, st
	}
	switch status {
	case 1:
		return false, &failure{kind: "peer-decode", msg: fmt.Sprintf("the peer could not decode what we encoded (%d bytes): %s", nbytes, reply)}, nbytes, st
	case 2:
		return false, &failure{kind: "peer-encode", msg: fmt.Sprintf("the peer decoded the value but could not encode it again: %s", reply)}, nbytes, st
	}
	back, rest, err := edf.Decode(reply, p.dec)
	if err != nil {
		return false, &failure{kind: "decode-from-peer", msg: fmt.Sprintf("we could not decode what the peer encoded (%d bytes): %v", len(reply), err)}, nbytes, st
	}
	if len(rest) != 0 {
		return false, &failure{kind: "rest", msg: fmt.Sprintf("%d of %d bytes of the peer's encoding left over", len(rest), len(reply))}, nbytes, st
	}
	if mm := equalEDF(reflect.ValueOf(x), reflect.ValueOf(back), "v", eqOpts{sentinelIdentity: p.enc.ErrCache != nil && p.dec.ErrCache != nil, hops: 2}, &st); mm != nil {
		return false, &failure{kind: "value", msg: mm.String(), mm: mm}, nbytes, st
	}
	return false, nil, nbytes, st
}

func runPeer(pool *typePool) {
	only := hk.Only()
	if only != "" && !strings.HasPrefix(only, "peer/") {
		return
	}
	if !hsOK {
		return
	}
	var p *peerLink
	var err error
	for try := 0; try < 3 && p == nil; try++ {
		p, err = startPeer()
	}
	if p == nil {
		hk.Emit(hk.Case{ID: "peer/setup", Scenario: "peer", Verdict: hk.Inconclusive, What: "watchdog: peer process / handshake not available: " + err.Error()})
		return
	}
	defer p.close()
	hk.Note("peer_cache_entries_with_different_id_vs_same_id", []int{p.diff, p.same})
	if p.diff == 0 {
		hk.Emit(hk.Case{ID: "peer/setup", Scenario: "peer", Verdict: hk.Inconclusive, What: "the peer's cache ids do not differ from ours: family would be vacuous"})
		return
	}

	// the local reference configuration: values that already fail in one process are reported by the
	// other families; here only what is specific to two different registries is of interest
	var local *cfg
	for _, c := range cfgs {
		if c.name == "hs:A>B+cache" {
			local = c
		}
	}
	base := hk.Rng("c11", "peer").Uint64()
	total := hk.Pick(4000, 100000)
	classes := map[string]*classAgg{}
	var sent, skippedLocal, skippedStdlib, rejected, hits int64
	var bytesSent int64
	linkDown := false

	check := func(id string, v reflect.Value, tags []string, nest int) {
		if linkDown {
			return
		}
		x := v.Interface()
		if contains(v, hasZeroSizeElems) {
			// collections of zero-size elements fail depending on map iteration order (finding
			// zero-size-elements-rejected): reported by the other families
			skippedLocal++
			return
		}
		lr := roundtripOpt(x, local, nil, 0, false, 1<<16)
		if lr.encErr != nil {
			rejected++
			return
		}
		grow := 2*lr.nbytes + 8192
		if lr.nbytes > 1<<15 {
			lr = roundtripOpt(x, local, nil, 0, false, grow)
		}
		if lr.fail != nil {
			skippedLocal++
			return
		}
		if lr.st.stdlibTime > 0 {
			// a time.Time in the value is already changed by the standard library's binary form after one hop
			// (counted, not judged); what a second hop makes of the changed value says nothing about EDF
			skippedStdlib++
			return
		}
		skip, f, nb, _ := p.roundtrip(x, grow)
		if skip {
			rejected++
			return
		}
		sent++
		bytesSent += int64(nb)
		hit := false
		if plain, err := encodeGrown(x, edf.Options{}, grow); err == nil && nb < len(plain) {
			hit = true
			hits++
		}
		key := fmt.Sprintf("peer|%s|%s|cachehit=%v", keyShape(v.Type()), classOf(primaryTags(tags, 1)), hit)
		if f != nil {
			if f.kind == "link" {
				linkDown = true
				hk.Emit(hk.Case{ID: id, Scenario: "peer", Verdict: hk.Inconclusive, What: "watchdog: link to the peer process broke: " + f.msg})
				return
			}
			sig := "peer-roundtrip/" + f.kind
			if f.mm != nil {
				sig += "/" + f.mm.leaf
			}
			violations.Add(1)
			emitMu.Lock()
			sigCount[sig]++
			n := sigCount[sig]
			emitMu.Unlock()
			if n <= sigCap || only != "" {
				hk.Emit(hk.Case{ID: id, Scenario: "peer", Verdict: hk.Violated, Sig: sig, Key: key, Nontrivial: true, Events: 1,
					What:   fmt.Sprintf("[A>peer>A, ids differ] %s; value: %s", f.msg, describeValue(v)),
					Detail: map[string]any{"type": v.Type().String(), "value": describeValue(v), "failure": f.msg, "tags": tags}})
			}
			return
		}
		if only != "" {
			hk.Emit(hk.Case{ID: id, Scenario: "peer", Verdict: hk.Held, Key: key, Nontrivial: true, Events: 2})
			return
		}
		a := classes[key]
		if a == nil {
			a = &classAgg{class: classOf(primaryTags(tags, 1)), nest: nest, hit: hit}
			classes[key] = a
		}
		a.n++
		a.events += 2 // two decodes observed per value
	}

	// directed values (top level context) first, then generated ones
	if only == "" || strings.HasPrefix(only, "peer/dir/") {
		for _, d := range directedValues() {
			v := d.v
			if v.Kind() == reflect.Interface {
				if v.IsNil() {
					continue
				}
				v = v.Elem()
			}
			id := "peer/dir/" + d.name
			if only != "" && only != id {
				continue
			}
			check(id, v, []string{"dir:" + d.name}, 1)
			for i, e := range d.extra {
				id := fmt.Sprintf("peer/dir/%s/x%d", d.name, i)
				if only != "" && only != id {
					continue
				}
				check(id, e, []string{"dir:" + d.name}, 2)
			}
		}
	}
	for n := 0; n < total; n++ {
		id := fmt.Sprintf("peer/%d", n)
		if only != "" && only != id {
			continue
		}
		v, g := genBulkValue(base, uint64(n), pool)
		check(id, v, g.tagList(), g.maxNes)
	}
	if only != "" {
		return
	}
	keys := make([]string, 0, len(classes))
	for k := range classes {
		keys = append(keys, k)
	}
	sort.Strings(keys)
	for _, k := range keys {
		a := classes[k]
		hk.Emit(hk.Case{ID: "class/" + k, Scenario: "peer", Verdict: hk.Held, Key: k, Nontrivial: a.hit, Events: a.events, Detail: map[string]any{"values": a.n}})
	}
	hk.Stat("peer_values_there_and_back", sent)
	hk.Stat("peer_values_with_cache_hit", hits)
	hk.Stat("peer_bytes_sent", bytesSent)
	hk.Stat("peer_values_skipped_failing_already_in_one_process", skippedLocal)
	hk.Stat("peer_values_rejected_by_encode", rejected)
	hk.Stat("peer_values_skipped_time_mangled_by_stdlib", skippedStdlib)
}
