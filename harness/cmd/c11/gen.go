package main

// Seeded, type-directed value generator aimed at length / nesting / numeric
// boundaries.  Every value is a function of (VERIF_SEED, tier, value index).

import (
	"errors"
	"fmt"
	"math"
	"math/rand"
	"reflect"
	"sort"
	"strings"
	"time"

	"ergo.services/ergo/gen"
)

// splitmix64 source: cheap to seed (one per value)
type smix struct{ s uint64 }

func (m *smix) Uint64() uint64 {
	m.s += 0x9E3779B97F4A7C15
	z := m.s
	z = (z ^ (z >> 30)) * 0xBF58476D1CE4E5B9
	z = (z ^ (z >> 27)) * 0x94D049BB133111EB
	return z ^ (z >> 31)
}
func (m *smix) Int63() int64    { return int64(m.Uint64() >> 1) }
func (m *smix) Seed(seed int64) { m.s = uint64(seed) }

func newRng(base, n uint64) *rand.Rand {
	s := &smix{s: base ^ (n * 0xD6E8FEB86659FD93)}
	s.Uint64()
	return rand.New(s)
}

var (
	tBool    = reflect.TypeOf(false)
	tInt     = reflect.TypeOf(int(0))
	tInt8    = reflect.TypeOf(int8(0))
	tInt16   = reflect.TypeOf(int16(0))
	tInt32   = reflect.TypeOf(int32(0))
	tInt64   = reflect.TypeOf(int64(0))
	tUint    = reflect.TypeOf(uint(0))
	tUint8   = reflect.TypeOf(uint8(0))
	tUint16  = reflect.TypeOf(uint16(0))
	tUint32  = reflect.TypeOf(uint32(0))
	tUint64  = reflect.TypeOf(uint64(0))
	tF32     = reflect.TypeOf(float32(0))
	tF64     = reflect.TypeOf(float64(0))
	tString  = reflect.TypeOf("")
	tBytes   = reflect.TypeOf([]byte(nil))
	tAtom    = reflect.TypeOf(gen.Atom(""))
	tPID     = reflect.TypeOf(gen.PID{})
	tProcID  = reflect.TypeOf(gen.ProcessID{})
	tRef     = reflect.TypeOf(gen.Ref{})
	tAlias   = reflect.TypeOf(gen.Alias{})
	tEvent   = reflect.TypeOf(gen.Event{})
	tTime    = reflect.TypeOf(time.Time{})
	tAny     = reflect.TypeOf((*any)(nil)).Elem()
	tErr     = reflect.TypeOf((*error)(nil)).Elem()
	tMEDF    = reflect.TypeOf(MEDF{})
	tMEDFStr = reflect.TypeOf(MEDFStr(""))
	tMBin    = reflect.TypeOf(MBin{})
	tMBinArr = reflect.TypeOf(MBinArr{})
	tEmpty   = reflect.TypeOf(Empty{})

	tNetworkFlags = reflect.TypeOf(gen.NetworkFlags{})
)

// typePool: the types values are drawn from
type typePool struct {
	leaves  []reflect.Type // types usable as elements anywhere
	keys    []reflect.Type // hashable types usable as map keys
	tops    []reflect.Type // types of top-level values / dynamic types in `any` slots
	keyDyn  []reflect.Type // dynamic types for `any` keys
	unnamed []reflect.Type // reflect-built unnamed composites
	basic   []reflect.Type

	frameworkStructs int
	regNames         map[reflect.Type]bool
}

func buildTypePool(rng *rand.Rand, nUnnamed int) *typePool {
	p := &typePool{regNames: map[reflect.Type]bool{}}
	basic := []reflect.Type{tBool, tInt, tInt8, tInt16, tInt32, tInt64, tUint, tUint8, tUint16, tUint32, tUint64, tF32, tF64, tString, tBytes,
		tAtom, tPID, tProcID, tRef, tAlias, tEvent, tTime}
	for _, t := range registeredTypes {
		p.regNames[t] = true
	}
	p.leaves = append(p.leaves, basic...)
	p.basic = basic
	p.leaves = append(p.leaves, tAny, tErr)
	// zero-size element types make collections undecodable (finding zero-size-elements-rejected): kept rare
	var zeroLeaves []reflect.Type
	for _, t := range registeredTypes {
		if hasZeroSizeElems(reflect.SliceOf(t)) || hasZeroSizeElems(t) {
			zeroLeaves = append(zeroLeaves, t)
			continue
		}
		p.leaves = append(p.leaves, t)
	}

	p.keyDyn = []reflect.Type{tBool, tInt, tInt8, tInt16, tInt32, tInt64, tUint, tUint8, tUint16, tUint32, tUint64, tF64, tF32, tString,
		tAtom, tPID, tProcID, tRef, tAlias, tEvent,
		reflect.TypeOf(NInt(0)), reflect.TypeOf(NStr("")), reflect.TypeOf(NUint16(0)), reflect.TypeOf(NBool(false)), reflect.TypeOf(NF64(0)),
		reflect.TypeOf(KeyS{}), reflect.TypeOf(NArr3{}), reflect.TypeOf(NArr0{}), reflect.TypeOf(NArrStr{}), reflect.TypeOf(Ids{}),
		reflect.TypeOf(Empty{}), reflect.TypeOf(MBinArr{}), reflect.TypeOf(MEDFStr("")),
		reflect.TypeOf([2]int8{}), reflect.TypeOf([2]string{}), reflect.TypeOf([1]gen.Atom{})}
	// unnamed array key types make an unnamed map undecodable (finding map-with-unnamed-array-key-undecodable):
	// kept rare as static key types so that the bulk run is not dominated by it
	for _, k := range p.keyDyn {
		if k.Kind() == reflect.Array && k.Name() == "" {
			continue
		}
		p.keys = append(p.keys, k, k)
	}
	p.keys = append(p.keys, tAny, tAny, reflect.TypeOf([2]int8{}))

	// unnamed composites, built bottom-up to depth 4
	seen := map[reflect.Type]bool{}
	var build func(d int) reflect.Type
	build = func(d int) reflect.Type {
		if d == 0 || rng.Intn(5) == 0 {
			if rng.Intn(40) == 0 {
				return zeroLeaves[rng.Intn(len(zeroLeaves))]
			}
			return p.leaves[rng.Intn(len(p.leaves))]
		}
		switch rng.Intn(3) {
		case 0:
			return reflect.SliceOf(build(d - 1))
		case 1:
			return reflect.ArrayOf([]int{1, 2, 3, 7, 1, 2, 3, 2, 1, 3, 1, 2, 3, 7, 1, 2, 3, 2, 1, 3, 2, 0}[rng.Intn(22)], build(d-1))
		default:
			return reflect.MapOf(p.keys[rng.Intn(len(p.keys))], build(d-1))
		}
	}
	for tries := 0; len(p.unnamed) < nUnnamed && tries < nUnnamed*20; tries++ {
		t := build(1 + rng.Intn(4))
		switch t.Kind() {
		case reflect.Slice, reflect.Array, reflect.Map:
		default:
			continue
		}
		if t == tBytes || t.Name() != "" || seen[t] {
			continue
		}
		seen[t] = true
		p.unnamed = append(p.unnamed, t)
	}
	// struct types the framework itself registers and sends (net/edf/init.go genTypes)
	fw := []reflect.Type{reflect.TypeOf(gen.Version{}), reflect.TypeOf(gen.MailboxQueues{}), reflect.TypeOf(gen.ProcessFallback{}), reflect.TypeOf(gen.ProcessShortInfo{}),
		reflect.TypeOf(gen.ProcessInfo{}), reflect.TypeOf(gen.MessageEvent{}), reflect.TypeOf(gen.NetworkFlags{}), reflect.TypeOf(gen.RouteInfo{}), reflect.TypeOf(gen.ApplicationInfo{}),
		reflect.TypeOf(gen.LoggerInfo{}), reflect.TypeOf(gen.Compression{}), reflect.TypeOf(gen.RemoteNodeInfo{}), reflect.TypeOf(gen.MessageEventStart{})}
	p.frameworkStructs = len(fw)
	p.tops = append(p.tops, fw...)
	p.tops = append(p.tops, basic...)
	p.tops = append(p.tops, registeredTypes...)
	p.tops = append(p.tops, registeredTypes...) // weight
	p.tops = append(p.tops, p.unnamed...)
	return p
}

// shape: coarse skeleton of a type, depth 2
func shape(t reflect.Type, d int) string {
	if t.Name() != "" || t == tAny || t == tErr {
		if t == tAny {
			return "any"
		}
		if t == tErr {
			return "error"
		}
		return t.Name()
	}
	if d == 0 {
		return "~"
	}
	switch t.Kind() {
	case reflect.Slice:
		return "[]" + shape(t.Elem(), d-1)
	case reflect.Array:
		n := "N"
		if t.Len() == 0 {
			n = "0"
		}
		return "[" + n + "]" + shape(t.Elem(), d-1)
	case reflect.Map:
		return "map[" + shape(t.Key(), d-1) + "]" + shape(t.Elem(), d-1)
	}
	return t.String()
}

// gctx: state of the generation of one value
type gctx struct {
	rng     *rand.Rand
	pool    *typePool
	budget  int // remaining size budget, bytes (approx.)
	bigLeft int // how many lengths >= 4095 this value may still contain
	midLeft int // how many lengths 255/256
	cheap   int // >0: inside a long collection: small items, no boundaries
	inKey   int // >0: generating a map key: hashable, ==-comparable after the round trip
	tags    map[string]bool
	nest    int // current composite nesting
	maxNes  int
	// expected to be rejected by the encoder (only a statistic)
	unrep bool
}

func (g *gctx) tag(s string) {
	if g.tags == nil {
		g.tags = map[string]bool{}
	}
	g.tags[s] = true
}

func (g *gctx) tagList() []string {
	var l []string
	for t := range g.tags {
		l = append(l, t)
	}
	sort.Strings(l)
	return l
}

func (g *gctx) enter() {
	g.nest++
	if g.nest > g.maxNes {
		g.maxNes = g.nest
	}
}
func (g *gctx) leave() { g.nest-- }

var lenBoundaries = []int{255, 256, 4095, 4096, 65533, 65534, 65535, 65536}

// pickLen chooses the length of a collection / string whose items cost about
// `cost` bytes each; what names the tag family
func (g *gctx) pickLen(what string, cost int) int {
	if cost < 1 {
		cost = 1
	}
	r := g.rng.Intn(100)
	if g.cheap > 0 {
		if r < 20 {
			return 0
		}
		return 1 + g.rng.Intn(2)
	}
	var n int
	switch {
	case r < 8:
		g.tag(what + ":0")
		return 0
	case r < 20:
		g.tag(what + ":1")
		return 1
	case r < 32:
		n = lenBoundaries[g.rng.Intn(len(lenBoundaries))]
		if n > 256 && (g.bigLeft == 0 || n*cost > g.budget) {
			n = lenBoundaries[g.rng.Intn(2)] // 255/256
		}
		if n <= 256 && (g.midLeft == 0 || n*cost > g.budget) {
			return 1 + g.rng.Intn(3)
		}
		if n > 256 {
			g.bigLeft--
		} else {
			g.midLeft--
		}
		g.budget -= n * cost
		g.tag(fmt.Sprintf("%s:%d", what, n))
		return n
	case r < 40 && g.nest <= 2:
		n = 5 + g.rng.Intn(12)
	default:
		n = 1 + g.rng.Intn(3)
	}
	if n*cost > g.budget {
		return 1
	}
	g.budget -= n * cost
	return n
}

func costOf(t reflect.Type) int {
	switch t.Kind() {
	case reflect.Bool, reflect.Int8, reflect.Uint8:
		return 1
	case reflect.Int16, reflect.Uint16:
		return 2
	case reflect.Int32, reflect.Uint32, reflect.Float32:
		return 4
	case reflect.Int, reflect.Int64, reflect.Uint, reflect.Uint64, reflect.Float64:
		return 8
	case reflect.String:
		return 12
	case reflect.Interface:
		return 24
	case reflect.Slice, reflect.Map:
		return 24 + 3*costOf(t.Elem())
	case reflect.Array:
		return 4 + t.Len()*costOf(t.Elem())
	case reflect.Struct:
		if t == tTime {
			return 16
		}
		c := 0
		for i := 0; i < t.NumField(); i++ {
			c += costOf(t.Field(i).Type)
		}
		return c + 1
	}
	return 16
}

func (g *gctx) fillBytes(n int) []byte {
	b := make([]byte, n)
	if n <= 64 {
		g.rng.Read(b)
		return b
	}
	// long: cheap pattern with random spots
	seed := byte(g.rng.Intn(256))
	for i := range b {
		b[i] = seed + byte(i*7)
	}
	for k := 0; k < 8; k++ {
		b[g.rng.Intn(n)] = byte(g.rng.Intn(256))
	}
	b[0], b[n-1] = byte(g.rng.Intn(256)), byte(g.rng.Intn(256))
	return b
}

const asciiAlpha = "abcdefghijklmnopqrstuvwxyzABCDEFGHIJKLMNOPQRSTUVWXYZ0123456789_-. "

func (g *gctx) fillText(n int, binaryOK bool) string {
	if binaryOK && g.rng.Intn(4) == 0 {
		if n > 0 {
			g.tag("text:bytes")
		}
		return string(g.fillBytes(n))
	}
	b := make([]byte, n)
	if n <= 64 {
		for i := range b {
			b[i] = asciiAlpha[g.rng.Intn(len(asciiAlpha))]
		}
		return string(b)
	}
	off := g.rng.Intn(len(asciiAlpha))
	for i := range b {
		b[i] = asciiAlpha[(off+i)%len(asciiAlpha)]
	}
	b[0], b[n-1] = asciiAlpha[g.rng.Intn(len(asciiAlpha))], asciiAlpha[g.rng.Intn(len(asciiAlpha))]
	return string(b)
}

func (g *gctx) genString() string {
	return g.fillText(g.pickLen("str", 1), true)
}

func (g *gctx) genAtom() gen.Atom {
	r := g.rng.Intn(100)
	switch {
	case r < 25:
		a := harnessAtoms[g.rng.Intn(len(harnessAtoms))]
		g.tag("atom:registered")
		return a
	case r < 33 && g.cheap == 0:
		n := []int{0, 1, 254, 255, 0, 1, 254, 255, 254, 255, 255, 256}[g.rng.Intn(12)]
		g.tag(fmt.Sprintf("atom:%d", n))
		if n == 256 {
			g.unrep = true
		}
		return gen.Atom(g.fillText(n, true))
	case r < 36:
		return mappingFrom // only meaningful in the mapping family; otherwise an ordinary atom
	}
	return gen.Atom(g.fillText(1+g.rng.Intn(12), g.rng.Intn(8) == 0))
}

func (g *gctx) genInt(bits int) int64 {
	min := int64(-1) << (bits - 1)
	max := -(min + 1)
	switch g.rng.Intn(10) {
	case 0:
		g.tag("int:min")
		return min
	case 1:
		g.tag("int:max")
		return max
	case 2:
		return -1
	case 3:
		return 0
	case 4:
		return int64(g.rng.Intn(256)) - 128
	}
	v := int64(g.rng.Uint64())
	if bits < 64 {
		v >>= (64 - bits)
	}
	return v
}

func (g *gctx) genUint(bits int) uint64 {
	max := ^uint64(0) >> (64 - bits)
	switch g.rng.Intn(10) {
	case 0:
		g.tag("uint:max")
		return max
	case 1:
		return 0
	case 2:
		g.tag("uint:msb")
		return max/2 + 1
	case 3:
		return uint64(g.rng.Intn(256))
	}
	return g.rng.Uint64() & max
}

// genF64 returns float64 bits
func (g *gctx) genF64bits() uint64 {
	if g.inKey > 0 {
		// no NaN in keys (NaN keys are not retrievable), no -0 (equal to +0 as a key)
		f := g.rng.NormFloat64() * 1e6
		if g.rng.Intn(4) == 0 {
			f = []float64{0, math.MaxFloat64, math.SmallestNonzeroFloat64, math.Inf(1), math.Inf(-1), -1}[g.rng.Intn(6)]
		}
		return math.Float64bits(f)
	}
	switch g.rng.Intn(14) {
	case 0:
		g.tag("f64:nan")
		return math.Float64bits(math.NaN())
	case 1:
		g.tag("f64:nan-payload")
		return 0x7ff8000000000000 | (g.rng.Uint64() & 0x0007ffffffffffff) | uint64(g.rng.Intn(2))<<63
	case 2:
		g.tag("f64:snan")
		return 0x7ff0000000000000 | (g.rng.Uint64()&0x0007ffffffffffff | 1)
	case 3:
		g.tag("f64:-0")
		return 1 << 63
	case 4:
		return 0
	case 5:
		g.tag("f64:inf")
		return math.Float64bits(math.Inf(1 - 2*g.rng.Intn(2)))
	case 6:
		g.tag("f64:subnormal")
		return (g.rng.Uint64() & 0x000fffffffffffff) | 1
	case 7:
		g.tag("f64:max")
		return math.Float64bits(math.MaxFloat64)
	case 8:
		b := g.rng.Uint64()
		if b&0x7ff0000000000000 == 0x7ff0000000000000 {
			b &^= 1 << 62
		}
		return b
	}
	return math.Float64bits(g.rng.NormFloat64() * 1000)
}

func (g *gctx) genF32bits() uint32 {
	if g.inKey > 0 {
		return math.Float32bits(float32(g.rng.NormFloat64() * 1000))
	}
	switch g.rng.Intn(14) {
	case 0:
		g.tag("f32:nan")
		return 0x7fc00000
	case 1:
		g.tag("f32:nan-payload")
		return 0x7fc00000 | (g.rng.Uint32() & 0x003fffff) | uint32(g.rng.Intn(2))<<31
	case 2:
		g.tag("f32:snan")
		return 0x7f800000 | (g.rng.Uint32()&0x003fffff | 1)
	case 3:
		g.tag("f32:-0")
		return 1 << 31
	case 4:
		return 0
	case 5:
		g.tag("f32:inf")
		return 0x7f800000 | uint32(g.rng.Intn(2))<<31
	case 6:
		g.tag("f32:subnormal")
		return (g.rng.Uint32() & 0x007fffff) | 1
	case 7:
		g.tag("f32:max")
		return math.Float32bits(math.MaxFloat32)
	}
	return math.Float32bits(float32(g.rng.NormFloat64() * 1000))
}

func (g *gctx) genTime() time.Time {
	switch g.rng.Intn(12) {
	case 0:
		g.tag("time:zero")
		return time.Time{}
	case 1:
		return time.Unix(0, 0)
	case 2:
		g.tag("time:utc")
		return time.Unix(int64(g.rng.Int31()), int64(g.rng.Intn(1e9))).UTC()
	case 3:
		g.tag("time:zoned")
		off := (g.rng.Intn(27) - 13) * 3600
		return time.Unix(int64(g.rng.Int31()), int64(g.rng.Intn(1e9))).In(time.FixedZone("c11z", off))
	case 4:
		g.tag("time:zoned-seconds")
		off := g.rng.Intn(2*86399) - 86399
		return time.Unix(int64(g.rng.Int31()), 0).In(time.FixedZone("c11s", off))
	case 5:
		g.tag("time:monotonic")
		return time.Now()
	case 6:
		g.tag("time:extreme")
		return time.Unix([]int64{1 << 40, -(1 << 40), 253402300799, -62135596800, 1<<55 - 1, -(1 << 55)}[g.rng.Intn(6)], 999999999).UTC()
	case 7:
		g.tag("time:zone-limit")
		// the binary form keeps the offset in minutes as int16 (or with seconds): +-32767 minutes is the limit
		off := []int{32767 * 60, -32767 * 60, 32767*60 + 59, 32766 * 60, -32767*60 - 59, 32767 * 60, -32767 * 60, 32768 * 60, -32768 * 60}[g.rng.Intn(9)]
		return time.Unix(1e9, 5).In(time.FixedZone("c11big", off))
	}
	return time.Unix(int64(g.rng.Int31()), int64(g.rng.Intn(1e9)))
}

var percentTexts = []string{"%", "100%", "%d items", "rate 5%/s", "%%", "%!", "a%sb", "%v", "50% of %w"}

func (g *gctx) genErrText() string {
	r := g.rng.Intn(100)
	switch {
	case r < 3:
		g.tag("err:empty")
		return ""
	case r < 4 && g.cheap == 0 && g.rng.Intn(3) == 0:
		g.tag("err:percent")
		return g.fillText(g.rng.Intn(5), false) + percentTexts[g.rng.Intn(len(percentTexts))]
	case r < 9 && g.cheap == 0 && g.budget > 40000 && g.bigLeft > 0:
		g.bigLeft--
		n := []int{32766, 32767, 32768}[g.rng.Intn(3)]
		g.budget -= n
		g.tag(fmt.Sprintf("err:%d", n))
		if n == 32768 {
			g.unrep = true
		}
		return g.fillText(n, false)
	case r < 14:
		g.tag("err:bytes")
		b := g.fillBytes(1 + g.rng.Intn(12))
		for i := range b {
			if b[i] == '%' {
				b[i] = '#'
			}
		}
		return string(b)
	}
	return g.fillText(1+g.rng.Intn(24), false)
}

// genError: a non-nil error
func (g *gctx) genError() error {
	r := g.rng.Intn(100)
	switch {
	case r < 30:
		g.tag("err:sentinel")
		return cleanSentinels[g.rng.Intn(len(cleanSentinels))]
	case r < 38:
		g.tag("err:wrapped")
		return fmt.Errorf("%s: %w", g.genErrText(), errors.New("inner"))
	case r < 44:
		g.tag("err:custom-type")
		return &cErr{g.genErrText()}
	case r < 48:
		g.tag("err:custom-type")
		return vErr(g.genErrText())
	case r < 50:
		g.tag("err:same-text-as-sentinel")
		return errSentDupText
	}
	return errors.New(g.genErrText())
}

func (g *gctx) pickTopType() reflect.Type {
	if g.inKey > 0 {
		return g.pool.keyDyn[g.rng.Intn(len(g.pool.keyDyn))]
	}
	if g.nest > 5 || g.cheap > 0 && g.rng.Intn(4) != 0 {
		return g.pool.basic[g.rng.Intn(len(g.pool.basic))]
	}
	return g.pool.tops[g.rng.Intn(len(g.pool.tops))]
}

// genValue returns a value of type t (settable copy semantics: callers Set it)
func (g *gctx) genValue(t reflect.Type) reflect.Value {
	v := reflect.New(t).Elem()
	g.fill(v)
	return v
}

func (g *gctx) fill(v reflect.Value) {
	t := v.Type()
	switch t {
	case tTime:
		v.Set(reflect.ValueOf(g.genTime()))
		return
	case tAtom:
		v.SetString(string(g.genAtom()))
		return
	case tPID:
		v.Set(reflect.ValueOf(gen.PID{Node: g.genAtom(), ID: g.genUint(64), Creation: g.genInt(64)}))
		return
	case tProcID:
		v.Set(reflect.ValueOf(gen.ProcessID{Name: g.genAtom(), Node: g.genAtom()}))
		return
	case tRef:
		v.Set(reflect.ValueOf(gen.Ref{Node: g.genAtom(), Creation: g.genInt(64), ID: [3]uint64{g.genUint(64), g.genUint(64), g.genUint(64)}}))
		return
	case tAlias:
		v.Set(reflect.ValueOf(gen.Alias{Node: g.genAtom(), Creation: g.genInt(64), ID: [3]uint64{g.genUint(64), g.genUint(64), g.genUint(64)}}))
		return
	case tEvent:
		v.Set(reflect.ValueOf(gen.Event{Name: g.genAtom(), Node: g.genAtom()}))
		return
	case tErr:
		if g.rng.Intn(5) == 0 {
			g.tag("nil:error")
			return // nil error
		}
		v.Set(reflect.ValueOf(g.genError()))
		return
	case tAny:
		if g.inKey == 0 && g.rng.Intn(8) == 0 {
			g.tag("nil:any")
			return
		}
		g.enter()
		if g.inKey == 0 && g.rng.Intn(12) == 0 {
			// an error value in an `any` slot
			g.tag("any:error")
			v.Set(reflect.ValueOf(errors.New(g.genErrText())))
		} else {
			v.Set(g.genValue(g.pickTopType()))
		}
		g.leave()
		return
	case tBytes:
		if g.rng.Intn(8) == 0 {
			g.tag("nil:bytes")
			return
		}
		v.SetBytes(g.fillBytes(g.pickLen("bin", 1)))
		return
	case tMEDF:
		var n int
		switch r := g.rng.Intn(20); {
		case r < 3 && g.cheap == 0 && g.budget > 10000 && g.midLeft > 0:
			g.midLeft--
			// around the capacity of a pooled lib.Buffer
			n = 3900 + g.rng.Intn(400)
			g.budget -= n
			g.tag("medf:~4096")
		case r < 4 && g.cheap == 0 && g.budget > 80000 && g.bigLeft > 0:
			g.bigLeft--
			n = 60000 + g.rng.Intn(20000)
			g.budget -= n
			g.tag("medf:big")
		case r < 6:
			n = 0
		default:
			n = g.rng.Intn(40)
		}
		m := MEDF{P: g.fillBytes(n), tag: uint16(g.rng.Intn(65536))}
		if m.tag == 0xdead {
			g.unrep = true
		}
		v.Set(reflect.ValueOf(m))
		return
	case tMEDFStr:
		v.SetString(g.fillText(g.rng.Intn(20), true))
		return
	case tNetworkFlags:
		// custom marshaler of the framework: with Enable == false the other flags are not transported (by design,
		// "Enable enables flags customization"): only canonical values are generated
		if g.rng.Intn(3) != 0 {
			bits := g.rng.Intn(64)
			v.Set(reflect.ValueOf(gen.NetworkFlags{Enable: true, EnableRemoteSpawn: bits&1 != 0, EnableRemoteApplicationStart: bits&2 != 0, EnableFragmentation: bits&4 != 0,
				EnableProxyTransit: bits&8 != 0, EnableProxyAccept: bits&16 != 0, EnableImportantDelivery: bits&32 != 0}))
		}
		return
	case tMBin:
		v.Set(reflect.ValueOf(MBin{A: g.genInt(64), S: g.fillText(g.rng.Intn(20), true), x: uint8(g.rng.Intn(200))}))
		return
	case tMBinArr:
		if g.rng.Intn(4) != 0 {
			var a MBinArr
			g.rng.Read(a[:])
			v.Set(reflect.ValueOf(a))
		}
		return
	}
	switch t.Kind() {
	case reflect.Bool:
		v.SetBool(g.rng.Intn(2) == 0)
	case reflect.Int, reflect.Int64:
		v.SetInt(g.genInt(64))
	case reflect.Int8:
		v.SetInt(g.genInt(8))
	case reflect.Int16:
		v.SetInt(g.genInt(16))
	case reflect.Int32:
		v.SetInt(g.genInt(32))
	case reflect.Uint, reflect.Uint64:
		v.SetUint(g.genUint(64))
	case reflect.Uint8:
		v.SetUint(g.genUint(8))
	case reflect.Uint16:
		v.SetUint(g.genUint(16))
	case reflect.Uint32:
		v.SetUint(g.genUint(32))
	case reflect.Float32:
		setF32bits(v, g.genF32bits())
	case reflect.Float64:
		v.SetFloat(math.Float64frombits(g.genF64bits()))
	case reflect.String:
		v.SetString(g.genString())
	case reflect.Struct:
		g.enter()
		for i := 0; i < t.NumField(); i++ {
			g.fill(v.Field(i))
		}
		g.leave()
	case reflect.Array:
		g.enter()
		n := t.Len()
		if n >= 64 {
			g.cheap++
		}
		for i := 0; i < n; i++ {
			g.fill(v.Index(i))
		}
		if n >= 64 {
			g.cheap--
		}
		g.leave()
	case reflect.Slice:
		r := g.rng.Intn(10)
		if r == 0 {
			g.tag("nil:slice")
			return
		}
		n := g.pickLen("slice", costOf(t.Elem()))
		if n == 65536 && g.rng.Intn(2) == 0 {
			n = 65537
		}
		s := reflect.MakeSlice(t, n, n)
		g.enter()
		if n >= 64 {
			g.cheap++
		}
		for i := 0; i < n; i++ {
			g.fill(s.Index(i))
		}
		if n >= 64 {
			g.cheap--
		}
		g.leave()
		v.Set(s)
	case reflect.Map:
		r := g.rng.Intn(10)
		if r == 0 {
			g.tag("nil:map")
			return
		}
		n := g.pickLen("map", costOf(t.Key())+costOf(t.Elem())+16)
		m := reflect.MakeMapWithSize(t, n)
		g.enter()
		if n >= 64 {
			g.cheap++
		}
		for i := 0; i < n; i++ {
			g.inKey++
			k := g.genValue(t.Key())
			g.inKey--
			if n >= 64 && i > 0 {
				// make keys distinct so that the boundary count is reached
				perturbKey(k, i)
			}
			e := g.genValue(t.Elem())
			m.SetMapIndex(k, e)
		}
		if n >= 64 {
			g.cheap--
			if m.Len() != n {
				// not all keys distinct: the boundary tag does not apply
				delete(g.tags, fmt.Sprintf("map:%d", n))
			}
		}
		g.leave()
		v.Set(m)
	default:
		panic("c11 generator: unsupported kind " + t.String())
	}
}

// setF32bits stores exact float32 bits (reflect.SetFloat goes through float64 and quiets signalling NaNs)
func setF32bits(v reflect.Value, bits uint32) {
	*(*uint32)(v.Addr().UnsafePointer()) = bits
}

// perturbKey makes the i-th key of a long map distinct where the key type allows
func perturbKey(k reflect.Value, i int) {
	switch k.Kind() {
	case reflect.Int, reflect.Int32, reflect.Int64:
		k.SetInt(int64(i))
	case reflect.Int16:
		k.SetInt(int64(int16(i)))
	case reflect.Uint, reflect.Uint32, reflect.Uint64:
		k.SetUint(uint64(i))
	case reflect.Uint16:
		k.SetUint(uint64(uint16(i)))
	case reflect.Float64, reflect.Float32:
		k.SetFloat(float64(i))
	case reflect.String:
		if k.Type() != tMEDFStr {
			k.SetString(fmt.Sprintf("k%d", i))
		} else {
			k.SetString(fmt.Sprintf("m%d", i))
		}
	case reflect.Struct:
		if k.NumField() > 0 {
			perturbKey(k.Field(0), i)
		}
	case reflect.Array:
		if k.Len() > 0 {
			perturbKey(k.Index(0), i)
		}
	case reflect.Interface:
		k.Set(reflect.ValueOf(i))
	}
}

// describeTags: boundary class of a value (at most 3 tags, stable)
func classOf(tags []string) string {
	if len(tags) > 3 {
		tags = tags[:3]
	}
	return strings.Join(tags, ",")
}
