package main

// equalEDF: the equality the round-trip law is stated in.

import (
	"bytes"
	"fmt"
	"math"
	"reflect"
	"time"
)

type eqOpts struct {
	sentinelIdentity bool // an ErrCache is negotiated: registered sentinels must come back identical
	hops             int  // how many encode/decode hops the value made (0 = 1)
}

type mismatch struct {
	path string
	why  string
	// kind of the leaf where the mismatch was found (for the signature)
	leaf string
	// original leaf value (for classification)
	orig reflect.Value
}

func (m *mismatch) String() string { return fmt.Sprintf("at %s: %s", m.path, m.why) }

// stats of the comparison (soft observations that are not violations)
type eqStats struct {
	f32NaNQuieted  int // float32 NaN came back as NaN with a different payload (signalling bit set to quiet)
	sentinelByText int
	stdlibTime     int // time differs exactly as the standard library's own MarshalBinary/UnmarshalBinary round trip does
}

func isErrorValue(v reflect.Value) bool {
	if !v.IsValid() {
		return false
	}
	t := v.Type()
	if t == tErr {
		return true
	}
	// dynamic error types stored in `any` or at top level: *errors.errorString, *fmt.wrapError, custom
	if t.Name() != "" && t.Kind() != reflect.Pointer {
		// harness vErr
		_, ok := v.Interface().(error)
		return ok && t == reflect.TypeOf(vErr(""))
	}
	if t.Kind() == reflect.Pointer {
		_, ok := v.Interface().(error)
		return ok
	}
	return false
}

func equalErr(a, b error, o eqOpts, st *eqStats) (bool, string) {
	if a == nil || b == nil {
		if a == nil && b == nil {
			return true, ""
		}
		return false, fmt.Sprintf("nil-ness of error differs: %v vs %v", a == nil, b == nil)
	}
	if sentinelSet[a] {
		if o.sentinelIdentity {
			if a != b {
				return false, fmt.Sprintf("registered sentinel %q (%p) came back as a different error value %T %q", a.Error(), a, b, b.Error())
			}
			return true, ""
		}
		st.sentinelByText++
	}
	if a.Error() != b.Error() {
		return false, fmt.Sprintf("error text differs: %s vs %s", clip(fmt.Sprintf("%q", a.Error()), 120), clip(fmt.Sprintf("%q", b.Error()), 120))
	}
	return true, ""
}

func clip(s string, n int) string {
	if len(s) <= n {
		return s
	}
	return s[:n/2] + fmt.Sprintf("...(%d bytes)...", len(s)) + s[len(s)-n/2:]
}

// equalEDF compares the original a with the decoded b
func equalEDF(a, b reflect.Value, path string, o eqOpts, st *eqStats) *mismatch {
	if !a.IsValid() || !b.IsValid() {
		if a.IsValid() == b.IsValid() {
			return nil
		}
		return &mismatch{path: path, why: "one side is an invalid (nil) value", leaf: "nil", orig: a}
	}
	// errors: static type `error`, or dynamic error types (top level / any): by identity or text
	if isErrorValue(a) {
		if !isErrorValue(b) {
			return &mismatch{path: path, why: fmt.Sprintf("error became %s", b.Type()), leaf: "error", orig: a}
		}
		var ea, eb error
		if !(a.Kind() == reflect.Interface && a.IsNil()) {
			ea = a.Interface().(error)
		}
		if !(b.Kind() == reflect.Interface && b.IsNil()) {
			eb = b.Interface().(error)
		}
		if ok, why := equalErr(ea, eb, o, st); !ok {
			return &mismatch{path: path, why: why, leaf: "error", orig: a}
		}
		return nil
	}
	if a.Type() != b.Type() {
		return &mismatch{path: path, why: fmt.Sprintf("type differs: %s vs %s", a.Type(), b.Type()), leaf: "type", orig: a}
	}
	t := a.Type()
	switch t {
	case tTime:
		ta, tb := a.Interface().(time.Time), b.Interface().(time.Time)
		_, oa := ta.Zone()
		_, ob := tb.Zone()
		if !ta.Equal(tb) || oa != ob {
			// EDF carries time.Time in the standard library's binary form. go1.23's
			// Time.UnmarshalBinary mangles negative zone offsets that are not whole minutes;
			// a difference the standard library produces on its own is counted, not judged.
			t2 := ta
			for h := 0; h < 1 || h < o.hops; h++ {
				bin, err := t2.MarshalBinary()
				if err != nil {
					break
				}
				var t3 time.Time
				if t3.UnmarshalBinary(bin) != nil {
					break
				}
				t2 = t3
				_, o2 := t2.Zone()
				if h+1 >= o.hops && t2.Equal(tb) && o2 == ob {
					st.stdlibTime++
					return nil
				}
			}
			return &mismatch{path: path, why: fmt.Sprintf("time differs: %s (offset %d) vs %s (offset %d)", ta.Format(time.RFC3339Nano), oa, tb.Format(time.RFC3339Nano), ob), leaf: "time", orig: a}
		}
		return nil
	case tBytes:
		// nil == empty for byte slices
		if !bytes.Equal(a.Bytes(), b.Bytes()) {
			return &mismatch{path: path, why: fmt.Sprintf("[]byte differs: len %d vs %d", a.Len(), b.Len()), leaf: "binary", orig: a}
		}
		return nil
	case tMEDF:
		ma, mb := a.Interface().(MEDF), b.Interface().(MEDF)
		if ma.tag != mb.tag || !bytes.Equal(ma.P, mb.P) {
			return &mismatch{path: path, why: fmt.Sprintf("MEDF differs: tag %d len %d vs tag %d len %d", ma.tag, len(ma.P), mb.tag, len(mb.P)), leaf: "marshaler", orig: a}
		}
		return nil
	case tMBin:
		if a.Interface().(MBin) != b.Interface().(MBin) {
			return &mismatch{path: path, why: "MBin differs", leaf: "binarymarshaler", orig: a}
		}
		return nil
	}
	switch t.Kind() {
	case reflect.Bool:
		if a.Bool() != b.Bool() {
			return &mismatch{path: path, why: "bool differs", leaf: "bool", orig: a}
		}
	case reflect.Int, reflect.Int8, reflect.Int16, reflect.Int32, reflect.Int64:
		if a.Int() != b.Int() {
			return &mismatch{path: path, why: fmt.Sprintf("%s differs: %d vs %d", t, a.Int(), b.Int()), leaf: t.Kind().String(), orig: a}
		}
	case reflect.Uint, reflect.Uint8, reflect.Uint16, reflect.Uint32, reflect.Uint64:
		if a.Uint() != b.Uint() {
			return &mismatch{path: path, why: fmt.Sprintf("%s differs: %d vs %d", t, a.Uint(), b.Uint()), leaf: t.Kind().String(), orig: a}
		}
	case reflect.Float64:
		ba, bb := math.Float64bits(a.Float()), math.Float64bits(b.Float())
		if ba != bb {
			return &mismatch{path: path, why: fmt.Sprintf("float64 bits differ: %016x vs %016x", ba, bb), leaf: "float64", orig: a}
		}
	case reflect.Float32:
		ba, bb := f32bits(a), f32bits(b)
		if ba != bb {
			fa, fb := math.Float32frombits(ba), math.Float32frombits(bb)
			if fa != fa && fb != fb && ba|0x00400000 == bb {
				// NaN stays NaN; only the quiet bit was set by a float32<->float64 conversion in the codec
				// (reflect.Value.Float / SetFloat). Not judged: NaN == NaN is not defined by "equal value".
				st.f32NaNQuieted++
				return nil
			}
			return &mismatch{path: path, why: fmt.Sprintf("float32 bits differ: %08x vs %08x", ba, bb), leaf: "float32", orig: a}
		}
	case reflect.String:
		if a.String() != b.String() {
			return &mismatch{path: path, why: fmt.Sprintf("%s differs: len %d vs %d: %s vs %s", t, a.Len(), b.Len(), clip(fmt.Sprintf("%q", a.String()), 80), clip(fmt.Sprintf("%q", b.String()), 80)), leaf: "string", orig: a}
		}
	case reflect.Interface:
		if a.IsNil() || b.IsNil() {
			if a.IsNil() && b.IsNil() {
				return nil
			}
			return &mismatch{path: path, why: fmt.Sprintf("interface nil-ness differs: %v vs %v", a.IsNil(), b.IsNil()), leaf: "nil-any", orig: a}
		}
		return equalEDF(a.Elem(), b.Elem(), path+".(any)", o, st)
	case reflect.Struct:
		for i := 0; i < t.NumField(); i++ {
			if m := equalEDF(a.Field(i), b.Field(i), path+"."+t.Field(i).Name, o, st); m != nil {
				return m
			}
		}
	case reflect.Array:
		for i := 0; i < t.Len(); i++ {
			if m := equalEDF(a.Index(i), b.Index(i), fmt.Sprintf("%s[%d]", path, i), o, st); m != nil {
				return m
			}
		}
	case reflect.Slice:
		if a.IsNil() != b.IsNil() {
			return &mismatch{path: path, why: fmt.Sprintf("%s: nil vs empty not kept apart: original nil=%v decoded nil=%v (len %d vs %d)", t, a.IsNil(), b.IsNil(), a.Len(), b.Len()), leaf: "nil-slice", orig: a}
		}
		if a.Len() != b.Len() {
			return &mismatch{path: path, why: fmt.Sprintf("%s: length %d vs %d", t, a.Len(), b.Len()), leaf: "slice-len", orig: a}
		}
		for i := 0; i < a.Len(); i++ {
			if m := equalEDF(a.Index(i), b.Index(i), fmt.Sprintf("%s[%d]", path, i), o, st); m != nil {
				return m
			}
		}
	case reflect.Map:
		if a.IsNil() != b.IsNil() {
			return &mismatch{path: path, why: fmt.Sprintf("%s: nil vs empty not kept apart: original nil=%v decoded nil=%v", t, a.IsNil(), b.IsNil()), leaf: "nil-map", orig: a}
		}
		if a.Len() != b.Len() {
			return &mismatch{path: path, why: fmt.Sprintf("%s: %d vs %d entries", t, a.Len(), b.Len()), leaf: "map-len", orig: a}
		}
		it := a.MapRange()
		for it.Next() {
			bv := b.MapIndex(it.Key())
			if !bv.IsValid() {
				return &mismatch{path: path, why: fmt.Sprintf("%s: key %s missing after the round trip", t, clip(fmt.Sprintf("%#v", it.Key().Interface()), 120)), leaf: "map-key", orig: a}
			}
			if m := equalEDF(it.Value(), bv, fmt.Sprintf("%s[%s]", path, clip(fmt.Sprintf("%v", it.Key().Interface()), 40)), o, st); m != nil {
				return m
			}
		}
	default:
		if !reflect.DeepEqual(a.Interface(), b.Interface()) {
			return &mismatch{path: path, why: "values differ", leaf: t.Kind().String(), orig: a}
		}
	}
	return nil
}

func f32bits(v reflect.Value) uint32 {
	if v.CanAddr() {
		return *(*uint32)(v.Addr().UnsafePointer())
	}
	// copy into an addressable value without going through float64
	c := reflect.New(v.Type()).Elem()
	c.Set(v)
	return *(*uint32)(c.Addr().UnsafePointer())
}
