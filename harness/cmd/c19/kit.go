package main

import (
	"errors"
	"fmt"
	"strings"
	"sync"
	"sync/atomic"
	"time"

	"ergo.services/ergo/act"
	"ergo.services/ergo/gen"
	"ergo.services/ergo/lib"

	"verif/harness/actors"
	"verif/harness/hk"
)

// ---------------------------------------------------------------------------
// payloads

// job is the only payload that travels through the pool
type job struct {
	ID   uint64
	Spin int // microseconds of busy work in the worker
}

// reply is what a worker (or the pool itself for High/Max traffic) answers to a request
type reply struct {
	ID     uint64
	Worker gen.PID
	From   gen.PID
	Ref    gen.Ref
	ByPool bool
}

// block parks a worker inside its message handler (sent directly to the worker)
type block struct {
	Entered chan struct{}
	Release chan struct{}
}

// die makes a worker terminate by returning an error from its handler
type die struct{}

var errDie = errors.New("c19-worker-die")

// commands for the pool process itself (sent at High priority as requests)
type cmdAdd struct{ N int }
type cmdRemove struct{ N int }
type cmdStats struct{}
type cmdRes struct {
	N     int64
	Err   error
	Stats map[string]string
}

// agent commands
const (
	opSend = iota
	opCall
)

type op struct {
	Kind int
	J    job
	Prio gen.MessagePriority
}

type script struct {
	To    gen.PID
	Ops   []op
	Force bool // run even when the case is frozen (harness probes after the traffic)
}

type ctlCall struct {
	To   gen.PID
	Req  any
	Done chan callRes
}

type callRes struct {
	V    any
	Err  error
	Tick int64
}

func spin(us int) {
	if us <= 0 {
		return
	}
	t := time.Now()
	for time.Since(t) < time.Duration(us)*time.Microsecond {
	}
}

// ---------------------------------------------------------------------------
// drop logger: the pool logs one error line, synchronously inside forward(), per dropped message

type dropLogger struct {
	mu sync.Mutex
	n  map[gen.PID]int64
}

func (d *dropLogger) Log(m gen.MessageLog) {
	if m.Level != gen.LogLevelError || !strings.HasPrefix(m.Format, "no available worker process") {
		return
	}
	src, ok := m.Source.(gen.MessageLogProcess)
	if !ok {
		return
	}
	d.mu.Lock()
	d.n[src.PID]++
	d.mu.Unlock()
}
func (d *dropLogger) Terminate() {}
func (d *dropLogger) count(pid gen.PID) int64 {
	d.mu.Lock()
	defer d.mu.Unlock()
	return d.n[pid]
}
func (d *dropLogger) forget(pid gen.PID) {
	d.mu.Lock()
	delete(d.n, pid)
	d.mu.Unlock()
}

var drops = &dropLogger{n: map[gen.PID]int64{}}

// ---------------------------------------------------------------------------
// case state

type rec struct {
	ID    uint64
	Call  bool
	Prio  gen.MessagePriority
	From  gen.PID
	Agent *agent
	Err   error // error returned by Send (message never entered the pool mailbox)
}

type ownRec struct {
	ID   uint64
	From gen.PID
	Call bool
	Ref  gen.Ref
}

type wk struct {
	cs       *caseState
	idx      int // registration (= spawn) order
	inst     *actors.Inst
	mb       gen.ProcessMailbox
	args     []any
	ready    atomic.Bool
	parked   *block // non-nil while the harness holds the worker in its handler
	killTick int64  // logical clock just before node.Kill was issued (0 = never killed)
	doomed   string // why the harness expects / caused the death of this worker ("" = healthy)
	jobs     atomic.Int64
}

func (w *wk) pid() gen.PID { return w.inst.PID }

type agent struct {
	n       *hk.HNode
	pid     gen.PID
	inst    *actors.Inst
	cur     atomic.Uint64 // id of the request in flight (0 = none)
	pending atomic.Int32  // scripts accepted but not finished
	mu      sync.Mutex
	results map[uint64]callRes
}

func (a *agent) result(id uint64) (callRes, bool) {
	a.mu.Lock()
	defer a.mu.Unlock()
	r, ok := a.results[id]
	return r, ok
}

type caseState struct {
	pn   *hk.HNode // node of the pool and its workers
	an   *hk.HNode // node of the senders / callers (== pn unless the case is remote)
	id   string
	n, m int64
	args []any

	pool     gen.PID
	poolInst *actors.Inst // only used as a callback recorder of the pool's own callbacks
	poolTerm atomic.Int32
	poolErr  atomic.Value

	mu      sync.Mutex
	workers []*wk
	byInst  map[*actors.Inst]*wk
	issued  map[uint64]*rec
	order   []uint64
	poolOwn []ownRec
	handled map[uint64][]*wk // online index (entry of the worker handler)
	agents  []*agent

	handledN atomic.Int64
	ctlCalls atomic.Int64
	frozen   atomic.Bool // agents stop issuing further operations (set before the accounting)
	ctl      *agent
	nextID   uint64

	viol  []string
	sig   string
	incon string

	replyWaitCut bool // the wait for replies was cut short by the run budget
}

func (cs *caseState) violate(sig, format string, a ...any) {
	if cs.sig == "" {
		cs.sig = sig
	}
	if len(cs.viol) < 12 {
		cs.viol = append(cs.viol, sig+": "+fmt.Sprintf(format, a...))
	}
}

func (cs *caseState) inconclusive(format string, a ...any) {
	if cs.incon == "" {
		cs.incon = fmt.Sprintf(format, a...)
	}
}

func (cs *caseState) workerList() []*wk {
	cs.mu.Lock()
	defer cs.mu.Unlock()
	return append([]*wk(nil), cs.workers...)
}

func (cs *caseState) noteHandled(i *actors.Inst, id uint64) {
	cs.mu.Lock()
	w := cs.byInst[i]
	cs.handled[id] = append(cs.handled[id], w)
	cs.mu.Unlock()
	if w != nil {
		w.jobs.Add(1)
	}
	cs.handledN.Add(1)
}

func (cs *caseState) handledBy(id uint64) []*wk {
	cs.mu.Lock()
	defer cs.mu.Unlock()
	return append([]*wk(nil), cs.handled[id]...)
}

// ---------------------------------------------------------------------------
// pool behaviour

type poolB struct {
	act.Pool
	cs *caseState
}

func (p *poolB) Init(args ...any) (act.PoolOptions, error) {
	cs := p.cs
	cs.pool = p.PID()
	return act.PoolOptions{
		PoolSize:          cs.n,
		WorkerMailboxSize: cs.m,
		WorkerFactory:     cs.workerFactory(),
		WorkerArgs:        cs.args,
	}, nil
}

// own callbacks: only High/Max priority traffic may arrive here
func (p *poolB) HandleMessage(from gen.PID, message any) error {
	if j, ok := message.(job); ok {
		p.cs.mu.Lock()
		p.cs.poolOwn = append(p.cs.poolOwn, ownRec{ID: j.ID, From: from})
		p.cs.mu.Unlock()
	}
	return nil
}

func (p *poolB) HandleCall(from gen.PID, ref gen.Ref, request any) (any, error) {
	switch r := request.(type) {
	case job:
		p.cs.mu.Lock()
		p.cs.poolOwn = append(p.cs.poolOwn, ownRec{ID: r.ID, From: from, Call: true, Ref: ref})
		p.cs.mu.Unlock()
		return reply{ID: r.ID, Worker: p.PID(), From: from, Ref: ref, ByPool: true}, nil
	case cmdAdd:
		n, err := p.AddWorkers(r.N)
		return cmdRes{N: n, Err: err}, nil
	case cmdRemove:
		n, err := p.RemoveWorkers(r.N)
		return cmdRes{N: n, Err: err}, nil
	case cmdStats:
		return cmdRes{Stats: p.Pool.HandleInspect(from)}, nil
	}
	return "unknown", nil
}

func (p *poolB) Terminate(reason error) {
	p.cs.poolTerm.Add(1)
	if reason != nil {
		p.cs.poolErr.Store(reason.Error())
	}
}

func (cs *caseState) workerFactory() gen.ProcessFactory {
	hooks := &actors.Hooks{
		Init: func(p *actors.Probe, args ...any) error {
			cs.mu.Lock()
			w := cs.byInst[p.I]
			cs.mu.Unlock()
			w.mb = p.Mailbox()
			w.args = args
			w.ready.Store(true)
			return nil
		},
		Msg: func(p *actors.Probe, from gen.PID, msg any) error {
			switch m := msg.(type) {
			case job:
				cs.noteHandled(p.I, m.ID)
				spin(m.Spin)
			case block:
				close(m.Entered)
				<-m.Release
			case die:
				return errDie
			}
			return nil
		},
		Call: func(p *actors.Probe, from gen.PID, ref gen.Ref, req any) (any, error) {
			if j, ok := req.(job); ok {
				cs.noteHandled(p.I, j.ID)
				spin(j.Spin)
				return reply{ID: j.ID, Worker: p.PID(), From: from, Ref: ref}, nil
			}
			return "unknown", nil
		},
	}
	return actors.NewProbeMulti(cs.id+"/worker", hooks, func(i *actors.Inst) {
		cs.mu.Lock()
		w := &wk{cs: cs, idx: len(cs.workers), inst: i}
		cs.workers = append(cs.workers, w)
		cs.byInst[i] = w
		cs.mu.Unlock()
	})
}

// ---------------------------------------------------------------------------
// agents: sender / caller / controller processes

func (cs *caseState) newAgent(label string) (*agent, error) { return cs.newAgentOn(cs.an, label) }

func (cs *caseState) newAgentOn(n *hk.HNode, label string) (*agent, error) {
	a := &agent{n: n, results: map[uint64]callRes{}}
	f, inst := actors.NewProbe(cs.id+"/"+label, &actors.Hooks{
		Msg: func(p *actors.Probe, from gen.PID, msg any) error {
			switch m := msg.(type) {
			case script:
				for _, o := range m.Ops {
					if cs.frozen.Load() && !m.Force {
						break
					}
					r := &rec{ID: o.J.ID, Call: o.Kind == opCall, Prio: o.Prio, From: p.PID(), Agent: a}
					cs.mu.Lock()
					cs.issued[r.ID] = r
					cs.order = append(cs.order, r.ID)
					cs.mu.Unlock()
					if o.Kind == opSend {
						var err error
						if o.Prio == gen.MessagePriorityNormal {
							err = p.Send(m.To, o.J)
						} else {
							err = p.SendWithPriority(m.To, o.J, o.Prio)
						}
						if err != nil {
							cs.mu.Lock()
							r.Err = err
							cs.mu.Unlock()
						}
						continue
					}
					a.cur.Store(o.J.ID)
					var v any
					var err error
					if o.Prio == gen.MessagePriorityNormal {
						v, err = p.CallWithTimeout(m.To, o.J, callTimeout)
					} else {
						v, err = p.CallWithPriority(m.To, o.J, o.Prio)
					}
					res := callRes{V: v, Err: err, Tick: hk.Tick()}
					a.mu.Lock()
					a.results[o.J.ID] = res
					a.mu.Unlock()
					a.cur.Store(0)
				}
				a.pending.Add(-1)
			case ctlCall:
				v, err := p.CallWithPriority(m.To, m.Req, gen.MessagePriorityHigh)
				m.Done <- callRes{V: v, Err: err, Tick: hk.Tick()}
			}
			return nil
		},
	})
	pid, err := n.Spawn(f, gen.ProcessOptions{})
	if err != nil {
		return nil, err
	}
	a.pid = pid
	a.inst = inst
	cs.mu.Lock()
	cs.agents = append(cs.agents, a)
	cs.mu.Unlock()
	return a, nil
}

// run hands a script to the agent (asynchronously)
func (a *agent) run(s script) {
	a.pending.Add(1)
	if err := a.n.Send(a.pid, s); err != nil {
		a.pending.Add(-1)
	}
}

// control sends a command request to the pool at High priority and returns the answer
func (cs *caseState) control(req any) (cmdRes, bool) {
	done := make(chan callRes, 1)
	cs.ctlCalls.Add(1)
	cs.ctl.n.Send(cs.ctl.pid, ctlCall{To: cs.pool, Req: req, Done: done})
	select {
	case r := <-done:
		if r.Err != nil {
			cs.inconclusive("control request %T failed: %v", req, r.Err)
			return cmdRes{}, false
		}
		cr, ok := r.V.(cmdRes)
		if !ok {
			cs.inconclusive("control request %T: unexpected answer %v", req, r.V)
		}
		return cr, ok
	case <-time.After(10 * time.Second):
		st, _ := cs.ctl.n.ProcessState(cs.ctl.pid)
		cs.inconclusive("watchdog: control request %T not answered (controller state %v): %s", req, st, cs.diag(0))
		return cmdRes{}, false
	}
}

// ---------------------------------------------------------------------------
// observation helpers

func aliveState(s gen.ProcessState) bool {
	switch s {
	case gen.ProcessStateInit, gen.ProcessStateSleep, gen.ProcessStateRunning, gen.ProcessStateWaitResponse:
		return true
	}
	return false
}

func (w *wk) alive() bool {
	if !w.ready.Load() {
		return false
	}
	s, err := w.cs.pn.ProcessState(w.pid())
	return err == nil && aliveState(s)
}

func (w *wk) gone() bool {
	_, err := w.cs.pn.ProcessState(w.pid())
	return err != nil
}

// settled: the worker is in a stable state (parked by the harness, idle with an empty mailbox, or gone)
func (w *wk) settled() bool {
	if !w.ready.Load() {
		return false
	}
	if w.parked != nil {
		return true
	}
	s, err := w.cs.pn.ProcessState(w.pid())
	if err != nil {
		return !w.inst.InCallback()
	}
	if s != gen.ProcessStateSleep {
		return false
	}
	if hk.LiveRunners(w.pid()) > 0 || w.inst.InCallback() {
		return false
	}
	return w.mb.Main.Len()+w.mb.System.Len()+w.mb.Urgent.Len() == 0
}

func (cs *caseState) poolInfo() (gen.ProcessInfo, bool) {
	info, err := cs.pn.ProcessInfo(cs.pool)
	return info, err == nil
}

func (cs *caseState) poolIdle(minIn uint64) bool {
	info, ok := cs.poolInfo()
	if !ok {
		return true // the pool is gone: nothing more will happen (reported by the caller)
	}
	if info.MessagesIn < minIn {
		return false
	}
	q := info.MailboxQueues
	if q.Main+q.System+q.Urgent+q.Log > 0 {
		return false
	}
	return info.State == gen.ProcessStateSleep && hk.LiveRunners(cs.pool) == 0
}

// arrivals is the number of messages that were (or are being) sent to the pool: the pool cannot be called idle
// before it has received them all (matters when the senders sit on another node)
func (cs *caseState) arrivals() uint64 {
	n := uint64(cs.ctlCalls.Load())
	cs.mu.Lock()
	for _, r := range cs.issued {
		if r.Err == nil {
			n++
		}
	}
	cs.mu.Unlock()
	return n
}

func (cs *caseState) poolIn() uint64 {
	info, _ := cs.poolInfo()
	return info.MessagesIn
}

// settle waits until the pool has consumed at least minIn messages and is idle, and every worker is settled
func (cs *caseState) settle(minIn uint64) bool {
	ok := hk.WaitUntil(15*time.Second, func() bool {
		if !cs.poolIdle(minIn) {
			return false
		}
		for _, w := range cs.workerList() {
			if !w.settled() {
				return false
			}
		}
		// the pool may have been woken by a worker in between: look again
		return cs.poolIdle(minIn)
	})
	if !ok {
		cs.inconclusive("watchdog: pool/workers did not reach quiescence: %s", cs.diag(minIn))
	}
	return ok
}

// diag describes what is not quiet (for inconclusive reports)
func (cs *caseState) diag(minIn uint64) string {
	s := ""
	if info, ok := cs.poolInfo(); ok {
		q := info.MailboxQueues
		s = fmt.Sprintf("pool state=%v in=%d (want>=%d) queues main=%d system=%d urgent=%d runners=%d;", info.State, info.MessagesIn, minIn, q.Main, q.System, q.Urgent, hk.LiveRunners(cs.pool))
	} else {
		s = "pool gone;"
	}
	for _, w := range cs.workerList() {
		if w.ready.Load() && !w.settled() {
			st, err := cs.pn.ProcessState(w.pid())
			s += fmt.Sprintf(" worker %s state=%v err=%v main=%d system=%d urgent=%d runners=%d incallback=%v;", w.pid(), st, err, w.mb.Main.Len(), w.mb.System.Len(), w.mb.Urgent.Len(), hk.LiveRunners(w.pid()), w.inst.InCallback())
		}
	}
	return s
}

func scanQueue(q lib.QueueMPSC, f func(m *gen.MailboxMessage)) {
	if q == nil {
		return
	}
	for it := q.Item(); it != nil; it = it.Next() {
		if m, ok := it.Value().(*gen.MailboxMessage); ok && m != nil {
			f(m)
		}
	}
}

// queuedJobs returns the job ids sitting in the worker's mailbox (call only when nobody pops: parked, idle or dead worker)
func (w *wk) queuedJobs() []uint64 {
	var ids []uint64
	f := func(m *gen.MailboxMessage) {
		if j, ok := m.Message.(job); ok {
			ids = append(ids, j.ID)
		}
	}
	scanQueue(w.mb.Main, f)
	scanQueue(w.mb.System, f)
	scanQueue(w.mb.Urgent, f)
	return ids
}

// exitFrom reports whether an exit signal sent by `from` is waiting in the worker's urgent queue
func (w *wk) exitFrom(from gen.PID) bool {
	found := false
	scanQueue(w.mb.Urgent, func(m *gen.MailboxMessage) {
		if m.Type == gen.MailboxMessageTypeExit && m.From == from {
			found = true
		}
	})
	return found
}

func (w *wk) full(m int64) bool {
	return m > 0 && w.mb.Main.Len() >= m
}

// jobEvents returns the handler events of the worker that carry a job
type jobEv struct {
	w   *wk
	ev  actors.Ev
	pos int
}

func (w *wk) jobEvents() []jobEv {
	var r []jobEv
	for k, e := range w.inst.Events() {
		if e.CB != "msg" && e.CB != "call" {
			continue
		}
		if _, ok := e.Msg.(job); ok {
			r = append(r, jobEv{w: w, ev: e, pos: k})
		}
	}
	return r
}

// replyExcused: the reply of the request handled by event pos of worker w may legitimately be lost
// because the worker was killed (a zombie cannot send): true unless a later callback of the same
// worker began before the kill was issued (then the response had already been sent).
func (w *wk) replyExcused(pos int) bool {
	if w.killTick == 0 {
		return false
	}
	evs := w.inst.Events()
	for k := pos + 1; k < len(evs); k++ {
		if evs[k].CB == "terminate" {
			continue
		}
		if evs[k].L < w.killTick {
			return false
		}
	}
	return true
}

// ---------------------------------------------------------------------------
// case setup / teardown

func newCase(id string, n, m int64) (*caseState, error) { return newCaseOn(node, node, id, n, m) }

func newCaseOn(pn, an *hk.HNode, id string, n, m int64) (*caseState, error) {
	cs := &caseState{
		pn: pn, an: an,
		id: id, n: n, m: m,
		args:    []any{"c19-arg", id},
		byInst:  map[*actors.Inst]*wk{},
		issued:  map[uint64]*rec{},
		handled: map[uint64][]*wk{},
		nextID:  1,
	}
	pid, err := pn.Spawn(func() gen.ProcessBehavior { return &poolB{cs: cs} }, gen.ProcessOptions{})
	if err != nil {
		return nil, err
	}
	cs.pool = pid
	if cs.ctl, err = cs.newAgentOn(pn, "ctl"); err != nil {
		return nil, err
	}
	return cs, nil
}

func (cs *caseState) newID() uint64 {
	id := cs.nextID
	cs.nextID++
	return id
}

func (cs *caseState) teardown() {
	// unpark whatever is still parked, then kill everything that belongs to the case
	for _, w := range cs.workerList() {
		if w.parked != nil {
			close(w.parked.Release)
			w.parked = nil
		}
	}
	cs.pn.Kill(cs.pool)
	for _, w := range cs.workerList() {
		if w.ready.Load() {
			cs.pn.Kill(w.pid())
		}
	}
	cs.mu.Lock()
	ags := append([]*agent(nil), cs.agents...)
	cs.mu.Unlock()
	for _, a := range ags {
		a.n.Kill(a.pid)
	}
	drops.forget(cs.pool)
}

func (cs *caseState) events() int64 {
	var n int64
	for _, w := range cs.workerList() {
		n += w.inst.Callbacks.Load()
	}
	cs.mu.Lock()
	n += int64(len(cs.poolOwn))
	cs.mu.Unlock()
	return n
}

func (cs *caseState) finish(scenario, key string, nontrivial bool, detail any) {
	c := hk.Case{ID: cs.id, Scenario: scenario, Key: key, Nontrivial: nontrivial, Events: cs.events(), Detail: detail}
	switch {
	case len(cs.viol) > 0:
		c.Verdict = hk.Violated
		c.Sig = cs.sig
		c.What = strings.Join(cs.viol, " | ")
	case cs.incon != "":
		c.Verdict = hk.Inconclusive
		c.What = cs.incon
		c.Nontrivial = false
	default:
		c.Verdict = hk.Held
	}
	hk.Emit(c)
}
