// C19 — pool dispatch: every normal-priority message or request sent to an act.Pool is handed to exactly one
// worker with the original sender and request reference (so the worker's reply reaches the caller); a worker
// whose mailbox is full is skipped, the message is dropped only when all workers are full; a worker found dead
// at dispatch time is replaced on the spot and gets the message; High/Max priority traffic runs the pool's
// own callbacks.
//
// Monitors: instrumented workers (handler log with id, from, ref, own pid; mailbox contents captured from
// birth), instrumented callers (reply value per request), the pool's drop log line (written synchronously
// inside forward()), ring length probe (AddWorkers(0) from inside the pool).
// Workloads: stepwise walks (one operation at a time, every dispatch decision judged against the observed
// worker state) and concurrent stress with crashes, judged by conservation at quiescence.
package main

import (
	"fmt"
	"os"
	"sync"
	"time"

	"ergo.services/ergo/gen"
	"ergo.services/ergo/net/edf"

	"verif/harness/hk"
)

// callTimeout (seconds) of normal-priority requests: long, so that a timeout never decides a verdict; callers
// blocked on a dropped / lost request are abandoned at the end of the case
const callTimeout = 60

var node *hk.HNode

// remote family: pool on rnA, senders / callers on rnB
var rnA, rnB *hk.HNode

func parallel(workers int, jobs []func()) {
	ch := make(chan func())
	var wg sync.WaitGroup
	for i := 0; i < workers; i++ {
		wg.Add(1)
		go func() {
			defer wg.Done()
			for f := range ch {
				f()
			}
		}()
	}
	for _, f := range jobs {
		ch <- f
	}
	close(ch)
	wg.Wait()
}

func dropTweak(o *gen.NodeOptions) {
	for _, l := range o.Log.Loggers {
		if l.Name == "c19drops" {
			return
		}
	}
	o.Log.Loggers = append(o.Log.Loggers, gen.Logger{Name: "c19drops", Logger: drops})
}

func startRemote() bool {
	for _, v := range []any{job{}, reply{}} {
		if err := edf.RegisterTypeOf(v); err != nil {
			hk.Note("remote_family_skipped", fmt.Sprintf("RegisterTypeOf(%T): %v", v, err))
			return false
		}
	}
	reg := hk.FreePort()
	var err error
	if rnA, err = hk.StartNode(hk.NodeCfg{Name: hk.UniqueName("c19a"), Network: true, RegPort: reg, Tweak: dropTweak}); err != nil {
		hk.Note("remote_family_skipped", "start node A: "+err.Error())
		return false
	}
	if rnB, err = hk.StartNode(hk.NodeCfg{Name: hk.UniqueName("c19b"), Network: true, RegPort: reg}); err != nil {
		hk.Note("remote_family_skipped", "start node B: "+err.Error())
		return false
	}
	if _, err = hk.Connect(rnB, rnA); err != nil {
		hk.Note("remote_family_skipped", "connect: "+err.Error())
		return false
	}
	return true
}

func main() {
	hk.InstallHook()
	hk.Rule("walk: seeded random walks of single operations (send/call through the pool at normal or High/Max priority, park a worker in its handler, release, kill/die/exit an idle or parked worker, AddWorkers/RemoveWorkers) over pools of 1-5 workers with worker mailbox 0(unbounded)-3, quiescence after every operation, every dispatch judged against the observed mailbox state (families W = local callers, R = callers on a second node); stress: concurrent callers/senders x worker kills x slow workers x bounded mailboxes under seeded yields, judged by conservation at quiescence. Non-trivial iff the case contains >=1 dispatch that skipped a full worker (round-robin reference confirmed by the observed target, or a drop = all skipped) or >=1 replacement of a dead worker; distinct = family x pool size x mailbox size x observed classes (skip/drop/replace/lost)")
	hk.Assume("worker behaviour act.Actor; callers and senders on the pool's node or on a second node of the same OS process; the pool's worker mailboxes receive messages only from the pool (plus harness control messages sent to idle workers)")
	hk.Assume("round-robin order is used only to count skips and for the claim that one dispatch per ring slot over idle workers visits every slot")
	var err error
	node, err = hk.StartNode(hk.NodeCfg{Name: "c19", Tweak: dropTweak})
	if err != nil {
		fmt.Fprintln(os.Stderr, "start node:", err)
		os.Exit(3)
	}
	replyWaitBudget.Store(int64(time.Duration(hk.Pick(90, 300)) * time.Second))
	t0 := time.Now()
	var jobs []func()
	perProfile := hk.Pick(150, 5000)
	for _, prof := range profiles {
		for k := 0; k < perProfile; k++ {
			prof, k := prof, k
			jobs = append(jobs, func() { runWalk(prof, k, false) })
		}
	}
	parallel(8, jobs)
	hk.Note("walk_seconds", time.Since(t0).Seconds())

	// remote callers: the same walks with the senders / callers on a second node
	t2 := time.Now()
	remoteOK := startRemote()
	if remoteOK {
		jobs = nil
		for _, prof := range profiles {
			for k := 0; k < hk.Pick(12, 400); k++ {
				prof, k := prof, k
				jobs = append(jobs, func() { runWalk(prof, k, true) })
			}
		}
		parallel(8, jobs)
	}
	hk.Note("remote_walk_seconds", time.Since(t2).Seconds())

	t1 := time.Now()
	hk.Stress("c19-stress", map[string]float64{
		"proc.run.wake": 0.03, "proc.run.enter": 0.03, "proc.run.tosleep": 0.1, "proc.run.recheck": 0.15, "proc.run.reacquire": 0.15,
		"proc.run.term.kill": 0.3, "proc.run.term.err": 0.3, "proc.kill.zombie": 0.3, "proc.kill.term": 0.3,
		"proc.unreg.deleted": 0.3, "proc.spawn.linked": 0.2, "mpsc.push.swapped": 0.01,
	}, 200*time.Microsecond)
	jobs = nil
	for k := 0; k < hk.Pick(600, 25000); k++ {
		k := k
		jobs = append(jobs, func() { runStress(k, false) })
	}
	if remoteOK {
		for k := 0; k < hk.Pick(40, 2000); k++ {
			k := k
			jobs = append(jobs, func() { runStress(k, true) })
		}
	}
	parallel(6, jobs)
	hk.StressOff()
	hk.Note("stress_seconds", time.Since(t1).Seconds())

	h, d := hk.PointStats()
	hk.Note("hook_hits", h)
	hk.Note("hook_delays", d)
	if len(node.Cap.PanicLines()) > 0 {
		hk.Note("framework_panic_log_lines", node.Cap.PanicLines())
	}
	os.Stdout.Sync()
	os.Exit(0)
}
