package main

import (
	"fmt"
	"sync/atomic"
	"time"

	"ergo.services/ergo/gen"

	"verif/harness/hk"
)

// classification of one normal-priority id at final quiescence
const (
	clHandled = "handled"
	clLost    = "lost-at-dead-worker"
	clNowhere = "nowhere"
)

type idClass struct {
	Class  string
	Worker *wk
}

type accounting struct {
	Issued, Normal, Prio     int
	Handled, Lost, Nowhere   int
	Replies, RepliesExcused  int
	NowhereIDs               []uint64
	Class                    map[uint64]idClass
	ReplacedOrAdded          int
	PoolOwn                  int
	DistinctWorkersWithAJob  int
	MaxJobsAtOneWorker       int64
	LiveWorkers, DeadWorkers int
}

var zeroRef gen.Ref

// waitReplies waits until every request that a healthy worker (or the pool itself) has handled is answered at
// its caller.  Callers still blocked afterwards are either waiting for a dropped / lost request (fine) or are
// a structural witness of a reply that never arrived (decided in account()).
//
// The wait is a watchdog for goroutine scheduling only (the answer was put into the caller's response channel
// before the worker went idle).  The whole run has a budget for expired waits, so that a tree that loses every
// reply still finishes in time: once the budget is used up, cases with a pending reply are inconclusive.
var replyWaitBudget atomic.Int64

func (cs *caseState) waitReplies() {
	d := 6 * time.Second
	exhausted := replyWaitBudget.Load() <= 0
	if exhausted {
		d = 300 * time.Millisecond
	}
	t0 := time.Now()
	ok := hk.WaitUntil(d, cs.repliesIn)
	if !ok {
		replyWaitBudget.Add(-int64(time.Since(t0)))
		if exhausted {
			cs.replyWaitCut = true
			cs.inconclusive("a reply is pending and the run's budget for waiting on replies is exhausted (earlier cases already reported reply-not-delivered)")
		}
	}
}

func (cs *caseState) repliesIn() bool {
	return func() bool {
		cs.mu.Lock()
		recs := make([]*rec, 0, len(cs.issued))
		for _, r := range cs.issued {
			if r.Call {
				recs = append(recs, r)
			}
		}
		own := map[uint64]bool{}
		for _, o := range cs.poolOwn {
			own[o.ID] = true
		}
		cs.mu.Unlock()
		for _, r := range recs {
			if _, ok := r.Agent.result(r.ID); ok {
				continue
			}
			if own[r.ID] {
				return false
			}
			for _, w := range cs.handledBy(r.ID) {
				if w == nil {
					continue
				}
				if w.killTick == 0 {
					return false // handled by a worker that was never killed: the reply must come
				}
				for _, je := range w.jobEvents() {
					if je.ev.Msg.(job).ID == r.ID && !w.replyExcused(je.pos) {
						return false
					}
				}
			}
		}
		return true
	}()
}

// account applies the family-independent oracles at final quiescence (pool idle, all workers idle or gone)
func (cs *caseState) account() *accounting {
	cs.waitReplies()
	a := &accounting{Class: map[uint64]idClass{}}
	handledEv := map[uint64][]jobEv{}
	leftover := map[uint64][]*wk{}
	refs := map[gen.Ref]uint64{}
	workers := cs.workerList()
	for _, w := range workers {
		if !w.ready.Load() {
			continue
		}
		evs := w.jobEvents()
		if len(evs) > 0 {
			a.DistinctWorkersWithAJob++
		}
		if int64(len(evs)) > a.MaxJobsAtOneWorker {
			a.MaxJobsAtOneWorker = int64(len(evs))
		}
		for _, je := range evs {
			id := je.ev.Msg.(job).ID
			handledEv[id] = append(handledEv[id], je)
		}
		for _, id := range w.queuedJobs() {
			leftover[id] = append(leftover[id], w)
		}
		if w.alive() {
			a.LiveWorkers++
		} else {
			a.DeadWorkers++
		}
		// every worker (initial, added, replacement) is created with the configured arguments
		if fmt.Sprint(w.args) != fmt.Sprint(cs.args) {
			cs.violate("worker-args-not-passed", "worker %s was started with args %v, configured %v", w.pid(), w.args, cs.args)
		}
	}
	cs.mu.Lock()
	order := append([]uint64(nil), cs.order...)
	issued := map[uint64]*rec{}
	for k, v := range cs.issued {
		issued[k] = v
	}
	own := map[uint64][]ownRec{}
	for _, o := range cs.poolOwn {
		own[o.ID] = append(own[o.ID], o)
	}
	a.PoolOwn = len(cs.poolOwn)
	cs.mu.Unlock()

	for _, id := range order {
		r := issued[id]
		if r.Err != nil {
			continue
		}
		a.Issued++
		H, Q, O := handledEv[id], leftover[id], own[id]
		if r.Prio != gen.MessagePriorityNormal {
			a.Prio++
			if len(H)+len(Q) > 0 {
				cs.violate("high-priority-forwarded-to-worker", "id %d sent with priority %v was handed to a worker (handled %d, queued %d)", id, r.Prio, len(H), len(Q))
			}
			if len(O) != 1 {
				cs.violate("high-priority-not-at-pool-callbacks", "id %d sent with priority %v reached the pool's own callbacks %d times", id, r.Prio, len(O))
				continue
			}
			if O[0].From != r.From || O[0].Call != r.Call {
				cs.violate("high-priority-sender-changed", "id %d: pool callback saw from=%s call=%v, sent by %s call=%v", id, O[0].From, O[0].Call, r.From, r.Call)
			}
			if r.Call {
				res, ok := r.Agent.result(id)
				rp, isReply := res.V.(reply)
				if !ok && cs.replyWaitCut {
					continue
				}
				if !ok || res.Err != nil || !isReply || rp.ID != id || !rp.ByPool {
					cs.violate("pool-own-reply-missing", "id %d (priority %v request): answer of the pool's HandleCall did not reach the caller: ok=%v res=%v err=%v", id, r.Prio, ok, res.V, res.Err)
				} else {
					a.Replies++
				}
			}
			continue
		}
		a.Normal++
		if len(O) > 0 {
			cs.violate("normal-priority-handled-by-pool", "id %d sent with normal priority ran the pool's own callback", id)
		}
		if len(H)+len(Q) > 1 {
			var where []string
			for _, h := range H {
				where = append(where, fmt.Sprintf("handled@%s", h.w.pid()))
			}
			for _, q := range Q {
				where = append(where, fmt.Sprintf("queued@%s", q.pid()))
			}
			cs.violate("duplicate-dispatch", "id %d was handed to more than one place: %v", id, where)
			continue
		}
		switch {
		case len(H) == 1:
			a.Handled++
			h := H[0]
			a.Class[id] = idClass{clHandled, h.w}
			if h.ev.From != r.From {
				cs.violate("sender-not-preserved", "id %d: worker %s saw from=%s, the sender was %s", id, h.w.pid(), h.ev.From, r.From)
			}
			if r.Call != (h.ev.CB == "call") {
				cs.violate("message-kind-changed", "id %d: sent as call=%v, worker callback %q", id, r.Call, h.ev.CB)
			}
			if !r.Call {
				continue
			}
			if h.ev.Ref == zeroRef {
				cs.violate("ref-not-preserved", "id %d: worker %s saw an empty request reference", id, h.w.pid())
			} else if prev, dup := refs[h.ev.Ref]; dup {
				cs.violate("ref-not-preserved", "ids %d and %d were seen with the same request reference %v", prev, id, h.ev.Ref)
			}
			refs[h.ev.Ref] = id
			res, ok := r.Agent.result(id)
			if ok && res.Err == nil {
				rp, isReply := res.V.(reply)
				if !isReply || rp.ID != id || rp.Worker != h.w.pid() || rp.From != r.From || rp.Ref != h.ev.Ref {
					cs.violate("reply-mismatch", "id %d: caller %s received %v, the handler was worker %s with from=%s ref=%v", id, r.From, res.V, h.w.pid(), h.ev.From, h.ev.Ref)
				} else {
					a.Replies++
				}
				continue
			}
			if h.w.replyExcused(h.pos) {
				a.RepliesExcused++
				continue
			}
			if cs.replyWaitCut {
				continue // not waited long enough to decide: the case is inconclusive
			}
			st, _ := r.Agent.n.ProcessState(r.From)
			cs.violate("reply-not-delivered", "id %d: worker %s (alive=%v, killed=%v) finished the handler of the request of %s but the caller has no answer (returned=%v err=%v, caller state %v)", id, h.w.pid(), h.w.alive(), h.w.killTick != 0, r.From, ok, res.Err, st)
		case len(Q) == 1:
			a.Lost++
			a.Class[id] = idClass{clLost, Q[0]}
			if Q[0].alive() {
				cs.violate("message-stuck-at-live-worker", "id %d is still queued at live worker %s at quiescence", id, Q[0].pid())
			}
		default:
			a.Nowhere++
			a.NowhereIDs = append(a.NowhereIDs, id)
			a.Class[id] = idClass{clNowhere, nil}
		}
	}
	// ids nobody issued must not show up
	for id := range handledEv {
		if _, ok := issued[id]; !ok {
			cs.violate("phantom-message", "workers handled id %d which was never sent", id)
		}
	}
	if cs.poolTerm.Load() > 0 {
		cs.violate("pool-terminated", "the pool process terminated during the case: %v", cs.poolErr.Load())
	}
	return a
}
