package main

import (
	"errors"
	"fmt"
	"math/rand"
	"sort"
	"time"

	"ergo.services/ergo/act"
	"ergo.services/ergo/gen"

	"verif/harness/hk"
)

// Stepwise ("walk") family: one operation at a time, the harness waits for quiescence after each and
// observes where the message went (worker handler logs + mailbox contents), so that every single
// dispatch decision of the pool is judged against the state the pool saw.

const (
	oSend = iota
	oCall
	oPrio
	oPark
	oRelease
	oKillIdle
	oDie
	oExitIdle
	oKillParked
	oExitParked
	oAdd
	oRemove
	oCount
)

var opNames = [oCount]string{"send", "call", "prio", "park", "release", "kill-idle", "die", "exit-idle", "kill-parked", "exit-parked", "add", "remove"}

type profile struct {
	name    string
	w       [oCount]int
	parkAll bool // start by parking every worker
	minM    int64
}

var profiles = []profile{
	{name: "healthy", w: [oCount]int{oSend: 50, oCall: 35, oPrio: 15}},
	{name: "parked", w: [oCount]int{oSend: 45, oCall: 20, oPrio: 4, oPark: 20, oRelease: 6}, minM: 1},
	{name: "allfull", w: [oCount]int{oSend: 55, oCall: 25, oPrio: 4, oPark: 6, oRelease: 5}, parkAll: true, minM: 1},
	{name: "crash-idle", w: [oCount]int{oSend: 40, oCall: 25, oPrio: 3, oKillIdle: 8, oDie: 6, oExitIdle: 6}},
	{name: "crash-parked", w: [oCount]int{oSend: 40, oCall: 15, oPrio: 2, oPark: 15, oRelease: 8, oKillParked: 8, oExitParked: 6}},
	{name: "resize", w: [oCount]int{oSend: 40, oCall: 20, oPrio: 2, oPark: 8, oRelease: 4, oKillIdle: 4, oAdd: 8, oRemove: 8}},
	{name: "mixed", w: [oCount]int{oSend: 35, oCall: 18, oPrio: 4, oPark: 10, oRelease: 5, oKillIdle: 3, oDie: 3, oExitIdle: 2, oKillParked: 4, oExitParked: 3, oAdd: 3, oRemove: 3}},
}

type walk struct {
	cs  *caseState
	rng *rand.Rand

	ringLive  map[*wk]bool // live workers the harness knows to be in the ring
	deadSlots int          // ring slots that hold a dead worker not yet discovered by the pool
	ringLen   int

	model   []*wk // reference ring order (round robin); advisory: used to count skips
	modelOK bool

	accepted map[uint64]*wk
	dropped  map[uint64]bool
	senders  []*agent
	callers  []*agent

	skips, skipSteps, drops, replacements, accepts, orderMismatch int
	lostPossible                                                  int
	trace                                                         []string
	stop                                                          bool
}

func (st *walk) logf(format string, a ...any) {
	if len(st.trace) < 400 {
		st.trace = append(st.trace, fmt.Sprintf(format, a...))
	}
}

func (st *walk) bad() bool {
	return st.stop || len(st.cs.viol) > 0 || st.cs.incon != ""
}

func sortedWks(m map[*wk]bool) []*wk {
	var r []*wk
	for w := range m {
		r = append(r, w)
	}
	sort.Slice(r, func(i, j int) bool { return r[i].idx < r[j].idx })
	return r
}

type preState struct {
	full  map[*wk]bool
	alive map[*wk]bool
}

func (st *walk) pre() preState {
	p := preState{full: map[*wk]bool{}, alive: map[*wk]bool{}}
	for _, w := range st.cs.workerList() {
		p.alive[w] = w.alive()
		p.full[w] = w.full(st.cs.m)
	}
	return p
}

var newWorker = &wk{idx: -1}

// predict runs the round-robin reference on the model ring
func (st *walk) predict(p preState) (target *wk, skips int, ring []*wk) {
	ring = append([]*wk(nil), st.model...)
	l := len(ring)
	for i := 0; i < l; i++ {
		w := ring[0]
		ring = ring[1:]
		if !p.alive[w] {
			return newWorker, skips, ring
		}
		ring = append(ring, w)
		if p.full[w] {
			skips++
			continue
		}
		return w, skips, ring
	}
	return nil, skips, ring
}

func (st *walk) freeCaller() *agent {
	for _, a := range st.callers {
		if a.pending.Load() == 0 {
			return a
		}
	}
	a, err := st.cs.newAgent(fmt.Sprintf("caller%d", len(st.callers)))
	if err != nil {
		st.cs.inconclusive("spawn caller: %v", err)
		return nil
	}
	st.callers = append(st.callers, a)
	return a
}

// dispatch sends one job through the pool and judges the decision the pool took
func (st *walk) dispatch(kind int, prio gen.MessagePriority) {
	cs := st.cs
	id := cs.newID()
	p := st.pre()
	nW := len(cs.workerList())
	in0 := cs.poolIn()
	drop0 := drops.count(cs.pool)
	var ag *agent
	if kind == opCall {
		ag = st.freeCaller()
	} else {
		ag = st.senders[st.rng.Intn(len(st.senders))]
	}
	if ag == nil {
		return
	}
	ag.run(script{To: cs.pool, Ops: []op{{Kind: kind, J: job{ID: id}, Prio: prio}}})
	if !cs.settle(in0 + 1) {
		return
	}
	if _, ok := cs.poolInfo(); !ok {
		cs.violate("pool-terminated", "the pool process is gone after step id %d: %v", id, cs.poolErr.Load())
		return
	}
	workers := cs.workerList()
	newWs := workers[nW:]
	if prio != gen.MessagePriorityNormal {
		st.logf("id %d prio=%v call=%v -> pool callbacks", id, prio, kind == opCall)
		if len(newWs) > 0 {
			cs.violate("spawn-without-dead-worker", "id %d (priority %v) made the pool spawn %d workers", id, prio, len(newWs))
		}
		return // judged in account()
	}
	var where []*wk
	var how []string
	for _, w := range cs.handledBy(id) {
		where = append(where, w)
		how = append(how, "handled")
	}
	for _, w := range workers {
		if !w.ready.Load() {
			continue
		}
		for _, q := range w.queuedJobs() {
			if q == id {
				where = append(where, w)
				how = append(how, "queued")
			}
		}
	}
	dropLogged := drops.count(cs.pool) - drop0
	pt, pskips, pring := st.predict(p)
	ringDesc := func() string {
		s := ""
		for _, w := range sortedWks(st.ringLive) {
			s += fmt.Sprintf(" %s[q=%d/%d parked=%v full=%v]", w.pid(), w.mb.Main.Len(), cs.m, w.parked != nil, p.full[w])
		}
		return fmt.Sprintf("ring len %d, dead slots %d, live:%s", st.ringLen, st.deadSlots, s)
	}
	switch {
	case len(where) > 1:
		cs.violate("duplicate-dispatch", "id %d was handed to %d places: %v %v", id, len(where), how, where)
		return
	case len(where) == 1:
		w := where[0]
		st.accepts++
		st.accepted[id] = w
		if w.idx >= nW {
			// a worker spawned during this dispatch
			st.logf("id %d -> NEW worker %s (%s)", id, w.pid(), how[0])
			if st.deadSlots == 0 {
				cs.violate("spawn-without-dead-worker", "id %d went to a freshly spawned worker %s although no ring slot was dead; %s", id, w.pid(), ringDesc())
			} else {
				st.deadSlots--
			}
			st.ringLive[w] = true
			st.replacements++
			if len(newWs) != 1 {
				cs.violate("extra-workers-spawned", "dispatch of id %d spawned %d workers", id, len(newWs))
				for _, x := range newWs {
					st.ringLive[x] = true
				}
			}
			if st.modelOK {
				if pt == newWorker {
					st.model = append(pring, w)
					st.noteSkips(pskips)
				} else {
					st.modelMismatch(id, pt, w)
				}
			}
		} else {
			st.logf("id %d -> worker %s (%s)", id, w.pid(), how[0])
			if len(newWs) > 0 {
				cs.violate("replacement-did-not-get-message", "dispatch of id %d spawned worker(s) %v but the message went to %s", id, pidsOf(newWs), w.pid())
				for _, x := range newWs {
					st.ringLive[x] = true
				}
			}
			if !st.ringLive[w] {
				cs.violate("dispatch-outside-ring", "id %d went to worker %s (doomed=%q alive=%v) which is not a live ring member; %s", id, w.pid(), w.doomed, p.alive[w], ringDesc())
			}
			if p.full[w] {
				cs.violate("accepted-by-full-worker", "id %d was queued at worker %s whose mailbox already held %d >= %d", id, w.pid(), w.mb.Main.Len()-1, cs.m)
			}
			if st.modelOK {
				if pt == w {
					st.model = pring
					st.noteSkips(pskips)
				} else {
					st.modelMismatch(id, pt, w)
				}
			}
		}
		if dropLogged != 0 {
			cs.violate("drop-logged-for-delivered-message", "id %d was delivered to %s but the pool logged %d drops", id, w.pid(), dropLogged)
		}
	default:
		// nowhere: the pool dropped it
		st.drops++
		st.dropped[id] = true
		st.logf("id %d -> DROPPED (log lines %d)", id, dropLogged)
		allFull := true
		var room []string
		for _, w := range sortedWks(st.ringLive) {
			if !p.full[w] {
				allFull = false
				room = append(room, fmt.Sprintf("%s(q=%d/%d)", w.pid(), w.mb.Main.Len(), cs.m))
			}
		}
		if len(newWs) > 0 {
			cs.violate("replacement-did-not-get-message", "dispatch of id %d spawned worker(s) %v but the message is nowhere; %s", id, pidsOf(newWs), ringDesc())
			for _, x := range newWs {
				st.ringLive[x] = true
				if st.deadSlots > 0 {
					st.deadSlots--
				}
			}
		} else if st.ringLen > 0 && st.deadSlots > 0 {
			cs.violate("dropped-instead-of-replacing-dead-worker", "id %d was dropped although %d ring slots hold a dead worker that had to be replaced; %s", id, st.deadSlots, ringDesc())
		} else if st.ringLen > 0 && !allFull {
			cs.violate("dropped-although-worker-has-room", "id %d was dropped although workers %v had room; %s", id, room, ringDesc())
		}
		if st.modelOK {
			if pt == nil {
				st.model = pring
				st.noteSkips(pskips)
			} else {
				st.modelMismatch(id, pt, nil)
			}
		}
	}
}

func pidsOf(ws []*wk) []gen.PID {
	var r []gen.PID
	for _, w := range ws {
		r = append(r, w.inst.PID)
	}
	return r
}

func (st *walk) noteSkips(n int) {
	if n > 0 {
		st.skips += n
		st.skipSteps++
	}
}

func (st *walk) modelMismatch(id uint64, predicted, observed *wk) {
	st.modelOK = false
	st.orderMismatch++
	name := func(w *wk) string {
		switch w {
		case nil:
			return "drop"
		case newWorker:
			return "replacement"
		}
		return w.pid().String()
	}
	st.logf("id %d: round-robin reference predicted %s, observed %s (reference switched off)", id, name(predicted), name(observed))
}

func (st *walk) pick(filter func(w *wk) bool) *wk {
	var c []*wk
	for _, w := range st.cs.workerList() {
		if w.ready.Load() && filter(w) {
			c = append(c, w)
		}
	}
	if len(c) == 0 {
		return nil
	}
	return c[st.rng.Intn(len(c))]
}

func (st *walk) park(w *wk) {
	b := &block{Entered: make(chan struct{}), Release: make(chan struct{})}
	if err := st.cs.pn.Send(w.pid(), *b); err != nil {
		st.cs.inconclusive("park: direct send to worker %s failed: %v", w.pid(), err)
		return
	}
	select {
	case <-b.Entered:
		w.parked = b
		st.logf("park %s", w.pid())
	case <-time.After(10 * time.Second):
		st.cs.inconclusive("watchdog: worker %s never entered the parking handler", w.pid())
	}
}

// afterDeath moves a ring member that has died into the dead-slot count
func (st *walk) slotDied(w *wk) {
	if st.ringLive[w] {
		delete(st.ringLive, w)
		st.deadSlots++
	}
}

func (st *walk) release(w *wk) {
	close(w.parked.Release)
	w.parked = nil
	st.logf("release %s (doomed=%q)", w.pid(), w.doomed)
	if !st.cs.settle(0) {
		return
	}
	if w.doomed != "" {
		if !hk.WaitUntil(10*time.Second, w.gone) {
			st.cs.inconclusive("watchdog: doomed worker %s (%s) did not terminate after release", w.pid(), w.doomed)
			return
		}
		st.slotDied(w)
	}
}

func (st *walk) waitGone(w *wk, why string) bool {
	if !hk.WaitUntil(10*time.Second, w.gone) {
		st.cs.inconclusive("watchdog: worker %s did not terminate after %s", w.pid(), why)
		return false
	}
	return true
}

func (st *walk) checkRingLen(when string) {
	r, ok := st.cs.control(cmdAdd{N: 0})
	if !ok {
		return
	}
	if r.Err != nil || r.N != int64(st.ringLen) {
		st.cs.violate("ring-size-changed", "%s: the ring holds %d workers (err=%v), configured size is %d", when, r.N, r.Err, st.ringLen)
		st.stop = true
	}
}

func (st *walk) step(o int) {
	cs := st.cs
	idle := func(w *wk) bool { return st.ringLive[w] && w.parked == nil && w.doomed == "" && w.alive() }
	parkedHealthy := func(w *wk) bool { return st.ringLive[w] && w.parked != nil && w.doomed == "" }
	switch o {
	case oSend:
		st.dispatch(opSend, gen.MessagePriorityNormal)
	case oCall:
		st.dispatch(opCall, gen.MessagePriorityNormal)
	case oPrio:
		prio := gen.MessagePriorityHigh
		if st.rng.Intn(2) == 0 {
			prio = gen.MessagePriorityMax
		}
		st.dispatch(st.rng.Intn(2), prio)
	case oPark:
		if w := st.pick(idle); w != nil {
			st.park(w)
		}
	case oRelease:
		if w := st.pick(func(w *wk) bool { return w.parked != nil }); w != nil {
			st.release(w)
		}
	case oKillIdle:
		if w := st.pick(idle); w != nil {
			w.doomed = "kill-idle"
			w.killTick = hk.Tick()
			cs.pn.Kill(w.pid())
			st.logf("kill idle %s", w.pid())
			if st.waitGone(w, "Kill") {
				st.slotDied(w)
			}
		}
	case oDie:
		if w := st.pick(idle); w != nil {
			w.doomed = "die"
			cs.pn.Send(w.pid(), die{})
			st.logf("die %s", w.pid())
			if st.waitGone(w, "die") {
				st.slotDied(w)
			}
		}
	case oExitIdle:
		if w := st.pick(idle); w != nil {
			w.doomed = "exit-idle"
			cs.pn.SendExit(w.pid(), errors.New("c19-exit"))
			st.logf("exit idle %s", w.pid())
			if st.waitGone(w, "exit signal") {
				st.slotDied(w)
			}
		}
	case oKillParked:
		if w := st.pick(parkedHealthy); w != nil {
			w.doomed = "kill-parked"
			w.killTick = hk.Tick()
			cs.pn.Kill(w.pid())
			st.lostPossible += len(w.queuedJobs())
			st.logf("kill parked %s (queue %d)", w.pid(), w.mb.Main.Len())
			if w.alive() {
				cs.inconclusive("killed parked worker %s still reports an alive state", w.pid())
				return
			}
			st.slotDied(w) // a zombie is dead for the pool: Forward answers ErrProcessTerminated
		}
	case oExitParked:
		if w := st.pick(parkedHealthy); w != nil {
			if err := cs.pn.SendExit(w.pid(), errors.New("c19-exit")); err == nil {
				w.doomed = "exit-parked" // dies when released; until then it is a live ring member
				st.logf("exit parked %s (queue %d)", w.pid(), w.mb.Main.Len())
			}
		}
	case oAdd:
		k := 1 + st.rng.Intn(2)
		nW := len(cs.workerList())
		r, ok := cs.control(cmdAdd{N: k})
		if !ok || !cs.settle(0) {
			return
		}
		newWs := cs.workerList()[nW:]
		st.logf("add %d -> ring %d, new %v", k, r.N, pidsOf(newWs))
		st.ringLen += k
		for _, w := range newWs {
			st.ringLive[w] = true
			st.model = append(st.model, w)
			if !w.alive() {
				cs.violate("addworkers-count", "AddWorkers(%d): new worker %s is not alive", k, w.pid())
			}
		}
		if r.Err != nil || len(newWs) != k || r.N != int64(st.ringLen) {
			cs.violate("addworkers-count", "AddWorkers(%d) on a ring of %d: returned (%d, %v), spawned %d workers", k, st.ringLen-k, r.N, r.Err, len(newWs))
			st.stop = true
		}
	case oRemove:
		// a parked worker whose bounded urgent queue is already filled by the harness's own exit signal cannot
		// take the pool's exit signal: RemoveWorkers would be unobservable there, skip the operation
		for _, w := range sortedWks(st.ringLive) {
			if w.parked != nil && cs.m > 0 && w.mb.Urgent.Len() >= cs.m {
				return
			}
		}
		k := 1 + st.rng.Intn(2)
		r, ok := cs.control(cmdRemove{N: k})
		if !ok || !cs.settle(0) {
			return
		}
		kEff := k
		if kEff > st.ringLen {
			kEff = st.ringLen
		}
		var removed []*wk
		for _, w := range sortedWks(st.ringLive) {
			if w.parked != nil {
				if w.exitFrom(cs.pool) {
					removed = append(removed, w)
				}
			} else if !w.alive() {
				removed = append(removed, w)
			}
		}
		st.logf("remove %d -> ring %d err=%v, removed live %v (dead slots before %d)", k, r.N, r.Err, pidsOf(removed), st.deadSlots)
		if k <= st.ringLen {
			if r.Err != nil || r.N != int64(st.ringLen-k) {
				cs.violate("removeworkers-count", "RemoveWorkers(%d) on a ring of %d returned (%d, %v)", k, st.ringLen, r.N, r.Err)
				st.stop = true
			}
		} else if r.Err != act.ErrPoolEmpty {
			cs.violate("removeworkers-count", "RemoveWorkers(%d) on a ring of %d returned (%d, %v), expected ErrPoolEmpty", k, st.ringLen, r.N, r.Err)
			st.stop = true
		}
		lo := kEff - st.deadSlots
		if lo < 0 {
			lo = 0
		}
		if len(removed) < lo || len(removed) > kEff {
			cs.violate("removeworkers-count", "RemoveWorkers(%d) on a ring of %d (%d dead slots) stopped %d live workers %v", k, st.ringLen, st.deadSlots, len(removed), pidsOf(removed))
			st.stop = true
		}
		st.deadSlots -= kEff - len(removed)
		if st.deadSlots < 0 {
			st.deadSlots = 0
		}
		st.ringLen -= kEff
		for _, w := range removed {
			delete(st.ringLive, w)
			if w.doomed == "" || w.doomed == "exit-parked" {
				w.doomed = "removed"
			}
			st.lostPossible += len(w.queuedJobs())
		}
		// reference ring: RemoveWorkers pops from the front
		if st.modelOK {
			front := st.model
			if len(front) > kEff {
				front = front[:kEff]
			}
			cnt := 0
			for _, w := range front {
				for _, x := range removed {
					if x == w {
						cnt++
					}
				}
			}
			if cnt != len(removed) {
				st.modelOK = false
				st.orderMismatch++
				st.logf("remove: reference expected the front %v to be removed (reference switched off)", pidsOf(front))
			} else {
				st.model = st.model[len(front):]
			}
		}
		st.checkRingLen("after RemoveWorkers")
	}
}

func runWalk(prof profile, k int, remote bool) {
	fam, scen := "W", "walk-"
	if remote {
		fam, scen = "R", "remote-walk-"
	}
	id := fmt.Sprintf("%s/%s/%d", fam, prof.name, k)
	if !hk.Want(id) {
		return
	}
	rng := hk.Rng("c19", id)
	n := int64(1 + rng.Intn(5))
	m := []int64{0, 1, 1, 2, 3}[rng.Intn(5)]
	if m < prof.minM {
		m = prof.minM + int64(rng.Intn(2))
	}
	steps := 15 + rng.Intn(hk.Pick(30, 70))
	var cs *caseState
	var err error
	if remote {
		cs, err = newCaseOn(rnA, rnB, id, n, m)
	} else {
		cs, err = newCase(id, n, m)
	}
	if err != nil {
		hk.Emit(hk.Case{ID: id, Scenario: scen + prof.name, Verdict: hk.Inconclusive, What: "spawn pool: " + err.Error()})
		return
	}
	defer cs.teardown()
	st := &walk{cs: cs, rng: rng, ringLive: map[*wk]bool{}, modelOK: true, accepted: map[uint64]*wk{}, dropped: map[uint64]bool{}}
	for i := 0; i < 2; i++ {
		a, err := cs.newAgent(fmt.Sprintf("sender%d", i))
		if err != nil {
			cs.inconclusive("spawn sender: %v", err)
			break
		}
		st.senders = append(st.senders, a)
	}
	if cs.incon == "" && cs.settle(0) {
		ws := cs.workerList()
		if int64(len(ws)) != n {
			cs.violate("pool-size-not-configured", "PoolSize %d: the pool started %d workers", n, len(ws))
		}
		for _, w := range ws {
			st.ringLive[w] = true
			st.model = append(st.model, w)
			if !w.alive() {
				cs.violate("pool-size-not-configured", "initial worker %s is not alive", w.pid())
			}
		}
		st.ringLen = len(ws)
		st.checkRingLen("after start")
	}
	if prof.parkAll && !st.bad() {
		for _, w := range cs.workerList() {
			st.park(w)
		}
	}
	total := 0
	for _, x := range prof.w {
		total += x
	}
	var opsDone [oCount]int
	for s := 0; s < steps && !st.bad(); s++ {
		r := rng.Intn(total)
		o := 0
		for ; o < oCount; o++ {
			if r < prof.w[o] {
				break
			}
			r -= prof.w[o]
		}
		opsDone[o]++
		st.step(o)
	}
	// finale: release everything, let doomed workers die
	if !st.bad() {
		for _, w := range cs.workerList() {
			if w.parked != nil {
				st.release(w)
			}
			if st.bad() {
				break
			}
		}
	}
	// restore round: with every worker idle, one dispatch per ring slot visits every slot; afterwards every dead
	// slot must have been replaced and the number of live workers equals the configured ring size
	if !st.bad() && st.ringLen > 0 {
		for i := 0; i < st.ringLen && !st.bad(); i++ {
			st.dispatch(i%2, gen.MessagePriorityNormal)
		}
		if !st.bad() {
			live := 0
			for _, w := range cs.workerList() {
				if w.alive() && w.doomed != "removed" {
					live++
				}
			}
			if st.deadSlots != 0 || live != st.ringLen {
				cs.violate("ring-not-restored", "after %d dispatches over idle workers %d dead slots remain and %d workers are alive; configured ring size %d", st.ringLen, st.deadSlots, live, st.ringLen)
			}
			st.checkRingLen("at the end")
		}
	}
	var acc *accounting
	if !st.bad() && cs.settle(0) {
		acc = cs.account()
		for _, id := range sortedIDs(st.accepted) {
			w := st.accepted[id]
			c := acc.Class[id]
			switch c.Class {
			case clHandled:
				if c.Worker != w {
					cs.violate("handled-by-other-worker", "id %d was queued at %s and handled by %s", id, w.pid(), c.Worker.pid())
				}
			case clLost:
				if c.Worker != w {
					cs.violate("duplicate-dispatch", "id %d was queued at %s and is left in the mailbox of %s", id, w.pid(), c.Worker.pid())
				}
				if w.doomed == "" {
					cs.violate("worker-died-unexpectedly", "worker %s died without the harness touching it; id %d was lost in its mailbox", w.pid(), id)
				}
			default:
				cs.violate("accepted-message-vanished", "id %d was queued at worker %s (doomed=%q) and is neither handled nor left in a dead worker's mailbox", id, w.pid(), w.doomed)
			}
		}
		for _, id := range acc.NowhereIDs {
			if !st.dropped[id] {
				if _, was := st.accepted[id]; !was {
					cs.violate("accepted-message-vanished", "id %d is nowhere although no drop was observed", id)
				}
			}
		}
		for id := range st.dropped {
			if c := acc.Class[id]; c.Class != clNowhere {
				cs.violate("dispatch-after-drop", "id %d was observed as dropped but is %s at the end", id, c.Class)
			}
		}
	}
	nontrivial := st.skips > 0 || st.replacements > 0
	classes := ""
	if st.skips > 0 {
		classes += "+skip"
	}
	if st.drops > 0 {
		classes += "+drop"
	}
	if st.replacements > 0 {
		classes += "+replace"
	}
	if acc != nil && acc.Lost > 0 {
		classes += "+lost"
	}
	key := fmt.Sprintf("%s/%s/n%d/m%d/%s", fam, prof.name, n, m, classes)
	detail := map[string]any{
		"pool_size": n, "worker_mailbox": m, "steps": steps, "skips": st.skips, "steps_with_skip": st.skipSteps, "drops": st.drops,
		"replacements": st.replacements, "accepted": st.accepts, "round_robin_reference_ok": st.modelOK,
		"ring_len_end": st.ringLen, "ops": opsSummary(opsDone),
	}
	if acc != nil {
		detail["handled"] = acc.Handled
		detail["lost_at_dead_worker"] = acc.Lost
		detail["replies"] = acc.Replies
		detail["replies_excused_by_kill"] = acc.RepliesExcused
		detail["pool_own_callbacks"] = acc.PoolOwn
		hk.Stat("walk_messages", int64(acc.Issued))
		hk.Stat("walk_handled", int64(acc.Handled))
		hk.Stat("walk_lost_at_dead_worker", int64(acc.Lost))
		hk.Stat("walk_replies_checked", int64(acc.Replies))
	}
	if len(cs.viol) > 0 || cs.incon != "" {
		detail["trace"] = st.trace
	}
	hk.Stat("walk_skips", int64(st.skips))
	hk.Stat("walk_drops_all_full", int64(st.drops))
	hk.Stat("walk_replacements", int64(st.replacements))
	hk.Stat("walk_round_robin_reference_mismatch", int64(st.orderMismatch))
	cs.finish(scen+prof.name, key, nontrivial, detail)
}

func sortedIDs(m map[uint64]*wk) []uint64 {
	var r []uint64
	for id := range m {
		r = append(r, id)
	}
	sort.Slice(r, func(i, j int) bool { return r[i] < r[j] })
	return r
}

func opsSummary(c [oCount]int) map[string]int {
	r := map[string]int{}
	for i, n := range c {
		if n > 0 {
			r[opNames[i]] = n
		}
	}
	return r
}
