package main

import (
	"fmt"
	"sort"
	"time"

	"ergo.services/ergo/gen"

	"verif/harness/hk"
)

// Stress family: concurrent callers and senders x worker crashes x slow workers x bounded mailboxes, under
// seeded yields at the scheduler hooks.  Decided at quiescence by conservation:
//   every id that entered the pool is  handled exactly once  |  left in the mailbox of a worker that died  |
//   dropped (exactly as many as the pool logged drops; never with unbounded worker mailboxes)
// and every request a surviving worker handled was answered at its caller with the right value.

type stressParams struct {
	N, M                int64
	Agents, OpsPerAgent int
	CallPct, PrioPct    int
	Kills               int
	SpinMax             int
}

// structQuiet: the pool is idle, every worker is idle or gone, every agent has finished its script or is blocked
// in a request
func (cs *caseState) structQuiet() bool {
	if !cs.poolIdle(cs.arrivals()) {
		return false
	}
	for _, w := range cs.workerList() {
		if !w.settled() {
			return false
		}
	}
	cs.mu.Lock()
	ags := append([]*agent(nil), cs.agents...)
	cs.mu.Unlock()
	for _, a := range ags {
		if a.pending.Load() == 0 {
			continue
		}
		s, err := a.n.ProcessState(a.pid)
		if err != nil || s != gen.ProcessStateWaitResponse || a.cur.Load() == 0 {
			return false
		}
	}
	return cs.poolIdle(cs.arrivals())
}

// stressQuiet: structQuiet and no blocked agent is waiting for a reply that is on its way
func (cs *caseState) stressQuiet() bool {
	return cs.structQuiet() && cs.repliesIn() && cs.structQuiet()
}

func (cs *caseState) progress() (int, int64) {
	cs.mu.Lock()
	n := len(cs.order)
	cs.mu.Unlock()
	return n, cs.handledN.Load()
}

// waitStressQuiet waits for stressQuiet.  If only replies stay pending (agents blocked although a healthy worker
// finished their request) for longer than the reply watchdog, while nothing else moves, the case goes on to the
// accounting, which reports them; the time is taken from the run's reply-wait budget.
func (cs *caseState) waitStressQuiet() {
	start := time.Now()
	for {
		d := 6 * time.Second
		if replyWaitBudget.Load() <= 0 {
			d = 300 * time.Millisecond
		}
		t0 := time.Now()
		if hk.WaitUntil(d, cs.stressQuiet) {
			return
		}
		if cs.structQuiet() {
			n0, h0 := cs.progress()
			time.Sleep(100 * time.Millisecond)
			n1, h1 := cs.progress()
			if n0 == n1 && h0 == h1 && cs.structQuiet() {
				replyWaitBudget.Add(-int64(time.Since(t0)))
				return
			}
		}
		if time.Since(start) > 30*time.Second {
			cs.inconclusive("watchdog: no quiescence after the traffic: %s", cs.diag(cs.arrivals()))
			return
		}
	}
}

func runStress(k int, remote bool) {
	fam, scen := "S", "stress"
	if remote {
		fam, scen = "RS", "remote-stress"
	}
	id := fmt.Sprintf("%s/%d", fam, k)
	if !hk.Want(id) {
		return
	}
	rng := hk.Rng("c19", id)
	sp := stressParams{
		N:           []int64{1, 2, 3, 4, 8}[rng.Intn(5)],
		M:           []int64{0, 0, 2, 6}[rng.Intn(4)],
		Agents:      4 + rng.Intn(20),
		OpsPerAgent: 5 + rng.Intn(hk.Pick(30, 80)),
		CallPct:     []int{0, 30, 60}[rng.Intn(3)],
		PrioPct:     []int{0, 5}[rng.Intn(2)],
		Kills:       []int{0, 1, 2, 4}[rng.Intn(4)],
		SpinMax:     []int{0, 10, 60}[rng.Intn(3)],
	}
	var cs *caseState
	var err error
	if remote {
		cs, err = newCaseOn(rnA, rnB, id, sp.N, sp.M)
	} else {
		cs, err = newCase(id, sp.N, sp.M)
	}
	if err != nil {
		hk.Emit(hk.Case{ID: id, Scenario: scen, Verdict: hk.Inconclusive, What: "spawn pool: " + err.Error()})
		return
	}
	defer cs.teardown()
	if !cs.settle(0) {
		cs.finish(scen, id, false, sp)
		return
	}
	// scripts
	var ags []*agent
	var scripts []script
	normalOps := 0
	for a := 0; a < sp.Agents; a++ {
		ag, err := cs.newAgent(fmt.Sprintf("agent%d", a))
		if err != nil {
			cs.inconclusive("spawn agent: %v", err)
			break
		}
		s := script{To: cs.pool}
		for o := 0; o < sp.OpsPerAgent; o++ {
			x := op{Kind: opSend, J: job{ID: uint64(a+1)<<20 | uint64(o+1)}}
			if rng.Intn(100) < sp.CallPct {
				x.Kind = opCall
			}
			if sp.SpinMax > 0 {
				x.J.Spin = rng.Intn(sp.SpinMax)
			}
			if rng.Intn(100) < sp.PrioPct {
				x.Prio = []gen.MessagePriority{gen.MessagePriorityHigh, gen.MessagePriorityMax}[rng.Intn(2)]
			} else {
				normalOps++
			}
			s.Ops = append(s.Ops, x)
		}
		ags = append(ags, ag)
		scripts = append(scripts, s)
	}
	// kill plan: thresholds on the number of handled jobs
	var thr []int
	for i := 0; i < sp.Kills; i++ {
		thr = append(thr, 1+rng.Intn(normalOps*3/4+1))
	}
	sort.Ints(thr)
	kinds := make([]int, sp.Kills)
	picks := make([]int, sp.Kills)
	for i := range kinds {
		kinds[i] = rng.Intn(3)
		picks[i] = rng.Intn(1 << 20)
	}
	for i, ag := range ags {
		ag.run(scripts[i])
	}
	victims := 0
	chaosDone := make(chan struct{})
	go func() {
		defer close(chaosDone)
		for i, t := range thr {
			ok := hk.WaitUntil(20*time.Second, func() bool { return cs.handledN.Load() >= int64(t) || cs.structQuiet() })
			if !ok || cs.handledN.Load() < int64(t) {
				return
			}
			var cand []*wk
			for _, w := range cs.workerList() {
				// only workers that have handled a job: a fresh replacement is not killed before it got its message
				if w.ready.Load() && w.doomed == "" && w.jobs.Load() > 0 && w.alive() {
					cand = append(cand, w)
				}
			}
			if len(cand) == 0 {
				continue
			}
			w := cand[picks[i]%len(cand)]
			switch kinds[i] {
			case 0, 1:
				w.doomed = "kill"
				w.killTick = hk.Tick()
				cs.pn.Kill(w.pid())
			default:
				w.doomed = "die"
				cs.pn.SendWithPriority(w.pid(), die{}, gen.MessagePriorityHigh)
			}
			victims++
		}
	}()
	select {
	case <-chaosDone:
	case <-time.After(90 * time.Second):
		cs.inconclusive("watchdog: chaos goroutine did not finish")
	}
	if cs.incon == "" {
		cs.waitStressQuiet()
	}
	// an agent blocked on a request whose worker was killed may still get its answer (sent just before the kill):
	// freeze the scripts so that it cannot resume the traffic during the accounting
	cs.frozen.Store(true)
	if cs.incon == "" {
		cs.waitStressQuiet()
	}
	blocked := 0
	for _, a := range ags {
		if a.pending.Load() != 0 {
			blocked++
		}
	}
	// restore round: one dispatch per ring slot over idle workers replaces every dead slot
	ringOK := false
	if cs.incon == "" {
		if r, ok := cs.control(cmdAdd{N: 0}); ok {
			if r.N != sp.N || r.Err != nil {
				cs.violate("ring-size-changed", "after the traffic the ring holds %d workers (err=%v), configured size is %d", r.N, r.Err, sp.N)
			} else if flusher, err := cs.newAgent("flusher"); err == nil {
				ringOK = true
				for i := int64(0); i < sp.N && cs.incon == ""; i++ {
					in0 := cs.poolIn()
					flusher.run(script{To: cs.pool, Force: true, Ops: []op{{Kind: opSend, J: job{ID: uint64(0xfff)<<20 | uint64(i+1)}}}})
					cs.settle(in0 + 1)
				}
			}
		}
	}
	var acc *accounting
	dropLog := drops.count(cs.pool)
	replaced := 0
	if cs.incon == "" && cs.settle(0) {
		acc = cs.account()
		dropLog = drops.count(cs.pool)
		ws := cs.workerList()
		replaced = len(ws) - int(sp.N)
		if ringOK {
			if acc.LiveWorkers != int(sp.N) {
				cs.violate("ring-not-restored", "after one dispatch per ring slot over idle workers %d workers are alive, configured ring size %d (%d workers died, %d were spawned as replacements)", acc.LiveWorkers, sp.N, acc.DeadWorkers, replaced)
			}
		}
		if int64(acc.Nowhere) > dropLog {
			ids := acc.NowhereIDs
			if len(ids) > 8 {
				ids = ids[:8]
			}
			cs.violate("message-vanished", "%d messages are neither handled nor left in a dead worker's mailbox, the pool logged only %d drops; e.g. ids %x", acc.Nowhere, dropLog, ids)
		} else if int64(acc.Nowhere) < dropLog {
			cs.violate("drop-logged-for-delivered-message", "the pool logged %d drops but only %d messages are unaccounted", dropLog, acc.Nowhere)
		}
		if sp.M == 0 && dropLog > 0 {
			cs.violate("dropped-although-worker-has-room", "worker mailboxes are unbounded, yet the pool dropped %d messages", dropLog)
		}
		for id, c := range acc.Class {
			if c.Class == clLost && c.Worker.doomed == "" && !c.Worker.alive() {
				cs.violate("worker-died-unexpectedly", "worker %s died without the harness touching it; id %x was lost in its mailbox", c.Worker.pid(), id)
			}
		}
		for _, w := range ws {
			if !w.alive() && w.doomed == "" {
				cs.violate("worker-died-unexpectedly", "worker %s died without the harness touching it", w.pid())
			}
		}
		hk.Stat("stress_messages", int64(acc.Issued))
		hk.Stat("stress_handled", int64(acc.Handled))
		hk.Stat("stress_lost_at_dead_worker", int64(acc.Lost))
		hk.Stat("stress_dropped_all_full", dropLog)
		hk.Stat("stress_replies_checked", int64(acc.Replies))
		hk.Stat("stress_replies_excused_by_kill", int64(acc.RepliesExcused))
		hk.Stat("stress_replacements", int64(replaced))
		hk.StatMax("stress_max_jobs_at_one_worker", acc.MaxJobsAtOneWorker)
	}
	classes := ""
	if dropLog > 0 {
		classes += "+drop"
	}
	if replaced > 0 {
		classes += "+replace"
	}
	if acc != nil && acc.Lost > 0 {
		classes += "+lost"
	}
	key := fmt.Sprintf("%s/n%d/m%d/calls=%v/kills=%v/%s", fam, sp.N, sp.M, sp.CallPct > 0, sp.Kills > 0, classes)
	detail := map[string]any{"params": sp, "victims": victims, "replacements": replaced, "dropped": dropLog, "agents_blocked_on_lost_request": blocked}
	if acc != nil {
		detail["issued"] = acc.Issued
		detail["handled"] = acc.Handled
		detail["lost_at_dead_worker"] = acc.Lost
		detail["nowhere"] = acc.Nowhere
		detail["replies"] = acc.Replies
		detail["replies_excused_by_kill"] = acc.RepliesExcused
		detail["workers_with_a_job"] = acc.DistinctWorkersWithAJob
	}
	if stats, ok := cs.control(cmdStats{}); ok && acc != nil {
		detail["pool_inspect"] = stats.Stats
	}
	cs.finish(scen, key, replaced > 0 || dropLog > 0, detail)
}
