// C18 — events: every subscriber sees every publication once, in order.
//
// Monitors: client-side histories of SendEvent / LinkEvent / MonitorEvent /
// UnlinkEvent / DemonitorEvent calls stamped with a global logical clock, the
// slice returned by the subscribe call, the events / exit / down messages every
// subscriber handled, the MessageEventStart/Stop messages the producer handled.
// Oracles: exact reference model for sequential histories; for concurrent
// histories the B/L oracle of DESIGN.md (returned buffer B is a contiguous
// recent suffix, live sequence L is gap-free and duplicate-free per publisher,
// no gap between B and L, everything begun after the subscribe call returned is
// delivered), token authorisation, one exit/down per live subscription,
// Start/Stop accounting, no subscriber terminates inside the subscribe call.
// Workloads: seeded sequential histories, seeded concurrent churn with yield-point
// stress, subscribers parked by a gate at event.sub.added / link.checked, a
// subscribe/unsubscribe hammer against a publishing producer (flush-mode buffer).
package main

import (
	"errors"
	"fmt"
	"os"
	"runtime"
	"strings"
	"sync"
	"sync/atomic"
	"time"

	"ergo.services/ergo/gen"
	"ergo.services/ergo/net/edf"

	"verif/harness/hk"
)

var (
	nodeA *hk.HNode // owner node: producers, local subscribers
	nodeB *hk.HNode // second node: remote subscribers
	evSeq atomic.Int64
)

func freshEvent(tag string) gen.Atom {
	return gen.Atom(fmt.Sprintf("ev_%s_%d", tag, evSeq.Add(1)))
}

var (
	connSuspect atomic.Bool // a case saw a connection-level panic or a failing remote call: verify before the next remote case
	pinger      *actor
)

func connected() bool {
	if nodeB == nil {
		return false
	}
	_, e1 := nodeB.Network().Node(nodeA.Name())
	_, e2 := nodeA.Network().Node(nodeB.Name())
	return e1 == nil && e2 == nil
}

func resetConn() {
	if rn, err := nodeB.Network().Node(nodeA.Name()); err == nil {
		rn.Disconnect()
	}
	if rn, err := nodeA.Network().Node(nodeB.Name()); err == nil {
		rn.Disconnect()
	}
	hk.WaitUntil(5*time.Second, func() bool {
		_, e1 := nodeB.Network().Node(nodeA.Name())
		_, e2 := nodeA.Network().Node(nodeB.Name())
		return e1 != nil && e2 != nil
	})
	hk.Connect(nodeB, nodeA)
	hk.WaitUntil(5*time.Second, connected)
}

// ping: a remote subscribe to an event that does not exist must come back with ErrEventUnknown
func ping() bool {
	if pinger == nil || pinger.termed.Load() {
		var err error
		pinger, err = spawnActor(nodeB, true, "pinger")
		if err != nil {
			return false
		}
	}
	r, ok := pinger.subscribe(gen.Event{Name: "c18_no_such_event", Node: nodeA.Name()}, false)
	dbg("ping: ok=%v err=%v connected=%v", ok, r.Err, connected())
	return ok && r.Err != nil && r.Err.Error() == gen.ErrEventUnknown.Error()
}

func ensureConn() bool {
	if nodeB == nil {
		return false
	}
	if !connected() {
		resetConn()
		connSuspect.Store(true)
	}
	if connSuspect.Load() {
		for i := 0; i < 3; i++ {
			if connected() && ping() {
				connSuspect.Store(false)
				hk.Stat("connection_resets", int64(i))
				return true
			}
			resetConn()
		}
		return false
	}
	return true
}

// panic bookkeeping: framework panic-level log lines that appeared during a case, captured by an
// own logger (the kit's capturing logger keeps the first 200 error/panic lines only)
type panicLog struct {
	mu    sync.Mutex
	lines []string
}

func (l *panicLog) Log(m gen.MessageLog) {
	if m.Level != gen.LogLevelPanic {
		return
	}
	l.mu.Lock()
	l.lines = append(l.lines, fmt.Sprintf(m.Format, m.Args...))
	l.mu.Unlock()
}
func (l *panicLog) Terminate() {}
func (l *panicLog) count() int {
	l.mu.Lock()
	defer l.mu.Unlock()
	return len(l.lines)
}
func (l *panicLog) since(n int) []string {
	l.mu.Lock()
	defer l.mu.Unlock()
	if n >= len(l.lines) {
		return nil
	}
	return append([]string(nil), l.lines[n:]...)
}

var panicsA, panicsB = &panicLog{}, &panicLog{}

type panicMark struct{ a, b int }

func markPanics() panicMark { return panicMark{a: panicsA.count(), b: panicsB.count()} }

func newPanics(m panicMark) []string {
	var res []string
	for _, l := range append(panicsA.since(m.a), panicsB.since(m.b)...) {
		if strings.Contains(l, "c18: requested panic") {
			continue
		}
		res = append(res, l)
	}
	return res
}

// panicsWithBuffer: the current case uses an event with Buffer > 0 (set by the case)
var panicsWithBuffer atomic.Bool

// checkPanics judges the framework panics of a case. Call it after checkTermInSub.
func checkPanics(res *result, m panicMark) []string {
	lines := newPanics(m)
	for _, l := range lines {
		if strings.Contains(l, "panic on handling received message") {
			connSuspect.Store(true)
		}
		if strings.Contains(l, "TypeAssertionError") || (strings.Contains(l, "interface conversion") && strings.Contains(l, "MessageEvent")) ||
			(panicsWithBuffer.Load() && strings.Contains(l, "nil pointer dereference")) {
			// nil Value() of an evicted item, or a torn interface read of it (type word still set, data word
			// already nil: SIGSEGV in the type assertion of RouteLinkEvent/RouteMonitorEvent, stack confirmed
			// with a norecover build)
			res.violate("subscribe-vs-publish-buffer-race", "framework panic while a subscriber read the event buffer: %s", trim(l, 300))
		} else if res.sig != "subscribe-vs-publish-buffer-race" {
			res.violate("framework-panic-in-event-path", "framework panic during the case: %s", trim(l, 300))
		}
	}
	if panicsB.count() > m.b {
		connSuspect.Store(true)
	}
	return lines
}

var dbgOn = os.Getenv("C18_DEBUG") != ""
var dbgT0 = time.Now()

func dbg(format string, args ...any) {
	if dbgOn {
		fmt.Fprintf(os.Stderr, "%8.3f "+format+"\n", append([]any{time.Since(dbgT0).Seconds()}, args...)...)
	}
}

func trim(s string, n int) string {
	if len(s) > n {
		return s[:n] + "…"
	}
	return s
}

func finish(id, scenario, key string, nontrivial bool, events int64, r *result, detail any) {
	c := hk.Case{ID: id, Scenario: scenario, Key: key, Nontrivial: nontrivial, Events: events, Detail: detail}
	switch {
	case len(r.viol) > 0:
		c.Verdict = hk.Violated
		c.Sig = r.sig
		c.What = strings.Join(r.viol, " | ")
	case r.incon != "":
		c.Verdict = hk.Inconclusive
		c.What = r.incon
	default:
		c.Verdict = hk.Held
	}
	hk.Emit(c)
}

func killAll(as ...*actor) {
	for _, a := range as {
		if a != nil {
			a.kill()
		}
	}
}

// subscriber termination inside the subscribe call
func checkTermInSub(res *result, a *actor, lines []string) bool {
	dead, _, why, insub := a.term()
	if !dead || !insub {
		return false
	}
	sig := "subscriber-terminated-inside-subscribe"
	if errors.Is(why, gen.TerminateReasonPanic) {
		sig = "subscribe-vs-publish-buffer-race"
	}
	res.violate(sig, "%s (%s) terminated with reason %q while it was inside LinkEvent/MonitorEvent; framework panic lines: %v", a.label, a.pid, why, lines)
	return true
}

// waitFences: every alive remote subscriber has handled fence f of every listed publisher
func waitFences(subs []*actor, fs []Fence, d time.Duration) bool {
	any := false
	for _, s := range subs {
		any = any || s.remote
	}
	if !any {
		return true
	}
	lost := false
	ok := hk.WaitUntil(d, func() bool {
		if !connected() {
			lost = true
			return true
		}
		for _, s := range subs {
			if !s.remote || s.termed.Load() || !s.alive() {
				continue
			}
			for _, f := range fs {
				if !s.hasFence(f) {
					return false
				}
			}
		}
		return true
	})
	if lost {
		connSuspect.Store(true)
		return false
	}
	return ok
}

func anyRemote(subs []*actor) bool {
	for _, s := range subs {
		if s.remote && !s.termed.Load() {
			return true
		}
	}
	return false
}

// netQuiescent is a structural witness that every frame either node has handed to the connection so far
// has been read AND completely handled by the peer: the peers' in-counters equal the out-counters
// (read in an order that makes equality hold at the instant of the snapshot: counters are monotone and
// in <= out), and in a stop-the-world goroutine snapshot no receive-queue handler goroutine exists and
// every connection reader is blocked in a socket read (not between "frame read" and "handler started"),
// and no goroutine with framework frames is running or runnable (nothing of the framework can make
// progress without a new stimulus).
func netQuiescent() bool {
	ra, e1 := nodeA.Network().Node(nodeB.Name())
	rb, e2 := nodeB.Network().Node(nodeA.Name())
	if (e1 == nil) != (e2 == nil) {
		return false // one side still holds the connection
	}
	var inB, inA uint64
	if e1 == nil {
		inB, inA = rb.Info().MessagesIn, ra.Info().MessagesIn
	}
	buf := make([]byte, 4<<20)
	n := runtime.Stack(buf, true)
	if n == len(buf) {
		return false
	}
	if e1 == nil {
		// (no connection on either side: nothing can be in flight; only the goroutine conditions apply)
		outA, outB := ra.Info().MessagesOut, rb.Info().MessagesOut
		if inB != outA || inA != outB {
			return false
		}
	}
	for i, g := range strings.Split(string(buf[:n]), "\n\n") {
		// no framework goroutine (other than the caller, first in the dump) can make progress on its own:
		// running / runnable — includes goroutines that were created by framework code and have not run yet
		if i > 0 && strings.Contains(g, "ergo.services/ergo/") {
			if nl := strings.IndexByte(g, '\n'); nl > 0 {
				if h := g[:nl]; strings.Contains(h, "[running") || strings.Contains(h, "[runnable") || strings.Contains(h, "[syscall") {
					return false
				}
			}
		}
		// any goroutine of the network layer (a receive-queue handler — also one that was created by
		// serve() and has not run yet: its only frame is serve.gowrapN —, a sender, a flusher callback)
		// except a connection reader blocked in the socket read
		if !strings.Contains(g, "ergo/net/proto.") && !strings.Contains(g, "lib.(*flusher)") && !strings.Contains(g, "lib.NewFlusher") {
			continue
		}
		if strings.Contains(g, "(*connection).serve(") && strings.Contains(g, "internal/poll.(*FD).Read") {
			continue
		}
		if strings.Contains(g, "internal/poll.(*FD).Accept") {
			continue // acceptor
		}
		if strings.Contains(g, "(*connection).wait(") && strings.Contains(g, "sync.(*WaitGroup).Wait") {
			continue // the connection's life-time waiter (enp.Serve)
		}
		if dbgOn && os.Getenv("C18_DEBUG") == "2" {
			dbg("netQuiescent: active goroutine:\n%s", g)
		}
		return false
	}
	return true
}

// expectSignals: after the event ended, every live subscription owes exactly one exit (link) / down (monitor)
type liveSub struct {
	a       *actor
	r       subRec
	certain bool // false: an unsubscribe / death overlapped the end of the event: 0 or 1 accepted
	expect  bool // a notification is owed
	ordered bool // remote only: the harness ordered "event ended" before "relation inserted" with a gate, so no notification can be in flight
}

func checkSignals(res *result, c *evCtx, ls []liveSub) (events int64) {
	// remote notifications travel asynchronously: watchdog wait for the first one
	hk.WaitUntil(10*time.Second, func() bool {
		for _, l := range ls {
			if l.expect && l.certain && l.a.remote && !l.ordered && len(l.a.signals(c.ev)) == 0 && !l.a.termed.Load() {
				// nothing in flight any more: waiting longer cannot change the outcome
				return netQuiescent()
			}
		}
		return true
	})
	var as []*actor
	for _, l := range ls {
		as = append(as, l.a)
	}
	if !waitIdle(8*time.Second, as...) {
		res.inconclusive("watchdog: subscribers not idle after the event ended")
		return
	}
	for _, l := range ls {
		sg := l.a.signals(c.ev)
		events += int64(len(sg))
		kind := "down"
		if l.r.Link {
			kind = "exit"
		}
		right := 0
		for _, s := range sg {
			if s.Down == !l.r.Link {
				right++
			} else {
				res.violate("wrong-kind-notification", "%s: subscribed by link=%v but received down=%v notification for %s", l.a.label, l.r.Link, s.Down, c.ev)
			}
		}
		sfx := ""
		if l.a.remote {
			sfx = "-remote"
		}
		switch {
		case right > 1:
			res.violate("duplicate-"+kind+sfx, "%s: %d %s notifications for %s after it ended (one subscription)", l.a.label, right, kind, c.ev)
		case right == 1 && !l.expect && l.certain:
			res.violate("unexpected-"+kind+sfx, "%s: %s notification for %s although it had unsubscribed before the event ended", l.a.label, kind, c.ev)
		case right == 0 && l.expect && l.certain:
			if l.a.termed.Load() {
				continue
			}
			if !l.a.remote {
				res.violate("missing-"+kind, "%s: subscribed (call returned nil at %d), event %s ended (begin %d), subscriber idle with empty mailbox: no %s notification", l.a.label, l.r.S1, c.ev, c.endT0, kind)
				continue
			}
			has, ok := l.a.hasRelation(c.ev, l.r.Link)
			quiet := !l.ordered && hk.WaitUntil(2*time.Second, func() bool { return netQuiescent() && l.a.idle() && len(l.a.signals(c.ev)) == 0 })
			if quiet {
				hk.Stat("remote_missing_notification_decided_by_network_quiescence", 1)
				res.violate("missing-"+kind+"-remote", "%s: remote subscription to %s: the event ended, every frame the owner node sent has been read and handled by the subscriber's node (counters equal, no receive handler alive, readers blocked in read), subscriber idle: no %s notification (relation still present on its node: %v)", l.a.label, c.ev, kind, has)
			} else if l.ordered {
				res.violate("missing-"+kind+"-remote", "%s: remote subscription to %s returned nil after the event had ended; subscriber idle, no %s notification", l.a.label, c.ev, kind)
			} else if ok && !has {
				res.violate("missing-"+kind+"-remote", "%s: remote subscription to %s: relation already removed on the subscriber's node, subscriber idle, no %s notification", l.a.label, c.ev, kind)
			} else {
				if dbgOn {
					ra, _ := nodeA.Network().Node(nodeB.Name())
					rb, _ := nodeB.Network().Node(nodeA.Name())
					if ra != nil && rb != nil {
						dbg("%s: no %s: A out=%d in=%d | B out=%d in=%d | netQuiescent=%v idle=%v signals now=%d all sigs=%v", l.a.label, kind, ra.Info().MessagesOut, ra.Info().MessagesIn, rb.Info().MessagesOut, rb.Info().MessagesIn, netQuiescent(), l.a.idle(), len(l.a.signals(c.ev)), l.a.signals(c.ev))
					} else {
						dbg("%s: no %s: connection gone", l.a.label, kind)
					}
				}
				res.inconclusive(fmt.Sprintf("watchdog: remote subscriber %s got no %s notification within 10s (relation still present)", l.a.label, kind))
			}
		}
	}
	return
}

func errStr(e error) string {
	if e == nil {
		return "nil"
	}
	return e.Error()
}

// ---------------------------------------------------------------------------

func main() {
	hk.InstallHook()
	hk.Rule("seq: seeded sequential histories (register, failed registration of the taken name by another process or the node and later termination of that process, publish by owner/delegate, wrong-token publish, link/monitor by local and remote subscribers, unsubscribe, duplicate (un)subscribe, unregister, owner kill/exit/panic, optional subscriber death) decided against an exact reference model after quiescence of every step (never counted non-trivial: nothing overlaps); " +
		"conc: seeded concurrent churn (1-3 publishers holding the token publish batches, optionally a process without the token publishes too, while 2-9 local/remote subscribers subscribe, unsubscribe or die at PRNG publication counts, yield-point stress at event.sub.added/link.checked/mpsc.push/proc.unreg.event/recv.pushed/send.pick; afterwards a quiescent probe subscriber, then the event is unregistered or its owner killed/exits); " +
		"park: the subscriber (or the connection handler acting for a remote one) is parked at event.sub.added while the producer publishes k messages (with and without eviction from the bounded buffer), with a witness subscriber on the same node; park-remote: the owner node's reply to a remote subscribe is parked at send.pick while the producer publishes; park-end: the subscriber is parked at link.checked while the event is unregistered / its owner killed; notify: the first subscriber is lost by kill/exit/node-down, a second one subscribes and unsubscribes; intruder: another process (or the node) fails to register the taken event name and then terminates while local and remote subscribers are subscribed and the owner keeps publishing; " +
		"hammer: subscribers subscribe+unsubscribe in a tight loop against a continuously publishing producer with Buffer 1..4. " +
		"A case is non-trivial iff a SendEvent call overlapped a subscribe call in logical time (measured from the client-side clocks: conc, hammer) or, for the gate families, iff the gate fired while publications were made / the event was ended. distinct = family x parameters (buffer, notify, publishers, remote subscribers present, deaths, end mode, link/monitor, gate, publications while parked)")
	hk.Assume("a subscriber process subscribes to a given event at most once in the concurrent families, so its lifetime event log is the live sequence L of that subscription")
	hk.Assume("remote quiescence is detected with a fence: a regular message sent by the publisher process after its last publication; it relies on per-sender FIFO delivery over one connection (property C13)")
	hk.Assume("delivery to a remote subscriber that unsubscribes or dies is only required up to what it had received; in-flight publications may be dropped by its node")

	if err := edf.RegisterTypeOf(EvP{}); err != nil {
		fmt.Fprintln(os.Stderr, "register EvP:", err)
		os.Exit(3)
	}
	if err := edf.RegisterTypeOf(Fence{}); err != nil {
		fmt.Fprintln(os.Stderr, "register Fence:", err)
		os.Exit(3)
	}
	reg := hk.FreePort()
	var err error
	nodeA, err = hk.StartNode(hk.NodeCfg{Name: hk.UniqueName("c18a"), Network: true, RegPort: reg, PoolSize: 1, Tweak: func(o *gen.NodeOptions) {
		o.Log.Loggers = append(o.Log.Loggers[:1:1], gen.Logger{Name: "c18panics", Logger: panicsA})
	}})
	if err != nil {
		fmt.Fprintln(os.Stderr, "start node A:", err)
		os.Exit(3)
	}
	nodeB, err = hk.StartNode(hk.NodeCfg{Name: hk.UniqueName("c18b"), Network: true, RegPort: reg, PoolSize: 1, Tweak: func(o *gen.NodeOptions) {
		o.Log.Loggers = append(o.Log.Loggers[:1:1], gen.Logger{Name: "c18panics", Logger: panicsB})
	}})
	if err != nil {
		fmt.Fprintln(os.Stderr, "start node B:", err)
		os.Exit(3)
	}
	if !ensureConn() {
		fmt.Fprintln(os.Stderr, "connect B->A failed")
		os.Exit(3)
	}

	if fam := os.Getenv("C18_FAM"); fam != "" {
		// debugging aid: run one family only, C18_MAX cases
		max := 1 << 30
		fmt.Sscan(os.Getenv("C18_MAX"), &max)
		for k := 0; k < max && k < 100000; k++ {
			switch fam {
			case "seq":
				runSeq(k)
			case "conc":
				runConc(k)
			case "hammer":
				runHammer(k)
			}
		}
		os.Stdout.Sync()
		os.Exit(0)
	}
	// directed
	for _, n := range []int{0, 1, 2, 4} {
		for _, k := range []int{0, 1, n + 2} {
			for _, link := range []bool{true, false} {
				for _, remote := range []bool{false, true} {
					runPark(n, k, link, remote)
				}
			}
		}
	}
	for _, n := range []int{1, 3} {
		for _, k := range []int{1, n + 2} {
			for _, link := range []bool{true, false} {
				runRemoteWindow(n, k, link)
			}
		}
	}
	for _, link := range []bool{true, false} {
		for _, remote := range []bool{false, true} {
			for _, how := range []string{"unregister", "kill"} {
				runSubVsEnd(link, remote, how)
			}
		}
	}
	for _, how := range []string{"kill", "exit", "remotekill", "nodedown"} {
		for _, link := range []bool{true, false} {
			runNotifyDeath(how, link)
		}
	}
	for _, how := range []string{"kill", "exit", "panic", "node"} {
		for _, early := range []bool{false, true} {
			runIntruder(how, early)
		}
	}
	runDual()
	// sequential model-based histories
	ns := hk.Pick(80, 1500)
	for k := 0; k < ns; k++ {
		runSeq(k)
	}
	// concurrent churn
	nc := hk.Pick(120, 3000)
	for k := 0; k < nc; k++ {
		runConc(k)
	}
	// hammer
	nh := hk.Pick(16, 200)
	for k := 0; k < nh; k++ {
		runHammer(k)
	}

	hk.Stat("buffer1_returned_empty_during_eviction", emptyDuringEviction.Load())
	h, d := hk.PointStats()
	hk.Note("hook_hits", h)
	hk.Note("hook_delays", d)
	if l := panicsA.since(0); len(l) > 0 {
		hk.Stat("framework_panic_log_lines_nodeA", int64(len(l)))
		if len(l) > 6 {
			l = l[:6]
		}
		hk.Note("framework_panic_log_lines_nodeA_first", l)
	}
	os.Stdout.Sync()
	os.Exit(0)
}

// ---------------------------------------------------------------------------
// park: subscriber parked between relation insert and buffer snapshot while the producer publishes

func runPark(n, k int, link, remote bool) {
	id := fmt.Sprintf("park/sub.added/buf=%d/k=%d/link=%v/remote=%v", n, k, link, remote)
	if !hk.Want(id) {
		return
	}
	res := &result{}
	pm := markPanics()
	panicsWithBuffer.Store(n > 0)
	if remote && !ensureConn() {
		res.inconclusive("no connection between the nodes")
		finish(id, "park", id, false, 0, res, nil)
		return
	}
	owner, err := spawnActor(nodeA, false, id+"/owner")
	if err != nil {
		res.inconclusive("spawn: " + err.Error())
		finish(id, "park", id, false, 0, res, nil)
		return
	}
	sn := nodeA
	if remote {
		sn = nodeB
	}
	sub, err := spawnActor(sn, remote, id+"/sub")
	if err != nil {
		res.inconclusive("spawn: " + err.Error())
		finish(id, "park", id, false, 0, res, nil)
		return
	}
	// witness: subscribed on the same node as the parked subscriber before anything is published;
	// a concurrent subscribe must not disturb the fan-out to it
	wit, err := spawnActor(sn, remote, id+"/witness")
	if err != nil {
		res.inconclusive("spawn: " + err.Error())
		finish(id, "park", id, false, 0, res, nil)
		return
	}
	defer killAll(owner, sub, wit)
	name := freshEvent("park")
	ev := gen.Event{Name: name, Node: nodeA.Name()}
	tok, err := owner.register(name, gen.EventOptions{Buffer: n, Notify: true})
	if err != nil {
		res.inconclusive("register: " + err.Error())
		finish(id, "park", id, false, 0, res, nil)
		return
	}
	c := &evCtx{ev: ev, n: n, notify: true, log: &pubLog{}, nPubs: 1}
	if err := setupFence(owner, []*actor{sub, wit}); err != nil {
		res.inconclusive(err.Error())
		finish(id, "park", id, false, 0, res, nil)
		return
	}
	wr, wok := wit.subscribe(ev, !link)
	if !wok || wr.Err != nil {
		res.inconclusive("witness subscribe failed: " + errStr(wr.Err))
		finish(id, "park", id, false, 0, res, nil)
		return
	}
	pre := n + 1
	owner.publish(cPub{Name: name, Token: tok, From: 1, N: pre, Log: c.log})

	g := hk.Park("event.sub.added", hk.Eq(ev), false)
	r := &subRec{Ev: ev, Link: link}
	done := make(chan struct{})
	sub.tell(cSub{Rec: r, Done: done})
	fired := g.WaitArrived(5 * time.Second)
	if !fired {
		res.inconclusive("gate: event.sub.added never reached")
	} else if k > 0 {
		if !owner.publish(cPub{Name: name, Token: tok, From: pre + 1, N: k, Log: c.log}) {
			res.inconclusive("watchdog: publish while parked did not complete")
		}
	}
	g.Release()
	if g.TimedOut() {
		res.inconclusive("gate: released by deadline")
	}
	ok, dead := sub.waitChOrDead(done, 8*time.Second)
	if !ok && !dead {
		res.inconclusive("watchdog: subscribe did not return")
	}
	// two more publications after the call returned, then fence
	f := Fence{Pub: 0, ID: 1}
	owner.publish(cPub{Name: name, Token: tok, From: pre + k + 1, N: 2, Log: c.log, Fence: remote, FID: 1})
	if !waitFences([]*actor{sub, wit}, []Fence{f}, 8*time.Second) {
		res.inconclusive("watchdog: fence not received")
	}
	if !waitIdle(8*time.Second, owner, sub, wit) {
		res.inconclusive("watchdog: no quiescence")
	}
	checkTermInSub(res, sub, newPanics(pm))
	checkPanics(res, pm)
	var events int64
	if ok {
		if r.Err != nil {
			res.inconclusive("subscribe returned " + r.Err.Error())
		} else {
			ix := indexPubs(c.log.snapshot())
			who := sub.label
			lastIn := checkBuffer(res, who, *r, c, ix)
			l := sub.received(ev)
			events = int64(len(l) + len(r.B) + 1)
			checkLive(res, who, remote, *r, l, c, ix, lastIn, inf, func(int) bool { return true })
			// Start notification: this is the first subscriber
			if !waitIdle(5*time.Second, owner) {
				res.inconclusive("watchdog: owner not idle")
			}
			st := owner.notesFor(name)
			if len(st) != 1 || !st[0].Start {
				res.violate("missing-event-start", "first subscriber subscribed (Notify=true), producer's notifications: %v", st)
			}
			events += int64(len(st))
		}
	}
	if res.incon == "" {
		ix := indexPubs(c.log.snapshot())
		wl := wit.received(ev)
		events += int64(len(wl))
		n0 := len(res.viol)
		checkLive(res, wit.label, remote, *wr, wl, c, ix, map[int]int{}, inf, func(int) bool { return true })
		if len(res.viol) > n0 && (res.sig == "lost-publication-remote" || res.sig == "live-gap-remote" || res.sig == "lost-publication" || res.sig == "live-gap") {
			res.sig = "fanout-disturbed-by-concurrent-subscribe"
			if remote {
				res.sig += "-remote"
			}
		}
	}
	key := fmt.Sprintf("park/buf=%d/k=%s/link=%v/remote=%v", n, kClass(n, k), link, remote)
	var bs string
	if ok {
		bs = seqsOf(r.B)
	}
	finish(id, "park", key, fired && k > 0, events, res, map[string]any{"buffer": n, "published_before": pre, "published_while_parked": k, "returned": bs, "live": rcvSeqs(sub.received(ev), 20)})
}

// ---------------------------------------------------------------------------
// remote subscribe: the owner node's reply (relation inserted and buffer snapshot taken there) is
// parked on its way out (send.pick of the owner's side of the connection) while the producer
// publishes k messages; the subscriber's node inserts its relation only after the reply arrived.

func runRemoteWindow(n, k int, link bool) {
	id := fmt.Sprintf("park/remote-reply/buf=%d/k=%d/link=%v", n, k, link)
	if !hk.Want(id) {
		return
	}
	res := &result{}
	pm := markPanics()
	panicsWithBuffer.Store(n > 0)
	if !ensureConn() {
		res.inconclusive("no connection between the nodes")
		finish(id, "park-remote", id, false, 0, res, nil)
		return
	}
	owner, _ := spawnActor(nodeA, false, id+"/owner")
	sub, _ := spawnActor(nodeB, true, id+"/sub")
	if owner == nil || sub == nil {
		return
	}
	defer killAll(owner, sub)
	name := freshEvent("rw")
	ev := gen.Event{Name: name, Node: nodeA.Name()}
	tok, err := owner.register(name, gen.EventOptions{Buffer: n})
	if err == nil {
		err = setupFence(owner, []*actor{sub})
	}
	if err != nil {
		res.inconclusive("setup: " + err.Error())
		finish(id, "park-remote", id, false, 0, res, nil)
		return
	}
	c := &evCtx{ev: ev, n: n, log: &pubLog{}, nPubs: 1}
	pre := n + 1
	owner.publish(cPub{Name: name, Token: tok, From: 1, N: pre, Log: c.log, Fence: true, FID: 1})
	if !waitFences([]*actor{sub}, []Fence{{ID: 1}}, 8*time.Second) || !waitIdle(10*time.Second, owner, sub) {
		res.inconclusive("watchdog: setup not quiescent")
		finish(id, "park-remote", id, false, 0, res, nil)
		return
	}
	// first send.pick after this point: the request leaving the subscriber's node; the first one
	// with another connection object: the owner node's reply
	var first any
	var mu sync.Mutex
	g := hk.Park("send.pick", func(subject any) bool {
		mu.Lock()
		defer mu.Unlock()
		if first == nil {
			first = subject
			return false
		}
		return subject != first
	}, false)
	r := &subRec{Ev: ev, Link: link}
	done := make(chan struct{})
	sub.tell(cSub{Rec: r, Done: done})
	fired := g.WaitArrived(5 * time.Second)
	if !fired {
		res.inconclusive("gate: reply never reached send.pick")
	} else if !owner.publish(cPub{Name: name, Token: tok, From: pre + 1, N: k, Log: c.log}) {
		res.inconclusive("watchdog: publish while parked did not complete")
	}
	g.Release()
	if g.TimedOut() {
		res.inconclusive("gate: released by deadline")
	}
	ok, dead := sub.waitChOrDead(done, 8*time.Second)
	if !ok && !dead {
		res.inconclusive("watchdog: subscribe did not return")
	}
	owner.publish(cPub{Name: name, Token: tok, From: pre + k + 1, N: 2, Log: c.log, Fence: true, FID: 2})
	if !waitFences([]*actor{sub}, []Fence{{ID: 2}}, 8*time.Second) {
		res.inconclusive("watchdog: fence not received")
	}
	if !waitIdle(8*time.Second, owner, sub) {
		res.inconclusive("watchdog: no quiescence")
	}
	checkTermInSub(res, sub, newPanics(pm))
	checkPanics(res, pm)
	var events int64
	if ok && r.Err != nil {
		res.inconclusive("subscribe returned " + r.Err.Error())
		connSuspect.Store(true)
	} else if ok {
		ix := indexPubs(c.log.snapshot())
		lastIn := checkBuffer(res, sub.label, *r, c, ix)
		l := sub.received(ev)
		events = int64(len(l) + len(r.B) + 1)
		checkLive(res, sub.label, true, *r, l, c, ix, lastIn, inf, func(int) bool { return true })
	}
	bs := ""
	if ok {
		bs = seqsOf(r.B)
	}
	key := fmt.Sprintf("park/remote-reply/buf=%d/k=%s/link=%v", n, kClass(n, k), link)
	finish(id, "park-remote", key, fired && k > 0, events, res, map[string]any{"buffer": n, "published_before": pre, "published_while_reply_parked": k, "returned": bs, "live": rcvSeqs(sub.received(ev), 20)})
}

func kClass(n, k int) string {
	switch {
	case k == 0:
		return "none"
	case k <= 1:
		return "one"
	default:
		return "evicting"
	}
}

// ---------------------------------------------------------------------------
// subscribe racing the end of the event: subscriber parked at link.checked (after the
// existence check, before the relation insert) while the owner unregisters / is killed.
// Linearizable outcomes: the call fails, or it succeeds and exactly one exit/down arrives.

func runSubVsEnd(link, remote bool, how string) {
	id := fmt.Sprintf("park/link.checked/%s/link=%v/remote=%v", how, link, remote)
	if !hk.Want(id) {
		return
	}
	res := &result{}
	pm := markPanics()
	panicsWithBuffer.Store(true)
	if remote && !ensureConn() {
		res.inconclusive("no connection between the nodes")
		finish(id, "park-end", id, false, 0, res, nil)
		return
	}
	owner, err := spawnActor(nodeA, false, id+"/owner")
	if err != nil {
		return
	}
	sn := nodeA
	if remote {
		sn = nodeB
	}
	sub, err := spawnActor(sn, remote, id+"/sub")
	if err != nil {
		return
	}
	defer killAll(owner, sub)
	name := freshEvent("end")
	ev := gen.Event{Name: name, Node: nodeA.Name()}
	tok, err := owner.register(name, gen.EventOptions{Buffer: 2})
	if err != nil {
		res.inconclusive("register: " + err.Error())
		finish(id, "park-end", id, false, 0, res, nil)
		return
	}
	c := &evCtx{ev: ev, n: 2, log: &pubLog{}, nPubs: 1}
	owner.publish(cPub{Name: name, Token: tok, From: 1, N: 2, Log: c.log})
	g := hk.Park("link.checked", hk.Eq(ev), false)
	r := &subRec{Ev: ev, Link: link}
	done := make(chan struct{})
	sub.tell(cSub{Rec: r, Done: done})
	fired := g.WaitArrived(5 * time.Second)
	if !fired {
		res.inconclusive("gate: link.checked never reached")
	} else {
		c.endT0 = hk.Tick()
		if how == "unregister" {
			if e := owner.unregister(name); e != nil {
				res.inconclusive("unregister: " + e.Error())
			}
		} else {
			owner.kill()
			if !hk.WaitUntil(10*time.Second, func() bool { return owner.termed.Load() && owner.inst.Quiet() }) {
				res.inconclusive("watchdog: owner did not terminate")
			}
		}
		c.endT1 = hk.Tick()
	}
	g.Release()
	if g.TimedOut() {
		res.inconclusive("gate: released by deadline")
	}
	ok, dead := sub.waitChOrDead(done, 8*time.Second)
	if !ok && !dead {
		res.inconclusive("watchdog: subscribe did not return")
	}
	waitIdle(8*time.Second, sub)
	checkTermInSub(res, sub, newPanics(pm))
	checkPanics(res, pm)
	var events int64 = 1
	outcome := "n/a"
	if ok && fired && res.incon == "" {
		if r.Err != nil {
			outcome = "subscribe failed: " + r.Err.Error()
		} else {
			outcome = "subscribe succeeded"
			save := res.sig
			n0 := len(res.viol)
			events += checkSignals(res, c, []liveSub{{a: sub, r: *r, certain: true, expect: true, ordered: true}})
			if len(res.viol) > n0 && save == "" && strings.HasPrefix(res.sig, "missing-") {
				res.sig = "subscribe-vs-event-end-no-notification"
				res.viol = append(res.viol, fmt.Sprintf("[%s] the subscribe call passed the existence check, the event ended (%s) before the relation was inserted, the call still returned nil with buffer %s and the subscriber is never told", res.sig, how, seqsOf(r.B)))
			}
		}
	}
	finish(id, "park-end", id, fired, events, res, map[string]any{"outcome": outcome, "signals": fmt.Sprint(sub.signals(ev))})
}

// ---------------------------------------------------------------------------
// notifications after the loss of a subscriber (death, node down): the next explicit
// last-unsubscribe must still produce MessageEventStop

func runNotifyDeath(how string, link bool) {
	id := fmt.Sprintf("notify/loss=%s/link=%v", how, link)
	if !hk.Want(id) {
		return
	}
	res := &result{}
	pm := markPanics()
	remote := how == "nodedown" || how == "remotekill"
	panicsWithBuffer.Store(false)
	if remote && !ensureConn() {
		res.inconclusive("no connection between the nodes")
		finish(id, "notify", id, false, 0, res, nil)
		return
	}
	owner, _ := spawnActor(nodeA, false, id+"/owner")
	sn := nodeA
	if remote {
		sn = nodeB
	}
	s1, _ := spawnActor(sn, remote, id+"/s1")
	s2, _ := spawnActor(nodeA, false, id+"/s2")
	if owner == nil || s1 == nil || s2 == nil {
		return
	}
	defer killAll(owner, s1, s2)
	name := freshEvent("ntf")
	ev := gen.Event{Name: name, Node: nodeA.Name()}
	if _, err := owner.register(name, gen.EventOptions{Notify: true}); err != nil {
		res.inconclusive("register: " + err.Error())
		finish(id, "notify", id, false, 0, res, nil)
		return
	}
	net := func() (int, int) {
		waitIdle(10*time.Second, owner)
		st, sp := 0, 0
		for _, x := range owner.notesFor(name) {
			if x.Start {
				st++
			} else {
				sp++
			}
		}
		return st, sp
	}
	r1, ok := s1.subscribe(ev, link)
	if !ok || r1.Err != nil {
		res.inconclusive("first subscribe failed: " + errStr(r1.Err))
		finish(id, "notify", id, false, 0, res, nil)
		return
	}
	if st, sp := net(); st != 1 || sp != 0 {
		res.violate("missing-event-start", "first subscriber arrived: Start=%d Stop=%d", st, sp)
	}
	// lose the subscriber without an unsubscribe call
	switch how {
	case "kill", "remotekill":
		s1.kill()
	case "exit":
		s1.tell(cDie{Reason: gen.TerminateReasonNormal})
	case "nodedown":
		if rn, err := nodeB.Network().Node(nodeA.Name()); err == nil {
			rn.Disconnect()
		}
		hk.WaitUntil(10*time.Second, func() bool {
			_, e1 := nodeA.Network().Node(nodeB.Name())
			_, e2 := nodeB.Network().Node(nodeA.Name())
			return e1 != nil && e2 != nil
		})
	}
	if how != "nodedown" {
		if !hk.WaitUntil(10*time.Second, func() bool { return s1.termed.Load() && s1.inst.Quiet() }) {
			res.inconclusive("watchdog: subscriber did not terminate")
		}
	}
	stA, spA := net()
	// a second subscriber arrives and leaves: it is the last one
	r2, ok := s2.subscribe(ev, link)
	if !ok || r2.Err != nil {
		res.inconclusive("second subscribe failed: " + errStr(r2.Err))
	}
	stB, spB := net()
	if ok && r2.Err == nil {
		if !s2.unsubscribe(r2) || r2.UErr != nil {
			res.inconclusive("unsubscribe failed: " + errStr(r2.UErr))
		}
	}
	stC, spC := net()
	if remote && stC-spC != 0 {
		// a repaired framework may tell the owner node asynchronously: wait for the Stop, or for the
		// structural witness that nothing is in flight and no framework goroutine can still act
		if !hk.WaitUntil(5*time.Second, func() bool {
			stC, spC = net()
			return stC-spC == 0 || (netQuiescent() && owner.idle())
		}) {
			res.inconclusive("watchdog: neither MessageEventStop nor network quiescence")
		}
		stC, spC = net()
	}
	if res.incon == "" {
		if stB-spB != 1 {
			res.violate("missing-event-start", "a subscriber is present but producer's Start-Stop = %d", stB-spB)
		}
		if stC-spC != 0 {
			res.violate("eventstop-missing-after-subscriber-loss", "first subscriber was lost (%s) without unsubscribing, the second subscriber subscribed and unsubscribed: no subscribers are left but the producer got Start=%d Stop=%d (after loss %d/%d, after second subscribe %d/%d)", how, stC, spC, stA, spA, stB, spB)
		}
	}
	checkPanics(res, pm)
	if how == "nodedown" {
		ensureConn()
	}
	finish(id, "notify", id, false, int64(stC+spC+2), res, map[string]any{"after_loss": []int{stA, spA}, "after_second_subscribe": []int{stB, spB}, "after_last_unsubscribe": []int{stC, spC}})
}

// ---------------------------------------------------------------------------
// a failed registration must not give the failing process any hold on the event: P1 registers E, P2
// (or the node itself: how=node) tries to register E and fails, consumers subscribe (before or after the
// failed attempt), P2 terminates, P1 publishes. Nobody may be told that E ended, the publications with
// the valid token must succeed and be delivered exactly once.

func runIntruder(how string, early bool) {
	id := fmt.Sprintf("intruder/%s/subscribed-before-attempt=%v", how, early)
	if !hk.Want(id) {
		return
	}
	res := &result{}
	pm := markPanics()
	panicsWithBuffer.Store(false)
	hasRemote := ensureConn()
	owner, _ := spawnActor(nodeA, false, id+"/owner")
	intr, _ := spawnActor(nodeA, false, id+"/intruder")
	if owner == nil || intr == nil {
		return
	}
	var subs []*actor
	for i := 0; i < 4; i++ {
		remote := i >= 2
		if remote && !hasRemote {
			continue
		}
		n := nodeA
		if remote {
			n = nodeB
		}
		if a, err := spawnActor(n, remote, fmt.Sprintf("%s/sub%d", id, i)); err == nil {
			subs = append(subs, a)
		}
	}
	all := append([]*actor{owner, intr}, subs...)
	defer func() { killAll(all...) }()
	name := freshEvent("in")
	ev := gen.Event{Name: name, Node: nodeA.Name()}
	tok, err := owner.register(name, gen.EventOptions{Buffer: 2, Notify: true})
	if err == nil {
		err = setupFence(owner, subs)
	}
	if err != nil {
		res.inconclusive("setup: " + err.Error())
		finish(id, "intruder", id, false, 0, res, nil)
		return
	}
	c := &evCtx{ev: ev, n: 2, notify: true, log: &pubLog{}, nPubs: 1}
	recs := make([]*subRec, len(subs))
	subscribeAll := func() {
		for i, s := range subs {
			r, ok := s.subscribe(ev, i%2 == 0)
			if !ok || r.Err != nil {
				res.inconclusive(fmt.Sprintf("%s: subscribe failed: %v", s.label, r.Err))
				if s.remote {
					connSuspect.Store(true)
				}
				continue
			}
			recs[i] = r
		}
	}
	if early {
		subscribeAll()
	}
	// the failed attempt
	var aerr error
	if how == "node" {
		_, aerr = nodeA.RegisterEvent(name, gen.EventOptions{Buffer: 1})
	} else {
		_, aerr = intr.register(name, gen.EventOptions{Buffer: 1})
	}
	if aerr == nil {
		res.violate("register-taken-name-accepted", "RegisterEvent of %s, registered by %s, returned nil for %s", name, owner.pid, how)
	}
	if !early {
		subscribeAll()
	}
	owner.publish(cPub{Name: name, Token: tok, From: 1, N: 2, Log: c.log, Fence: true, FID: 1})
	// the process whose registration failed goes away
	switch how {
	case "kill":
		intr.kill()
	case "exit":
		intr.tell(cDie{Reason: gen.TerminateReasonNormal})
	case "panic":
		intr.tell(cPanic{})
	}
	if how != "node" {
		if !hk.WaitUntil(10*time.Second, func() bool { return intr.termed.Load() && intr.inst.Quiet() }) {
			res.inconclusive("watchdog: intruder did not terminate")
		}
	}
	var errs []error
	owner.publish(cPub{Name: name, Token: tok, From: 3, N: 3, Log: c.log, Errs: &errs, Fence: true, FID: 2})
	if !waitFences(subs, []Fence{{ID: 1}}, 8*time.Second) {
		res.inconclusive("watchdog: first fence not received")
	}
	// the second fence cannot arrive if the event mechanism was torn down; network quiescence decides then
	hk.WaitUntil(8*time.Second, func() bool {
		ok := true
		for _, s := range subs {
			if s.remote && !s.hasFence(Fence{ID: 2}) {
				ok = false
			}
		}
		return ok || netQuiescent()
	})
	if !waitIdle(8*time.Second, all...) {
		res.inconclusive("watchdog: no quiescence")
	}
	checkPanics(res, pm)
	var events int64
	ix := indexPubs(c.log.snapshot())
	for i, s := range subs {
		if recs[i] == nil {
			continue
		}
		for _, g := range s.signals(ev) {
			events++
			kind := "exit"
			if g.Down {
				kind = "down"
			}
			sfx := ""
			if s.remote {
				sfx = "-remote"
			}
			res.violate("spurious-"+kind+"-while-event-registered"+sfx, "%s: received %v although the event is registered and its owner alive; only a process whose registration of the same name had failed terminated (%s)", s.label, g, how)
		}
		l := s.received(ev)
		events += int64(len(l))
		lastIn := checkBuffer(res, s.label, *recs[i], c, ix)
		checkLive(res, s.label, s.remote, *recs[i], l, c, ix, lastIn, inf, func(int) bool { return !s.remote || s.hasFence(Fence{ID: 2}) || netQuiescent() })
	}
	for i, e := range errs {
		events++
		if e != nil {
			res.violate("publish-error-with-valid-token", "owner alive, event never unregistered, a process whose RegisterEvent of the same name had FAILED terminated (%s): SendEvent #%d with the registration token returned %v", how, 3+i, e)
			break
		}
	}
	st := owner.notesFor(name)
	if res.incon == "" && len(subs) > 0 && (len(st) != 1 || !st[0].Start) {
		res.violate("notification-mismatch", "one 0->1 transition happened, producer's notifications: %v", st)
	}
	finish(id, "intruder", id, false, events+int64(len(st)), res, map[string]any{"attempt_error": errStr(aerr), "publish_errors": fmt.Sprint(errs)})
}

// ---------------------------------------------------------------------------
// observation only: a process that links AND monitors the same event holds two subscriptions

func runDual() {
	id := "info/link+monitor"
	if !hk.Want(id) {
		return
	}
	res := &result{}
	owner, _ := spawnActor(nodeA, false, id+"/owner")
	s, _ := spawnActor(nodeA, false, id+"/s")
	if owner == nil || s == nil {
		return
	}
	defer killAll(owner, s)
	name := freshEvent("dual")
	ev := gen.Event{Name: name, Node: nodeA.Name()}
	tok, err := owner.register(name, gen.EventOptions{})
	if err != nil {
		return
	}
	r1, _ := s.subscribe(ev, true)
	r2, _ := s.subscribe(ev, false)
	lg := &pubLog{}
	owner.publish(cPub{Name: name, Token: tok, From: 1, N: 3, Log: lg})
	waitIdle(10*time.Second, owner, s)
	l := s.received(ev)
	hk.Note("link_plus_monitor_same_event", fmt.Sprintf("link err=%v monitor err=%v; 3 publications -> %d deliveries %s (two subscriptions of one process; not judged)", r1.Err, r2.Err, len(l), rcvSeqs(l, 10)))
	finish(id, "info", id, false, int64(len(l)), res, nil)
}

// ---------------------------------------------------------------------------
// hammer: subscribe+unsubscribe loops against a publishing producer

func runHammer(k int) {
	id := fmt.Sprintf("hammer/%d", k)
	if !hk.Want(id) {
		return
	}
	rng := hk.Rng("c18", id)
	res := &result{}
	pm := markPanics()
	n := 1 + rng.Intn(4)
	panicsWithBuffer.Store(true)
	nsub := 2 + rng.Intn(5)
	iters := 300 + rng.Intn(700)
	owner, err := spawnActor(nodeA, false, id+"/owner")
	if err != nil {
		return
	}
	name := freshEvent("hm")
	ev := gen.Event{Name: name, Node: nodeA.Name()}
	tok, err := owner.register(name, gen.EventOptions{Buffer: n})
	if err != nil {
		owner.kill()
		return
	}
	c := &evCtx{ev: ev, n: n, log: &pubLog{}, nPubs: 1}
	var subs []*actor
	outs := make([][]*subRec, nsub)
	dones := make([]chan struct{}, nsub)
	var stop atomic.Bool
	for i := 0; i < nsub; i++ {
		s, err := spawnActor(nodeA, false, fmt.Sprintf("%s/s%d", id, i))
		if err != nil {
			continue
		}
		subs = append(subs, s)
	}
	defer func() { killAll(owner); killAll(subs...) }()
	owner.publish(cPub{Name: name, Token: tok, From: 1, N: n + 1, Log: c.log})
	for i, s := range subs {
		dones[i] = make(chan struct{})
		s.tell(cHammer{Ev: ev, Link: rng.Intn(2) == 0, N: iters, Out: &outs[i], Stop: &stop, Done: dones[i]})
	}
	// publish until every hammer loop is over (bounded)
	next := n + 2
	allDone := func() bool {
		for i, s := range subs {
			select {
			case <-dones[i]:
			default:
				if !s.termed.Load() {
					return false
				}
			}
		}
		return true
	}
	deadline := time.Now().Add(20 * time.Second)
	for !allDone() {
		if time.Now().After(deadline) {
			res.inconclusive("watchdog: hammer loops did not finish")
			stop.Store(true)
			break
		}
		if !owner.publish(cPub{Name: name, Token: tok, From: next, N: 200, Log: c.log}) {
			res.inconclusive("watchdog: publish batch did not complete")
			stop.Store(true)
			break
		}
		next += 200
	}
	stop.Store(true)
	hk.WaitUntil(10*time.Second, allDone)
	waitIdle(8*time.Second, append([]*actor{owner}, subs...)...)
	lines := newPanics(pm)
	for _, s := range subs {
		checkTermInSub(res, s, lines)
	}
	checkPanics(res, pm)
	ix := indexPubs(c.log.snapshot())
	var events int64
	over := 0
	longer := 0
	for i, s := range subs {
		recs := outs[i]
		if s.termed.Load() {
			// the slice was appended by the dead process; termed.Store orders the reads
			recs = outs[i]
		}
		for _, r := range recs {
			rc := *r
			if !rc.Done {
				continue
			}
			events++
			if rc.Err != nil {
				res.violate("subscribe-failed", "%s: subscribe #%d to a registered event returned %v", s.label, events, rc.Err)
				continue
			}
			checkBuffer(res, s.label, rc, c, ix)
			if overlapped(rc, ix) {
				over++
			}
			if len(rc.B) > n {
				longer++
			}
		}
		// live: duplicates / reordering over the process lifetime (several subscriptions: gaps are legitimate)
		last := 0
		for _, m := range s.received(ev) {
			events++
			if m.P.Bad || m.P.Seq < 0 {
				res.violate("live-bad-payload", "%s: bad live payload %v", s.label, m)
			}
			if m.P.Seq == last {
				res.violate("duplicate-delivery", "%s: publication %d delivered twice", s.label, m.P.Seq)
			} else if m.P.Seq < last {
				res.violate("out-of-order-delivery", "%s: publication %d delivered after %d", s.label, m.P.Seq, last)
			}
			last = m.P.Seq
		}
	}
	if res.incon == "" && len(lines) == 0 {
		events += probeBuffer(res, id, c, ix, next-1)
	}
	hk.Stat("hammer_subscribe_calls_overlapping_a_publication", int64(over))
	hk.Stat("returned_buffer_longer_than_limit", int64(longer))
	key := fmt.Sprintf("hammer/buf=%d/subs=%d/overlap=%v", n, len(subs), over > 0)
	finish(id, "hammer", key, over > 0, events, res, map[string]any{"buffer": n, "subscribers": len(subs), "iterations": iters, "publications": next - 1, "overlapping_subscribes": over, "panic_lines": lines})
}

// probeBuffer subscribes a fresh local process while nothing is being published and
// compares the returned slice with the last N publications of the client-side history
func probeBuffer(res *result, id string, c *evCtx, ix *pubIndex, total int) int64 {
	pr, err := spawnActor(nodeA, false, id+"/probe")
	if err != nil {
		return 0
	}
	defer pr.kill()
	r, ok := pr.subscribe(c.ev, false)
	if !ok || r.Err != nil {
		res.inconclusive("probe subscribe failed: " + errStr(r.Err))
		return 0
	}
	want := c.n
	if total < want {
		want = total
	}
	checkBuffer(res, pr.label, *r, c, ix)
	if len(r.B) != want {
		res.violate("buffer-not-last-n", "%s: nothing is being published, Buffer=%d, %d publications were made, a fresh subscriber was handed %d messages: %s", pr.label, c.n, total, len(r.B), trim(seqsOf(r.B), 400))
	} else if c.nPubs == 1 && want > 0 {
		last := r.B[len(r.B)-1].Message.(EvP).Seq
		if last != total {
			res.violate("buffer-not-last-n", "%s: nothing is being published, %d publications were made, a fresh subscriber was handed %s", pr.label, total, seqsOf(r.B))
		}
	}
	pr.unsubscribe(r)
	waitIdle(5*time.Second, pr)
	return int64(len(r.B) + 1)
}

// ---------------------------------------------------------------------------
// concurrent churn

type subPlan struct {
	remote bool
	link   bool
	thrSub int
	action int // 0 stay, 1 unsubscribe, 2 kill, 3 exit
	thrAct int
}

func runConc(k int) {
	id := fmt.Sprintf("conc/%d", k)
	if !hk.Want(id) {
		return
	}
	rng := hk.Rng("c18", id)
	res := &result{}
	pm := markPanics()
	n := rng.Intn(5)
	panicsWithBuffer.Store(n > 0)
	notify := rng.Intn(2) == 0
	nPub := 1
	if rng.Intn(10) < 3 {
		nPub = 2 + rng.Intn(2)
	}
	per := 120 + rng.Intn(300)
	total := per * nPub
	endMode := rng.Intn(4) // 0 none 1 unregister 2 kill 3 exit
	nLocal := 2 + rng.Intn(5)
	nRemote := []int{0, 0, 1, 2, 3}[rng.Intn(5)]
	if nRemote > 0 && !ensureConn() {
		nRemote = 0
	}
	deaths := rng.Intn(3) == 0
	var plans []subPlan
	for i := 0; i < nLocal+nRemote; i++ {
		p := subPlan{remote: i >= nLocal, link: rng.Intn(2) == 0, thrSub: rng.Intn(total * 3 / 4)}
		switch x := rng.Intn(10); {
		case x < 4:
			p.action = 0
		case x < 8 || !deaths:
			p.action = 1
		case x == 8:
			p.action = 2
		default:
			p.action = 3
		}
		p.thrAct = p.thrSub + 1 + rng.Intn(total-p.thrSub)
		plans = append(plans, p)
	}
	maxSleep := time.Duration(20+rng.Intn(200)) * time.Microsecond
	defer hk.StressOff()

	owner, err := spawnActor(nodeA, false, id+"/owner")
	if err != nil {
		return
	}
	pubs := []*actor{owner}
	for i := 1; i < nPub; i++ {
		d, err := spawnActor(nodeA, false, fmt.Sprintf("%s/delegate%d", id, i))
		if err == nil {
			pubs = append(pubs, d)
		}
	}
	nPub = len(pubs)
	var subs []*actor
	for i, p := range plans {
		sn := nodeA
		if p.remote {
			sn = nodeB
		}
		s, err := spawnActor(sn, p.remote, fmt.Sprintf("%s/sub%d", id, i))
		if err != nil {
			res.inconclusive("spawn: " + err.Error())
			continue
		}
		subs = append(subs, s)
	}
	all := append(append([]*actor{}, pubs...), subs...)
	defer func() { killAll(all...) }()
	if len(subs) != len(plans) {
		finish(id, "conc", id, false, 0, res, nil)
		return
	}
	name := freshEvent("cc")
	ev := gen.Event{Name: name, Node: nodeA.Name()}
	tok, err := owner.register(name, gen.EventOptions{Buffer: n, Notify: notify})
	if err != nil {
		res.inconclusive("register: " + err.Error())
		finish(id, "conc", id, false, 0, res, nil)
		return
	}
	c := &evCtx{ev: ev, n: n, notify: notify, log: &pubLog{}, nPubs: nPub}
	for _, p := range pubs {
		if err := setupFence(p, subs); err != nil {
			res.inconclusive(err.Error())
			finish(id, "conc", id, false, 0, res, nil)
			return
		}
	}
	hk.Stress(id, map[string]float64{
		"event.sub.added": 0.5, "link.checked": 0.3, "mpsc.push.swap": 0.01, "mpsc.push.swapped": 0.02,
		"proc.unreg.event": 0.5, "proc.run.tosleep": 0.02, "recv.pushed": 0.05, "send.pick": 0.02,
	}, maxSleep)

	var wg sync.WaitGroup
	var pubFail atomic.Bool
	for pi, p := range pubs {
		wg.Add(1)
		prng := hk.Rng("c18", id, "pub", fmt.Sprint(pi))
		go func(pi int, p *actor) {
			defer wg.Done()
			next := 1
			for next <= per {
				b := 1 + prng.Intn(25)
				if next+b-1 > per {
					b = per - next + 1
				}
				if !p.publish(cPub{Name: name, Token: tok, Pub: pi, From: next, N: b, Log: c.log}) {
					pubFail.Store(true)
					return
				}
				next += b
			}
		}(pi, p)
	}
	// a process without the token publishes concurrently: every call must fail with ErrEventOwner, nothing may be delivered
	var badErrs []error
	var stranger *actor
	if rng.Intn(2) == 0 {
		stranger, _ = spawnActor(nodeA, false, id+"/stranger")
	}
	if stranger != nil {
		all = append(all, stranger)
		wg.Add(1)
		badTok := nodeA.MakeRef()
		go func() {
			defer wg.Done()
			for i := 0; i < 8 && !pubFail.Load(); i++ {
				if !stranger.publish(cPub{Name: name, Token: badTok, Pub: 9, From: 900000 + i*10, N: 10, Bad: true, Errs: &badErrs}) {
					return
				}
			}
		}()
	}
	recs := make([]*subRec, len(subs))
	subOK := make([]bool, len(subs))
	dieT0 := make([]int64, len(subs))
	var watchdog atomic.Bool
	for si, s := range subs {
		wg.Add(1)
		go func(si int, s *actor, p subPlan) {
			defer wg.Done()
			if !hk.WaitUntil(15*time.Second, func() bool { return c.log.count.Load() >= int64(p.thrSub) || pubFail.Load() }) {
				watchdog.Store(true)
				return
			}
			recs[si], subOK[si] = s.subscribe(ev, p.link)
			if !subOK[si] || p.action == 0 {
				return
			}
			if !hk.WaitUntil(15*time.Second, func() bool { return c.log.count.Load() >= int64(p.thrAct) || pubFail.Load() }) {
				watchdog.Store(true)
				return
			}
			switch p.action {
			case 1:
				s.unsubscribe(recs[si])
			case 2:
				dieT0[si] = hk.Tick()
				s.kill()
			case 3:
				dieT0[si] = hk.Tick()
				s.tell(cDie{Reason: gen.TerminateReasonNormal})
			}
		}(si, s, plans[si])
	}
	dbg("%s: spawned, running", id)
	wg.Wait()
	dbg("%s: drivers done", id)
	if pubFail.Load() {
		res.inconclusive("watchdog: a publish batch did not complete")
	}
	if watchdog.Load() {
		res.inconclusive("watchdog: publication count threshold not reached")
	}
	// dying subscribers: wait for their termination
	for si, s := range subs {
		if dieT0[si] != 0 {
			if !hk.WaitUntil(10*time.Second, func() bool { return s.termed.Load() && s.inst.Quiet() }) {
				res.inconclusive("watchdog: subscriber did not terminate")
			}
		}
	}
	// fences, quiescence
	var fs []Fence
	for pi, p := range pubs {
		f := Fence{Pub: pi, ID: 1}
		fs = append(fs, f)
		if nRemote > 0 {
			p.publish(cPub{Name: name, Token: tok, Pub: pi, N: 0, Fence: true, FID: 1})
		}
	}
	dbg("%s: fences sent", id)
	fencesOK := waitFences(subs, fs, 8*time.Second)
	dbg("%s: fences received %v", id, fencesOK)
	hk.StressOff()
	if !waitIdle(8*time.Second, all...) {
		res.inconclusive("watchdog: no quiescence")
	}
	phase1End := hk.Tick()
	dbg("%s: idle", id)
	lines := newPanics(pm)
	for _, s := range subs {
		checkTermInSub(res, s, lines)
	}
	checkPanics(res, pm)

	ix := indexPubs(c.log.snapshot())
	for _, es := range ix.good {
		for _, e := range es {
			if e.Err != nil {
				res.violate("publish-error-with-valid-token", "SendEvent %d:%d with the registration token returned %v", e.Pub, e.Seq, e.Err)
				break
			}
		}
	}
	var events int64
	for _, e := range badErrs {
		events++
		if e == nil {
			res.violate("wrong-token-accepted", "SendEvent with a token that is not the registration token returned nil")
			break
		} else if !errors.Is(e, gen.ErrEventOwner) {
			res.violate("wrong-token-wrong-error", "SendEvent with a wrong token returned %v, want gen.ErrEventOwner", e)
			break
		}
	}
	over := 0
	live := 0
	deadWithSub := 0
	var ls []liveSub
	var detailSubs []string
	for si, s := range subs {
		p := plans[si]
		if dead, _, _, insub := s.term(); dead && insub {
			continue
		}
		if recs[si] == nil {
			continue
		}
		a := s
		a.mu.Lock()
		r := *recs[si]
		a.mu.Unlock()
		if !r.Done {
			if !s.termed.Load() {
				res.inconclusive(fmt.Sprintf("watchdog: subscribe call of %s did not return", s.label))
			}
			continue
		}
		if r.Err != nil {
			if p.remote {
				connSuspect.Store(true)
				hk.Stat("remote_request_timeouts", 1)
			}
			if len(lines) == 0 {
				res.inconclusive(fmt.Sprintf("%s: subscribe to the registered event returned %v", s.label, r.Err))
			}
			continue
		}
		if overlapped(r, ix) {
			over++
		}
		lastIn := checkBuffer(res, s.label, r, c, ix)
		l := s.received(ev)
		events += int64(len(l)+len(r.B)) + 1
		upper := phase1End
		strictTail := true
		if r.UDone {
			upper = r.U0
			if p.remote {
				strictTail = false
			}
		}
		if dieT0[si] != 0 {
			upper = dieT0[si]
			if p.remote || p.action == 2 {
				strictTail = false // Kill does not drain the mailbox
			}
		}
		if !strictTail {
			upper = 0 // only what was received is judged (order, duplicates, gaps, buffer/live seam)
		}
		checkLive(res, s.label, p.remote, r, l, c, ix, lastIn, upper, func(pi int) bool {
			if !p.remote {
				return true
			}
			return s.hasFence(Fence{Pub: pi, ID: 1})
		})
		dead := s.termed.Load()
		unsub := r.UDone && r.UErr == nil
		unknown := false
		if r.UDone && r.UErr != nil && !dead {
			if p.remote && r.UErr.Error() == gen.ErrTimeout.Error() {
				// the reply of the owner node was dropped (net/proto request/reply defect, reported separately)
				hk.Stat("remote_request_timeouts", 1)
				connSuspect.Store(true)
				res.inconclusive(fmt.Sprintf("%s: remote unsubscribe timed out", s.label))
				unknown = true
			} else {
				res.violate("unsubscribe-failed", "%s: unsubscribe of a live subscription returned %v", s.label, r.UErr)
			}
		}
		if unknown {
			ls = append(ls, liveSub{a: s, r: r, certain: false})
		} else if dead {
			deadWithSub++
		} else if !unsub {
			live++
			ls = append(ls, liveSub{a: s, r: r, certain: true, expect: true})
		} else {
			ls = append(ls, liveSub{a: s, r: r, certain: true, expect: false})
		}
		if len(detailSubs) < 12 {
			detailSubs = append(detailSubs, fmt.Sprintf("%s link=%v remote=%v sub@[%d,%d] B=%s live=%s unsub=%v dead=%v", s.label, r.Link, p.remote, r.S0, r.S1, seqsOf(r.B), rcvSeqs(l, 6), unsub, dead))
		}
	}
	_ = fencesOK
	// notifications
	st, sp := 0, 0
	for _, x := range owner.notesFor(name) {
		if x.Start {
			st++
		} else {
			sp++
		}
	}
	events += int64(st + sp)
	if !notify && st+sp > 0 {
		res.violate("notification-without-notify", "Notify=false but the producer received Start=%d Stop=%d", st, sp)
	}
	if notify && res.incon == "" {
		d := st - sp
		if d < 0 || d > 1 {
			res.violate("notify-count-out-of-range", "at quiescence the producer has Start=%d Stop=%d", st, sp)
		} else if deadWithSub == 0 {
			if live > 0 && d == 0 {
				res.violate("missing-event-start", "%d subscribers are subscribed at quiescence but producer has Start=%d Stop=%d", live, st, sp)
			}
			if live == 0 && d == 1 {
				res.violate("missing-event-stop", "no subscriber is left at quiescence (all unsubscribed) but producer has Start=%d Stop=%d", st, sp)
			}
		} else if live == 0 && d == 1 {
			hk.Stat("stop_not_sent_when_last_subscriber_terminated", 1)
		}
	}
	// probe: at quiescence a fresh subscriber must be handed exactly the last N publications
	if res.incon == "" && len(lines) == 0 {
		events += probeBuffer(res, id, c, ix, total)
	}
	if nPub > 1 && n > 0 && len(res.viol) > 0 {
		switch {
		case strings.HasSuffix(res.sig, "-remote"):
			// the remote subscribe window is independent of the number of publishers
		case strings.HasPrefix(res.sig, "buffer-"), res.sig == "subscribe-window-loss", res.sig == "subscribe-vs-publish-buffer-race", res.sig == "framework-panic-in-event-path":
			res.viol = append([]string{fmt.Sprintf("[concurrent-publishers-corrupt-buffer] %d token holders published concurrently into a Buffer=%d event (first symptom: %s)", nPub, n, res.sig)}, res.viol...)
			res.sig = "concurrent-publishers-corrupt-buffer"
		}
	}
	// phase 2: end of the event
	endName := []string{"none", "unregister", "kill", "exit"}[endMode]
	if endMode != 0 && res.incon == "" {
		c.endT0 = hk.Tick()
		switch endMode {
		case 1:
			if e := owner.unregister(name); e != nil {
				res.violate("unregister-failed", "owner's UnregisterEvent returned %v", e)
			}
		case 2:
			owner.kill()
		case 3:
			owner.tell(cDie{Reason: errors.New("c18 owner exit")})
		}
		if endMode != 1 {
			if !hk.WaitUntil(10*time.Second, func() bool { return owner.termed.Load() && owner.inst.Quiet() }) {
				res.inconclusive("watchdog: owner did not terminate")
			}
		}
		c.endT1 = hk.Tick()
		if res.incon == "" {
			events += checkSignals(res, c, ls)
		}
	}
	dbg("%s: end", id)
	if dbgOn && len(res.viol) > 0 {
		for si, s := range subs {
			if recs[si] == nil {
				continue
			}
			r := *recs[si]
			l := s.received(ev)
			dbg("%s remote=%v link=%v S=[%d,%d] U=[%d,%d] B=%s nlive=%d", s.label, plans[si].remote, r.Link, r.S0, r.S1, r.U0, r.U1, seqsOf(r.B), len(l))
			prev := 0
			for _, m := range l {
				if m.P.Pub == 0 {
					if prev != 0 && m.P.Seq != prev+1 {
						for q := prev + 1; q < m.P.Seq && q < prev+4; q++ {
							e := ix.good[0][q-1]
							dbg("   missing %d: T0=%d T1=%d ; next received %d at T=%d", q, e.T0, e.T1, m.P.Seq, m.T)
						}
					}
					prev = m.P.Seq
				}
			}
		}
		if ra, err := nodeA.Network().Node(nodeB.Name()); err == nil {
			i := ra.Info()
			dbg("A->B: pool=%d out=%d in=%d bytesOut=%d bytesIn=%d", i.PoolSize, i.MessagesOut, i.MessagesIn, i.BytesOut, i.BytesIn)
		}
		if rb, err := nodeB.Network().Node(nodeA.Name()); err == nil {
			i := rb.Info()
			dbg("B->A: pool=%d out=%d in=%d bytesOut=%d bytesIn=%d", i.PoolSize, i.MessagesOut, i.MessagesIn, i.BytesOut, i.BytesIn)
		}
		for _, l := range nodeA.Cap.Lines() {
			dbg("A log: %v %s", l.Level, trim(l.Text, 300))
		}
		for _, l := range nodeB.Cap.Lines() {
			dbg("B log: %v %s", l.Level, trim(l.Text, 300))
		}
	}
	key := fmt.Sprintf("conc/buf=%d/notify=%v/pubs=%d/remote=%v/deaths=%v/end=%s/overlap=%v", n, notify, nPub, nRemote > 0, deadWithSub > 0, endName, over > 0)
	hk.Stat("conc_subscribe_calls_overlapping_a_publication", int64(over))
	finish(id, "conc", key, over > 0, events, res, map[string]any{"buffer": n, "notify": notify, "publishers": nPub, "per_publisher": per, "local": nLocal, "remote": nRemote, "end": endName, "overlapping_subscribes": over, "start_stop": []int{st, sp}, "subs": detailSubs, "panic_lines": lines})
}
