package main

import (
	"errors"
	"fmt"
	"time"

	"ergo.services/ergo/gen"

	"verif/harness/hk"
)

// sequential histories against an exact reference model

type mSub struct {
	a      *actor
	rec    *subRec // active subscription (nil = not subscribed)
	expect []int   // sequence numbers owed so far (current event registration)
	sigs   int     // exit/down notifications owed for the current event registration
	sigK   bool    // kind of the owed notification: link?
	dead   bool
}

type seqModel struct {
	registered bool
	name       gen.Atom
	ev         gen.Event
	token      gen.Ref
	oldTokens  []gen.Ref
	n          int
	notify     bool
	seq        int
	buffer     []int
	live       int
	expStart   int
	expStop    int
	deaths     int // subscribers lost without unsubscribing since the registration
	log        *pubLog
}

func runSeq(k int) {
	id := fmt.Sprintf("seq/%d", k)
	if !hk.Want(id) {
		return
	}
	rng := hk.Rng("c18", id)
	res := &result{}
	pm := markPanics()
	panicsWithBuffer.Store(false)
	nLocal := 1 + rng.Intn(3)
	nRemote := []int{0, 1, 2}[rng.Intn(3)]
	if nRemote > 0 && !ensureConn() {
		nRemote = 0
	}
	allowDeath := rng.Intn(4) == 0
	steps := 25 + rng.Intn(30)

	owner, err := spawnActor(nodeA, false, id+"/owner")
	if err != nil {
		return
	}
	delegate, _ := spawnActor(nodeA, false, id+"/delegate")
	stranger, _ := spawnActor(nodeA, false, id+"/stranger")
	if delegate == nil || stranger == nil {
		return
	}
	var subs []*mSub
	for i := 0; i < nLocal+nRemote; i++ {
		sn, remote := nodeA, false
		if i >= nLocal {
			sn, remote = nodeB, true
		}
		a, err := spawnActor(sn, remote, fmt.Sprintf("%s/sub%d", id, i))
		if err != nil {
			return
		}
		subs = append(subs, &mSub{a: a})
	}
	everyone := func() []*actor {
		out := []*actor{owner, delegate, stranger}
		for _, s := range subs {
			out = append(out, s.a)
		}
		return out
	}
	defer func() { killAll(everyone()...) }()

	for _, p := range []*actor{owner, delegate} {
		if err := setupFence(p, everyone()[3:]); err != nil {
			res.inconclusive(err.Error())
			finish(id, "seq", id, false, 0, res, nil)
			return
		}
	}
	m := &seqModel{}
	var intruder *actor // a process that tried (and failed) to register the taken event name
	intruders, intruderDeaths := 0, 0
	defer func() { killAll(intruder) }()
	var trace []string
	var events int64
	fid := 0
	evicted, ended, wrongTok := false, 0, 0
	ownerGen := 0

	subActors := func() []*actor {
		var out []*actor
		for _, s := range subs {
			if !s.dead {
				out = append(out, s.a)
			}
		}
		return out
	}

	quiesce := func(fs []Fence) bool {
		if len(fs) > 0 && !waitFences(subActors(), fs, 8*time.Second) {
			res.inconclusive("watchdog: fence not received")
			return false
		}
		if !waitIdle(8*time.Second, everyone()...) {
			res.inconclusive("watchdog: no quiescence")
			return false
		}
		return true
	}

	// compare what every subscriber has received with the model
	compare := func(step string) {
		if !m.registered && m.name == "" {
			return
		}
		for _, s := range subs {
			if s.dead {
				continue
			}
			l := s.a.received(m.ev)
			got := make([]int, 0, len(l))
			for _, x := range l {
				if x.P.Bad {
					res.violate("wrong-token-delivered", "%s after %s: received a publication made with a wrong token (%+v)", s.a.label, step, x.P)
					continue
				}
				got = append(got, x.P.Seq)
			}
			sfx := ""
			if s.a.remote {
				sfx = "-remote"
			}
			seen := map[int]int{}
			for _, g := range got {
				seen[g]++
			}
			for _, e := range s.expect {
				if seen[e] == 0 {
					res.violate("lost-publication"+sfx, "%s after %s: publication %d was published while it was subscribed, never delivered; expected %v got %v", s.a.label, step, e, s.expect, got)
					break
				}
			}
			for g, c := range seen {
				if c > 1 {
					res.violate("duplicate-delivery"+sfx, "%s after %s: publication %d delivered %d times; got %v", s.a.label, step, g, c, got)
					break
				}
			}
			for x := 1; x < len(got); x++ {
				if got[x] < got[x-1] {
					res.violate("out-of-order-delivery"+sfx, "%s after %s: %d delivered after %d; got %v", s.a.label, step, got[x], got[x-1], got)
					break
				}
			}
			// deliveries that were not owed (published while not subscribed): observation only
			exp := map[int]bool{}
			for _, e := range s.expect {
				exp[e] = true
			}
			for _, g := range got {
				if !exp[g] {
					hk.Stat("delivered_while_not_subscribed", 1)
				}
			}
		}
	}

	notes := func(step string, transition string) {
		if m.name == "" {
			return
		}
		st, sp := 0, 0
		for _, x := range owner.notesFor(m.name) {
			if x.Start {
				st++
			} else {
				sp++
			}
		}
		if !m.notify {
			if st+sp > 0 {
				res.violate("notification-without-notify", "after %s: Notify=false but producer received Start=%d Stop=%d", step, st, sp)
			}
			return
		}
		if m.deaths == 0 {
			switch {
			case st > m.expStart:
				res.violate("spurious-event-start", "after %s: producer received %d Start notifications, %d transitions 0->1 happened (trace %v)", step, st, m.expStart, trace)
			case st < m.expStart:
				res.violate("missing-event-start", "after %s: producer received %d Start notifications, %d transitions 0->1 happened (trace %v)", step, st, m.expStart, trace)
			}
			switch {
			case sp > m.expStop:
				res.violate("spurious-event-stop", "after %s: producer received %d Stop notifications, %d transitions 1->0 happened (trace %v)", step, sp, m.expStop, trace)
			case sp < m.expStop:
				res.violate("missing-event-stop", "after %s: producer received %d Stop notifications, %d transitions 1->0 happened (trace %v)", step, sp, m.expStop, trace)
			}
			return
		}
		// a subscriber was lost without unsubscribing: only explicit transitions are judged
		switch transition {
		case "first":
			if st-sp != 1 {
				res.violate("missing-event-start", "after %s (first live subscriber): Start=%d Stop=%d (trace %v)", step, st, sp, trace)
			}
		case "last":
			if st-sp != 0 {
				// a repaired framework may account a dead remote subscriber asynchronously: wait for the Stop or
				// for the structural witness that nothing is in flight and no framework goroutine can still act
				count := func() int {
					a, b := 0, 0
					for _, x := range owner.notesFor(m.name) {
						if x.Start {
							a++
						} else {
							b++
						}
					}
					st, sp = a, b
					return a - b
				}
				if !hk.WaitUntil(5*time.Second, func() bool { return count() == 0 || (netQuiescent() && owner.idle()) }) {
					res.inconclusive("watchdog: neither MessageEventStop nor network quiescence after " + step)
					return
				}
				count()
			}
			if st-sp != 0 {
				res.violate("eventstop-missing-after-subscriber-loss", "after %s: the last live subscriber unsubscribed (an earlier subscriber had terminated without unsubscribing) but producer has Start=%d Stop=%d (trace %v)", step, st, sp, trace)
			}
		}
	}

	endEvent := func(step string) {
		// every live subscription owes one notification
		c := &evCtx{ev: m.ev, endT0: hk.Now()}
		var ls []liveSub
		for _, s := range subs {
			if s.dead {
				continue
			}
			if s.rec != nil {
				ls = append(ls, liveSub{a: s.a, r: *s.rec, certain: true, expect: true})
				s.sigs++
				s.sigK = s.rec.Link
			}
			s.rec = nil
		}
		events += checkSignals(res, c, ls)
		m.registered = false
		m.live = 0
		ended++
		_ = step
	}

	// while the event is registered and its owner alive nobody may be told that it ended
	noSpurious := func(step string) {
		for _, s := range subs {
			if s.dead {
				continue
			}
			sg := s.a.signals(m.ev)
			if len(sg) > s.sigs {
				kind := "exit"
				if sg[len(sg)-1].Down {
					kind = "down"
				}
				sfx := ""
				if s.a.remote {
					sfx = "-remote"
				}
				res.violate("spurious-"+kind+"-while-event-registered"+sfx, "%s after %s: received %v for %s although the event is registered and its owner alive (trace %v)", s.a.label, step, sg[len(sg)-1], m.ev, trace)
			}
		}
	}

	finalSignals := func() {
		// exactly the owed number of notifications per subscriber for the last event name
		for _, s := range subs {
			if s.dead || m.name == "" {
				continue
			}
			got := len(s.a.signals(m.ev))
			if got != s.sigs {
				kind := "down"
				if s.sigK {
					kind = "exit"
				}
				if got > s.sigs {
					res.violate("duplicate-"+kind, "%s: %d exit/down notifications for %s, %d owed", s.a.label, got, m.ev, s.sigs)
				}
			}
		}
	}

	for step := 0; step < steps && len(res.viol) == 0 && res.incon == ""; step++ {
		op := rng.Intn(100)
		desc := ""
		transition := ""
		var fences []Fence
		switch {
		case !m.registered:
			// finish the previous registration's accounting, then register a fresh event
			finalSignals()
			m.name = freshEvent("sq")
			m.ev = gen.Event{Name: m.name, Node: nodeA.Name()}
			m.n = rng.Intn(5)
			m.notify = rng.Intn(2) == 0
			m.seq, m.buffer, m.live, m.expStart, m.expStop, m.deaths = 0, nil, 0, 0, 0, 0
			m.log = &pubLog{}
			for _, s := range subs {
				s.expect, s.rec, s.sigs = nil, nil, 0
			}
			if m.token != (gen.Ref{}) {
				m.oldTokens = append(m.oldTokens, m.token)
			}
			tok, err := owner.register(m.name, gen.EventOptions{Buffer: m.n, Notify: m.notify})
			desc = fmt.Sprintf("register(buf=%d,notify=%v)", m.n, m.notify)
			if err != nil {
				res.inconclusive("register: " + err.Error())
				break
			}
			m.token = tok
			m.registered = true

		case op < 28: // publish with the token, by the owner or a delegate
			cnt := 1 + rng.Intn(6)
			p := owner
			who := "owner"
			if rng.Intn(3) == 0 {
				p, who = delegate, "delegate"
			}
			fid++
			var errs []error
			hasRemote := anyRemote(subActors())
			desc = fmt.Sprintf("publish(%s,%d..%d)", who, m.seq+1, m.seq+cnt)
			if !p.publish(cPub{Name: m.name, Token: m.token, From: m.seq + 1, N: cnt, Log: m.log, Errs: &errs, Fence: hasRemote, FID: fid}) {
				res.inconclusive("watchdog: publish did not complete")
				break
			}
			if hasRemote {
				fences = []Fence{{Pub: 0, ID: fid}}
			}

			for i, e := range errs {
				if e != nil {
					res.violate("publish-error-with-valid-token", "SendEvent #%d by %s with the registration token returned %v", m.seq+1+i, who, e)
				}
			}
			for i := 0; i < cnt; i++ {
				m.seq++
				m.buffer = append(m.buffer, m.seq)
				if len(m.buffer) > m.n {
					if m.n > 0 {
						evicted = true
					}
					m.buffer = m.buffer[len(m.buffer)-m.n:]
				}
				for _, s := range subs {
					if s.rec != nil && !s.dead {
						s.expect = append(s.expect, m.seq)
					}
				}
			}
			events += int64(cnt)

		case op < 37: // publish with a wrong token
			var tok gen.Ref
			kind := rng.Intn(3)
			switch {
			case kind == 1:
				tok = nodeA.MakeRef()
			case kind == 2 && len(m.oldTokens) > 0:
				tok = m.oldTokens[rng.Intn(len(m.oldTokens))]
			}
			p := stranger
			who := "stranger"
			if rng.Intn(3) == 0 {
				p, who = owner, "owner"
			}
			var errs []error
			desc = fmt.Sprintf("badpublish(%s,tokenkind=%d)", who, kind)
			if !p.publish(cPub{Name: m.name, Token: tok, From: 900000 + step, N: 1, Bad: true, Errs: &errs}) {
				res.inconclusive("watchdog: publish did not complete")
				break
			}
			wrongTok++
			events++
			if len(errs) == 1 {
				switch {
				case errs[0] == nil:
					res.violate("wrong-token-accepted", "SendEvent by %s with a token that is not the registration token (kind %d) returned nil", who, kind)
				case !errors.Is(errs[0], gen.ErrEventOwner):
					res.violate("wrong-token-wrong-error", "SendEvent by %s with a wrong token returned %v, want gen.ErrEventOwner", who, errs[0])
				}
			}

		case op < 61: // subscribe
			s := subs[rng.Intn(len(subs))]
			if s.dead {
				continue
			}
			link := rng.Intn(2) == 0
			if s.rec != nil {
				link = s.rec.Link // duplicate subscribe in the same mode
			}
			desc = fmt.Sprintf("subscribe(%s,link=%v)", s.a.label[len(id)+1:], link)
			r, ok := s.a.subscribe(m.ev, link)
			if !ok {
				if checkTermInSub(res, s.a, newPanics(pm)) {
					break
				}
				res.inconclusive("watchdog: subscribe did not return")
				break
			}
			events++
			if s.rec != nil {
				if r.Err == nil {
					res.violate("duplicate-subscribe-accepted", "%s: second %s of the same event returned nil (buffer %s)", s.a.label, desc, seqsOf(r.B))
				}
				break
			}
			if r.Err != nil {
				if s.a.remote && r.Err.Error() == gen.ErrTimeout.Error() {
					hk.Stat("remote_request_timeouts", 1)
					connSuspect.Store(true)
					res.inconclusive(s.a.label + ": remote subscribe timed out (reply dropped by net/proto)")
					break
				}
				res.violate("subscribe-failed", "%s: %s on a registered event returned %v", s.a.label, desc, r.Err)
				break
			}
			// exact buffer
			c := &evCtx{ev: m.ev, n: m.n, log: m.log, nPubs: 1}
			checkBuffer(res, s.a.label, *r, c, indexPubs(m.log.snapshot()))
			got := []int{}
			for _, x := range r.B {
				if p, ok := x.Message.(EvP); ok {
					got = append(got, p.Seq)
				}
			}
			if fmt.Sprint(got) != fmt.Sprint(m.buffer) && len(res.viol) == 0 {
				res.violate("buffer-not-last-n", "%s: Buffer=%d, %d publications so far, subscribe returned %v, the last N are %v", s.a.label, m.n, m.seq, got, m.buffer)
			}
			events += int64(len(r.B))
			s.rec = r
			m.live++
			if m.live == 1 {
				m.expStart++
				transition = "first"
			}

		case op < 77: // unsubscribe
			s := subs[rng.Intn(len(subs))]
			if s.dead {
				continue
			}
			desc = fmt.Sprintf("unsubscribe(%s)", s.a.label[len(id)+1:])
			if s.rec == nil {
				// not subscribed: must fail, must not disturb the accounting
				r := &subRec{Ev: m.ev, Link: rng.Intn(2) == 0}
				if !s.a.unsubscribe(r) {
					res.inconclusive("watchdog: unsubscribe did not return")
				} else if r.UErr == nil {
					res.violate("unsubscribe-without-subscription-accepted", "%s: unsubscribe without a subscription returned nil", s.a.label)
				}
				break
			}
			if !s.a.unsubscribe(s.rec) {
				res.inconclusive("watchdog: unsubscribe did not return")
				break
			}
			events++
			if s.rec.UErr != nil {
				if s.a.remote && s.rec.UErr.Error() == gen.ErrTimeout.Error() {
					hk.Stat("remote_request_timeouts", 1)
					connSuspect.Store(true)
					res.inconclusive(s.a.label + ": remote unsubscribe timed out (reply dropped by net/proto)")
					break
				}
				res.violate("unsubscribe-failed", "%s: unsubscribe of a live subscription returned %v", s.a.label, s.rec.UErr)
				break
			}
			s.rec = nil
			m.live--
			if m.live == 0 {
				m.expStop++
				transition = "last"
			}

		case op < 83: // unregister
			desc = "unregister"
			if rng.Intn(4) == 0 {
				// a non-owner must not be able to unregister
				if e := delegate.unregister(m.name); e == nil {
					res.violate("unregister-by-non-owner-accepted", "UnregisterEvent by a process that does not own %s returned nil", m.name)
				}
			}
			if e := owner.unregister(m.name); e != nil {
				res.violate("unregister-failed", "owner's UnregisterEvent returned %v", e)
				break
			}
			if quiesce(nil) {
				endEvent(desc)
			}

		case op < 88: // owner terminates
			how := []string{"kill", "exit", "panic"}[rng.Intn(3)]
			desc = "owner-" + how
			switch how {
			case "kill":
				owner.kill()
			case "exit":
				owner.tell(cDie{Reason: errors.New("c18 owner exit")})
			case "panic":
				owner.tell(cPanic{})
			}
			if !hk.WaitUntil(10*time.Second, func() bool { return owner.termed.Load() && owner.inst.Quiet() }) {
				res.inconclusive("watchdog: owner did not terminate")
				break
			}
			endEvent(desc)
			ownerGen++
			no, err := spawnActor(nodeA, false, fmt.Sprintf("%s/owner%d", id, ownerGen))
			if err != nil {
				res.inconclusive("respawn owner: " + err.Error())
				break
			}
			owner = no
			if err := setupFence(owner, subActors()); err != nil {
				res.inconclusive(err.Error())
			}

		case op < 93 || (op < 96 && intruder == nil): // another process (or the node) tries to register the taken name
			nodeVariant := rng.Intn(3) == 0
			var err error
			if nodeVariant {
				desc = "register-taken(node)"
				_, err = nodeA.RegisterEvent(m.name, gen.EventOptions{Buffer: rng.Intn(3), Notify: rng.Intn(2) == 0})
			} else {
				if intruder == nil {
					intruders++
					intruder, err = spawnActor(nodeA, false, fmt.Sprintf("%s/intruder%d", id, intruders))
					if err != nil {
						res.inconclusive("spawn intruder: " + err.Error())
						break
					}
				}
				desc = "register-taken(intruder)"
				_, err = intruder.register(m.name, gen.EventOptions{Buffer: rng.Intn(3), Notify: rng.Intn(2) == 0})
			}
			events++
			if err == nil {
				res.violate("register-taken-name-accepted", "%s: RegisterEvent of %s, which is registered by another process, returned nil", desc, m.name)
			} else if errors.Is(err, errWatchdog) {
				res.inconclusive("watchdog: register did not return")
			}

		case op < 96: // the process whose registration failed terminates: the event is not its business
			how := []string{"kill", "exit", "panic"}[rng.Intn(3)]
			desc = "intruder-" + how
			switch how {
			case "kill":
				intruder.kill()
			case "exit":
				intruder.tell(cDie{Reason: gen.TerminateReasonNormal})
			case "panic":
				intruder.tell(cPanic{})
			}
			x := intruder
			if !hk.WaitUntil(10*time.Second, func() bool { return x.termed.Load() && x.inst.Quiet() }) {
				res.inconclusive("watchdog: intruder did not terminate")
				break
			}
			intruder = nil
			intruderDeaths++
			events++

		default: // subscriber dies without unsubscribing
			if !allowDeath {
				continue
			}
			s := subs[rng.Intn(len(subs))]
			if s.dead || len(subActors()) < 2 {
				continue
			}
			desc = fmt.Sprintf("die(%s)", s.a.label[len(id)+1:])
			s.a.kill()
			if !hk.WaitUntil(10*time.Second, func() bool { return s.a.termed.Load() && s.a.inst.Quiet() }) {
				res.inconclusive("watchdog: subscriber did not terminate")
				break
			}
			s.dead = true
			if s.rec != nil {
				m.live--
				m.deaths++
				s.rec = nil
			}
		}
		if desc != "" {
			trace = append(trace, desc)
		}
		if res.incon != "" || len(res.viol) > 0 {
			break
		}
		if !quiesce(fences) {
			break
		}
		if m.registered {
			noSpurious(desc)
		}
		compare(desc)
		if m.registered {
			notes(desc, transition)
		}
	}
	if m.registered && res.incon == "" && len(res.viol) == 0 {
		// remote notifications travel asynchronously: give a spurious one the chance to be seen
		hk.WaitUntil(2*time.Second, func() bool { return netQuiescent() })
		if quiesce(nil) {
			noSpurious("end of history")
		}
	}
	finalSignals()
	checkPanics(res, pm)
	if len(trace) > 60 {
		trace = trace[len(trace)-60:]
	}
	key := fmt.Sprintf("seq/local=%d/remote=%d/death=%v/evicted=%v/ended=%v/wrongtoken=%v/intruderdied=%v", nLocal, nRemote, allowDeath, evicted, ended > 0, wrongTok > 0, intruderDeaths > 0)
	finish(id, "seq", key, false, events, res, map[string]any{"trace": trace})
}
