package main

import (
	"errors"
	"fmt"
	"sync"
	"sync/atomic"
	"time"

	"ergo.services/ergo/gen"

	"verif/harness/actors"
	"verif/harness/hk"
)

// EvP is the payload of every publication (registered with EDF: it crosses the network)
type EvP struct {
	Pub int  // publisher index within the case
	Seq int  // sequence number of this publisher for this event registration, from 1
	Bad bool // published with a token that is not the registration token: must never be delivered
}

// Fence is published by a publisher process on its own private fence event (Buffer 0,
// subscribed by every remote subscriber while the case is still quiescent) after its last
// publication: event messages of one sender process carry the same ordering key, travel over
// the same link, are decoded by the same receive queue and go to the same mailbox queue, so
// everything the publisher's earlier SendEvent calls put on the wire is in front of it.
// (Regular messages are queued by the receiver's id on the peer and are not ordered with events.)
type Fence struct {
	Pub int
	ID  int
}

// ---------------------------------------------------------------------------
// logs

type pubEntry struct {
	Pub, Seq int
	T0, T1   int64 // logical clock before / after the SendEvent call
	Err      error
	Bad      bool
}

// pubLog is the client-side history of SendEvent calls for one event registration
type pubLog struct {
	mu      sync.Mutex
	entries []pubEntry
	count   atomic.Int64 // completed good publications
}

func (l *pubLog) add(e pubEntry) {
	l.mu.Lock()
	l.entries = append(l.entries, e)
	l.mu.Unlock()
	if e.Err == nil && !e.Bad {
		l.count.Add(1)
	}
}

func (l *pubLog) snapshot() []pubEntry {
	l.mu.Lock()
	defer l.mu.Unlock()
	return append([]pubEntry(nil), l.entries...)
}

type rcv struct {
	T   int64
	Ev  gen.Event
	P   EvP
	Raw any // set when the payload is not an EvP
}

type sig struct {
	T      int64
	Down   bool // true: MessageDownEvent (monitor), false: MessageExitEvent (link)
	Ev     gen.Event
	Reason error
}

type note struct {
	T     int64
	Start bool
	Name  gen.Atom
}

// subRec is one subscribe call (and the matching unsubscribe call) of a subscriber
type subRec struct {
	Ev     gen.Event
	Link   bool
	S0, S1 int64
	B      []gen.MessageEvent
	Err    error
	Done   bool // the subscribe call returned
	U0, U1 int64
	UErr   error
	UDone  bool
}

// actor is the harness-side record of one probe process (producer, delegate publisher or subscriber)
type actor struct {
	label  string
	n      *hk.HNode
	remote bool // lives on the second node
	inst   *actors.Inst
	pid    gen.PID

	mu        sync.Mutex
	notes     []note
	recv      []rcv
	sigs      []sig
	fences    map[Fence]int64
	subs      []*subRec
	other     []string
	termT     int64
	termWhy   error
	termed    atomic.Bool
	fenceName gen.Atom // the publisher's private fence event (see Fence)
	fenceTok  gen.Ref
	inSub     atomic.Int32 // 1 while the process is inside LinkEvent/MonitorEvent
	termInSu  bool         // terminated while inside the subscribe call
}

// ---------------------------------------------------------------------------
// commands (sent with node.Send to the probe, executed in its HandleMessage)

type cReg struct {
	Name gen.Atom
	Opt  gen.EventOptions
	Tok  *gen.Ref
	Done chan error
}

type cUnreg struct {
	Name gen.Atom
	Done chan error
}

type cPub struct {
	Name  gen.Atom
	Token gen.Ref
	Pub   int
	From  int // first sequence number
	N     int
	Bad   bool
	Log   *pubLog
	Fence bool // after the last publication publish Fence{Pub, FID} on the publisher's own fence event
	FID   int
	Errs  *[]error
	Done  chan struct{}
}

type cSub struct {
	Rec  *subRec
	Done chan struct{}
}

type cUnsub struct {
	Rec  *subRec
	Done chan struct{}
}

// cHammer: subscribe / unsubscribe N times inside one callback
type cHammer struct {
	Ev   gen.Event
	Link bool
	N    int
	Out  *[]*subRec
	Stop *atomic.Bool
	Done chan struct{}
}

type cDie struct{ Reason error }
type cPanic struct{}
type cNop struct{ Done chan struct{} }

func (a *actor) hooks() *actors.Hooks {
	return &actors.Hooks{
		Init: func(p *actors.Probe, args ...any) error {
			p.SetTrapExit(true)
			return nil
		},
		Msg: func(p *actors.Probe, from gen.PID, msg any) error {
			switch m := msg.(type) {
			case cReg:
				tok, err := p.RegisterEvent(m.Name, m.Opt)
				*m.Tok = tok
				m.Done <- err
			case cUnreg:
				m.Done <- p.UnregisterEvent(m.Name)
			case cPub:
				for i := 0; i < m.N; i++ {
					e := pubEntry{Pub: m.Pub, Seq: m.From + i, Bad: m.Bad}
					pl := EvP{Pub: m.Pub, Seq: e.Seq, Bad: m.Bad}
					e.T0 = hk.Tick()
					e.Err = p.SendEvent(m.Name, m.Token, pl)
					e.T1 = hk.Tick()
					if m.Log != nil {
						m.Log.add(e)
					}
					if m.Errs != nil {
						*m.Errs = append(*m.Errs, e.Err)
					}
				}
				if m.Fence && a.fenceName != "" {
					p.SendEvent(a.fenceName, a.fenceTok, Fence{Pub: m.Pub, ID: m.FID})
				}
				close(m.Done)
			case cSub:
				a.doSub(p, m.Rec)
				close(m.Done)
			case cUnsub:
				a.doUnsub(p, m.Rec)
				close(m.Done)
			case cHammer:
				for i := 0; i < m.N && !m.Stop.Load(); i++ {
					r := &subRec{Ev: m.Ev, Link: m.Link}
					*m.Out = append(*m.Out, r)
					a.doSub(p, r)
					if r.Err == nil {
						a.doUnsub(p, r)
					}
				}
				close(m.Done)
			case cDie:
				return m.Reason
			case cPanic:
				panic("c18: requested panic")
			case cNop:
				close(m.Done)
			case gen.MessageEventStart:
				t := hk.Tick()
				a.mu.Lock()
				a.notes = append(a.notes, note{T: t, Start: true, Name: m.Name})
				a.mu.Unlock()
			case gen.MessageEventStop:
				t := hk.Tick()
				a.mu.Lock()
				a.notes = append(a.notes, note{T: t, Start: false, Name: m.Name})
				a.mu.Unlock()
			case gen.MessageExitEvent:
				t := hk.Tick()
				a.mu.Lock()
				a.sigs = append(a.sigs, sig{T: t, Ev: m.Event, Reason: m.Reason})
				a.mu.Unlock()
			case gen.MessageDownEvent:
				t := hk.Tick()
				a.mu.Lock()
				a.sigs = append(a.sigs, sig{T: t, Down: true, Ev: m.Event, Reason: m.Reason})
				a.mu.Unlock()
			default:
				a.mu.Lock()
				if len(a.other) < 16 {
					a.other = append(a.other, fmt.Sprintf("%T %v", msg, msg))
				}
				a.mu.Unlock()
			}
			return nil
		},
		Event: func(p *actors.Probe, ev gen.MessageEvent) error {
			if f, ok := ev.Message.(Fence); ok {
				t := hk.Tick()
				a.mu.Lock()
				a.fences[f] = t
				a.mu.Unlock()
				return nil
			}
			r := rcv{T: hk.Tick(), Ev: ev.Event}
			if pl, ok := ev.Message.(EvP); ok {
				r.P = pl
			} else {
				r.Raw = ev.Message
				r.P.Seq = -1
			}
			a.mu.Lock()
			a.recv = append(a.recv, r)
			a.mu.Unlock()
			return nil
		},
		Terminate: func(p *actors.Probe, reason error) {
			a.mu.Lock()
			a.termT = hk.Tick()
			a.termWhy = reason
			a.termInSu = a.inSub.Load() > 0
			a.mu.Unlock()
			a.termed.Store(true)
		},
	}
}

func (a *actor) doSub(p *actors.Probe, r *subRec) {
	a.mu.Lock()
	a.subs = append(a.subs, r)
	a.mu.Unlock()
	a.inSub.Store(1)
	r.S0 = hk.Tick()
	var b []gen.MessageEvent
	var err error
	if r.Link {
		b, err = p.LinkEvent(r.Ev)
	} else {
		b, err = p.MonitorEvent(r.Ev)
	}
	s1 := hk.Tick()
	a.inSub.Store(0)
	a.mu.Lock()
	r.S1, r.B, r.Err, r.Done = s1, b, err, true
	a.mu.Unlock()
}

func (a *actor) doUnsub(p *actors.Probe, r *subRec) {
	u0 := hk.Tick()
	var err error
	if r.Link {
		err = p.UnlinkEvent(r.Ev)
	} else {
		err = p.DemonitorEvent(r.Ev)
	}
	u1 := hk.Tick()
	a.mu.Lock()
	r.U0, r.U1, r.UErr, r.UDone = u0, u1, err, true
	a.mu.Unlock()
}

// snapshot accessors

func (a *actor) received(ev gen.Event) []rcv {
	a.mu.Lock()
	defer a.mu.Unlock()
	var out []rcv
	for _, r := range a.recv {
		if r.Ev == ev {
			out = append(out, r)
		}
	}
	return out
}

func (a *actor) allReceived() []rcv {
	a.mu.Lock()
	defer a.mu.Unlock()
	return append([]rcv(nil), a.recv...)
}

func (a *actor) signals(ev gen.Event) []sig {
	a.mu.Lock()
	defer a.mu.Unlock()
	var out []sig
	for _, s := range a.sigs {
		if s.Ev == ev {
			out = append(out, s)
		}
	}
	return out
}

func (a *actor) notesFor(name gen.Atom) []note {
	a.mu.Lock()
	defer a.mu.Unlock()
	var out []note
	for _, x := range a.notes {
		if x.Name == name {
			out = append(out, x)
		}
	}
	return out
}

func (a *actor) hasFence(f Fence) bool {
	a.mu.Lock()
	defer a.mu.Unlock()
	_, ok := a.fences[f]
	return ok
}

func (a *actor) subsCopy() []subRec {
	a.mu.Lock()
	defer a.mu.Unlock()
	out := make([]subRec, len(a.subs))
	for i, r := range a.subs {
		out[i] = *r
	}
	return out
}

func (a *actor) term() (bool, int64, error, bool) {
	if !a.termed.Load() {
		return false, 0, nil, false
	}
	a.mu.Lock()
	defer a.mu.Unlock()
	return true, a.termT, a.termWhy, a.termInSu
}

// ---------------------------------------------------------------------------

var actorSeq atomic.Int64

func spawnActor(n *hk.HNode, remote bool, label string) (*actor, error) {
	a := &actor{label: label, n: n, remote: remote, fences: map[Fence]int64{}}
	f, inst := actors.NewProbe(label, a.hooks())
	a.inst = inst
	pid, err := n.Spawn(f, gen.ProcessOptions{})
	if err != nil {
		return nil, err
	}
	a.pid = pid
	if pid.ID%255 == 0 {
		// ordering key 0 means "unordered" on the wire (property C13): not a publisher we can fence
		n.Kill(pid)
		return spawnActor(n, remote, label)
	}
	return a, nil
}

// setupFence registers the publisher's fence event and subscribes the remote subscribers to it
func setupFence(pub *actor, subs []*actor) error {
	any := false
	for _, s := range subs {
		any = any || s.remote
	}
	if !any {
		return nil
	}
	if pub.fenceName == "" {
		name := gen.Atom(fmt.Sprintf("fence_%d_%d", pub.pid.ID, actorSeq.Add(1)))
		tok, err := pub.register(name, gen.EventOptions{})
		if err != nil {
			return err
		}
		pub.fenceName, pub.fenceTok = name, tok
	}
	ev := gen.Event{Name: pub.fenceName, Node: pub.n.Name()}
	for _, s := range subs {
		if !s.remote || s.termed.Load() {
			continue
		}
		r, ok := s.subscribe(ev, false)
		if !ok || r.Err != nil {
			return fmt.Errorf("fence subscription of %s failed: %v", s.label, r.Err)
		}
	}
	return nil
}

var errWatchdog = errors.New("watchdog")

// tell sends a command; wait waits for its completion channel (watchdog only)
func (a *actor) tell(cmd any) error { return a.n.Send(a.pid, cmd) }

func waitCh(ch <-chan struct{}, d time.Duration) bool {
	t := time.NewTimer(d)
	defer t.Stop()
	select {
	case <-ch:
		return true
	case <-t.C:
		return false
	}
}

func waitErr(ch <-chan error, d time.Duration) (error, bool) {
	t := time.NewTimer(d)
	defer t.Stop()
	select {
	case e := <-ch:
		return e, true
	case <-t.C:
		return nil, false
	}
}

// waitChOrDead waits for a command completion, or for the process to terminate (a command
// executed by a process that dies inside it never completes)
func (a *actor) waitChOrDead(ch <-chan struct{}, d time.Duration) (done bool, dead bool) {
	deadline := time.Now().Add(d)
	for {
		select {
		case <-ch:
			return true, false
		default:
		}
		if a.termed.Load() {
			// give the completion a last chance (terminate may follow a completed command)
			select {
			case <-ch:
				return true, false
			default:
			}
			return false, true
		}
		if time.Now().After(deadline) {
			return false, false
		}
		time.Sleep(200 * time.Microsecond)
	}
}

func (a *actor) register(name gen.Atom, opt gen.EventOptions) (gen.Ref, error) {
	var tok gen.Ref
	ch := make(chan error, 1)
	if err := a.tell(cReg{Name: name, Opt: opt, Tok: &tok, Done: ch}); err != nil {
		return tok, err
	}
	err, ok := waitErr(ch, 10*time.Second)
	if !ok {
		return tok, errWatchdog
	}
	return tok, err
}

func (a *actor) unregister(name gen.Atom) error {
	ch := make(chan error, 1)
	if err := a.tell(cUnreg{Name: name, Done: ch}); err != nil {
		return err
	}
	err, ok := waitErr(ch, 10*time.Second)
	if !ok {
		return errWatchdog
	}
	return err
}

// publish runs one batch and waits for it
func (a *actor) publish(c cPub) bool {
	c.Done = make(chan struct{})
	if err := a.tell(c); err != nil {
		return false
	}
	done, _ := a.waitChOrDead(c.Done, 8*time.Second)
	return done
}

func (a *actor) subscribe(ev gen.Event, link bool) (*subRec, bool) {
	r := &subRec{Ev: ev, Link: link}
	ch := make(chan struct{})
	if err := a.tell(cSub{Rec: r, Done: ch}); err != nil {
		return r, false
	}
	done, _ := a.waitChOrDead(ch, 8*time.Second)
	return r, done
}

func (a *actor) unsubscribe(r *subRec) bool {
	ch := make(chan struct{})
	if err := a.tell(cUnsub{Rec: r, Done: ch}); err != nil {
		return false
	}
	done, _ := a.waitChOrDead(ch, 8*time.Second)
	return done
}

// idle: process gone, or asleep with an empty mailbox and no live runner
func (a *actor) idle() bool {
	if a.inst.InCallback() {
		return false
	}
	if hk.LiveRunners(a.pid) > 0 {
		return false
	}
	info, err := a.n.ProcessInfo(a.pid)
	if err != nil {
		return true
	}
	if q := info.MailboxQueues; q.Main+q.System+q.Urgent+q.Log > 0 {
		return false
	}
	return info.State == gen.ProcessStateSleep
}

func waitIdle(d time.Duration, as ...*actor) bool {
	return hk.WaitUntil(d, func() bool {
		for _, a := range as {
			if a != nil && !a.idle() {
				return false
			}
		}
		return true
	})
}

func (a *actor) alive() bool {
	_, err := a.n.ProcessInfo(a.pid)
	return err == nil
}

// hasRelation reports whether the subscriber's node still holds the relation to ev
func (a *actor) hasRelation(ev gen.Event, link bool) (bool, bool) {
	info, err := a.n.ProcessInfo(a.pid)
	if err != nil {
		return false, false
	}
	list := info.MonitorsEvent
	if link {
		list = info.LinksEvent
	}
	for _, e := range list {
		if e == ev {
			return true, true
		}
	}
	return false, true
}

func (a *actor) kill() { a.n.Kill(a.pid) }
