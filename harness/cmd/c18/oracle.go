package main

import (
	"fmt"
	"math"
	"sort"
	"sync/atomic"

	"ergo.services/ergo/gen"
)

type result struct {
	viol  []string
	sig   string
	incon string
	notes []string
}

func (r *result) violate(sig, format string, args ...any) {
	if r.sig == "" {
		r.sig = sig
	}
	if len(r.viol) < 12 {
		r.viol = append(r.viol, "["+sig+"] "+fmt.Sprintf(format, args...))
	}
}

func (r *result) inconclusive(why string) {
	if r.incon == "" {
		r.incon = why
	}
}

// evCtx is what the harness knows about one event registration
type evCtx struct {
	ev     gen.Event
	n      int // EventOptions.Buffer
	notify bool
	log    *pubLog
	nPubs  int   // publishers holding the token
	endT0  int64 // logical clock just before the harness started to end the event (unregister / owner death); 0 = still registered
	endT1  int64 // ... just after the ending call returned (0 if asynchronous, e.g. Kill)
}

// index over the client-side publication history
type pubIndex struct {
	good map[int][]pubEntry // per publisher, ordered by Seq (= call order)
	bad  []pubEntry
}

func indexPubs(entries []pubEntry) *pubIndex {
	ix := &pubIndex{good: map[int][]pubEntry{}}
	for _, e := range entries {
		if e.Bad {
			ix.bad = append(ix.bad, e)
			continue
		}
		ix.good[e.Pub] = append(ix.good[e.Pub], e)
	}
	return ix
}

// lastCompletedBefore: greatest seq of publisher p whose SendEvent returned (nil) before t
func (ix *pubIndex) lastCompletedBefore(p int, t int64) int {
	es := ix.good[p]
	i := sort.Search(len(es), func(i int) bool { return es[i].T1 >= t })
	for i--; i >= 0; i-- {
		if es[i].Err == nil {
			return es[i].Seq
		}
	}
	return 0
}

// firstStartedAfter: smallest seq of publisher p whose SendEvent began after t (0 = none)
func (ix *pubIndex) firstStartedAfter(p int, t int64) int {
	es := ix.good[p]
	i := sort.Search(len(es), func(i int) bool { return es[i].T0 > t })
	if i == len(es) {
		return 0
	}
	return es[i].Seq
}

// lastStartedBefore: greatest seq of publisher p whose SendEvent began before t
func (ix *pubIndex) lastStartedBefore(p int, t int64) int {
	es := ix.good[p]
	i := sort.Search(len(es), func(i int) bool { return es[i].T0 >= t })
	if i == 0 {
		return 0
	}
	return es[i-1].Seq
}

func seqsOf(b []gen.MessageEvent) string {
	s := "["
	for i, m := range b {
		if i > 0 {
			s += " "
		}
		if p, ok := m.Message.(EvP); ok {
			if p.Pub != 0 {
				s += fmt.Sprintf("%d:", p.Pub)
			}
			s += fmt.Sprint(p.Seq)
		} else {
			s += fmt.Sprintf("?%T", m.Message)
		}
	}
	return s + "]"
}

func rcvSeqs(l []rcv, max int) string {
	s := "["
	for i, m := range l {
		if i >= max {
			s += fmt.Sprintf(" …(%d)", len(l))
			break
		}
		if i > 0 {
			s += " "
		}
		if m.P.Pub != 0 {
			s += fmt.Sprintf("%d:", m.P.Pub)
		}
		s += fmt.Sprint(m.P.Seq)
	}
	return s + "]"
}

// checkBuffer applies the oracle for the slice returned by the subscribe call.
// Returns, per publisher, the last sequence number contained in B (0 = none).
func checkBuffer(res *result, who string, r subRec, c *evCtx, ix *pubIndex) map[int]int {
	lastIn := map[int]int{}
	if c.n == 0 && len(r.B) > 0 {
		res.violate("buffer-without-buffering", "%s: event registered with Buffer=0 but subscribe returned %s", who, seqsOf(r.B))
	}
	for i, m := range r.B {
		p, ok := m.Message.(EvP)
		if !ok {
			res.violate("buffer-bad-payload", "%s: element %d of the returned buffer holds %T (%v)", who, i, m.Message, m.Message)
			return lastIn
		}
		if m.Event != c.ev {
			res.violate("buffer-foreign-event", "%s: element %d of the returned buffer belongs to %s, subscribed to %s", who, i, m.Event, c.ev)
		}
		if p.Bad {
			res.violate("wrong-token-delivered", "%s: a publication made with a wrong token is in the returned buffer %s", who, seqsOf(r.B))
		}
		if prev, seen := lastIn[p.Pub]; seen && p.Seq != prev+1 {
			if p.Seq <= prev {
				res.violate("buffer-out-of-order", "%s: returned buffer %s is not in publication order", who, seqsOf(r.B))
			} else {
				res.violate("buffer-gap", "%s: returned buffer %s is not contiguous", who, seqsOf(r.B))
			}
		}
		lastIn[p.Pub] = p.Seq
		if ls := ix.lastStartedBefore(p.Pub, r.S1); p.Seq > ls {
			res.violate("buffer-from-future", "%s: returned buffer %s holds %d:%d but the last SendEvent begun before the call returned is %d", who, seqsOf(r.B), p.Pub, p.Seq, ls)
		}
	}
	if c.n > 0 && c.nPubs == 1 {
		// the most recent publication completed before the call began must be in B (or be followed in B).
		// Buffer=1 and B empty is the torn state of the flush-mode queue (the producer evicts, then links the
		// new item; a reader in between sees an empty queue although a message is buffered at every instant
		// of any sequential explanation): same root cause as the nil-value panic, same signature.
		lc := ix.lastCompletedBefore(0, r.S0)
		if lc > 0 && lastIn[0] < lc {
			if c.n == 1 && len(r.B) == 0 {
				emptyDuringEviction.Add(1)
				res.violate("subscribe-vs-publish-buffer-race", "%s: Buffer=1, publication %d had completed before the subscribe call began, yet the call returned an empty buffer (queue observed between the producer's eviction and insertion)", who, lc)
			} else {
				res.violate("buffer-stale", "%s: Buffer=%d, publication %d had completed before the subscribe call began, returned buffer is %s", who, c.n, lc, seqsOf(r.B))
			}
		}
	}
	return lastIn
}

// checkLive applies the oracle for the live deliveries of one subscription.
// l: every MessageEvent of c.ev this subscriber process received in its lifetime
// (the harness makes a process subscribe to one event at most once in these families).
// upper: publications completed before this logical time are still owed (unsubscribe start, death command, event end).
// fenced(p): the subscriber handled the fence of publisher p (remote) / is local (always true)
func checkLive(res *result, who string, remote bool, r subRec, l []rcv, c *evCtx, ix *pubIndex, lastIn map[int]int, upper int64, fenced func(p int) bool) (delivered int) {
	per := map[int][]int{}
	perT := map[int][]int64{}
	for _, m := range l {
		if m.P.Seq < 0 {
			res.violate("live-bad-payload", "%s: received event with payload %T", who, m.Raw)
			continue
		}
		if m.P.Bad {
			res.violate("wrong-token-delivered", "%s: received publication %d:%d that was sent with a wrong token", who, m.P.Pub, m.P.Seq)
			continue
		}
		if m.T < r.S0 {
			res.violate("delivered-before-subscribe", "%s: event %d:%d received before the subscribe call began", who, m.P.Pub, m.P.Seq)
		}
		per[m.P.Pub] = append(per[m.P.Pub], m.P.Seq)
		perT[m.P.Pub] = append(perT[m.P.Pub], m.T)
		delivered++
	}
	sfx := ""
	if remote {
		sfx = "-remote"
	}
	for p, s := range per {
		// exactly once, in publication order: over everything the process ever received
		for i := 1; i < len(s); i++ {
			switch {
			case s[i] == s[i-1]:
				res.violate("duplicate-delivery"+sfx, "%s: publication %d:%d delivered twice; live sequence %s", who, p, s[i], rcvSeqs(l, 40))
			case s[i] < s[i-1]:
				res.violate("out-of-order-delivery"+sfx, "%s: publication %d:%d delivered after %d:%d; live sequence %s", who, p, s[i], p, s[i-1], rcvSeqs(l, 40))
			}
			if len(res.viol) > 8 {
				break
			}
		}
		// where the owed stream starts: right behind the returned buffer
		start, have := 0, false
		if c.n > 0 {
			if lb, ok := lastIn[p]; ok {
				start, have = lb+1, true
			} else if c.nPubs == 1 && len(r.B) == 0 && c.n > 1 {
				start, have = 1, true // empty buffer: nothing had been published at the subscription point
			}
		}
		// the owed stream. Local: everything received. Remote: the subscriber's node fans an incoming
		// publication out to every local relation, so a remote subscriber also receives what the owner node
		// sent for ANOTHER subscriber of its node while its own subscription is not yet (or no longer)
		// known to the owner node; those deliveries are not owed and may have gaps. Owed: from `start`
		// (or the first delivery, when Buffer=0) up to the moment the unsubscribe call began.
		owed := s
		if remote {
			owed = nil
			from := start
			if !have {
				// nothing of this publisher was handed over: owed from its first publication begun after the call returned
				from = ix.firstStartedAfter(p, r.S1)
			}
			for i, q := range s {
				if from == 0 || q < from {
					continue
				}
				if r.UDone && perT[p][i] > r.U0 {
					continue
				}
				owed = append(owed, q)
			}
		}
		for i := 1; i < len(owed); i++ {
			if owed[i] > owed[i-1]+1 {
				res.violate("live-gap"+sfx, "%s: publications %d:%d..%d missing between two delivered ones (subscription established, not yet unsubscribing); live sequence %s", who, p, owed[i-1]+1, owed[i]-1, rcvSeqs(l, 40))
				break
			}
		}
		// no gap between the returned buffer and the first owed delivery
		if have && len(owed) > 0 && owed[0] > start {
			res.violate("subscribe-window-loss"+sfx, "%s: Buffer=%d, subscribe returned %s, first live delivery behind it is %d:%d: publications %d..%d were neither handed over nor delivered", who, c.n, seqsOf(r.B), p, owed[0], start, owed[0]-1)
		}
	}
	// every publication begun after the subscribe call returned (and completed before `upper`) is delivered
	for p, es := range ix.good {
		got := map[int]bool{}
		for _, q := range per[p] {
			got[q] = true
		}
		missing := []int{}
		for _, e := range es {
			if e.T0 > r.S1 && e.T1 < upper && e.Err == nil && !got[e.Seq] {
				missing = append(missing, e.Seq)
			}
		}
		if len(missing) == 0 {
			continue
		}
		if !fenced(p) {
			res.inconclusive(fmt.Sprintf("%s: fence of publisher %d not seen; %d publications not (yet) delivered", who, p, len(missing)))
			continue
		}
		if len(missing) > 10 {
			missing = missing[:10]
		}
		res.violate("lost-publication"+sfx, "%s: publications %d:%v began after the subscribe call returned and completed before unsubscription, never delivered; subscribe returned %s, live %s", who, p, missing, seqsOf(r.B), rcvSeqs(l, 40))
	}
	return delivered
}

// overlapped reports whether some publication overlapped the subscribe call
func overlapped(r subRec, ix *pubIndex) bool {
	for _, es := range ix.good {
		i := sort.Search(len(es), func(i int) bool { return es[i].T1 > r.S0 })
		if i < len(es) && es[i].T0 < r.S1 {
			return true
		}
	}
	return false
}

const inf = int64(math.MaxInt64)

var emptyDuringEviction atomic.Int64
