package main

import (
	"errors"
	"fmt"
	"sort"
	"strings"
	"sync/atomic"
	"time"

	"ergo.services/ergo/gen"

	"verif/harness/actors"
	"verif/harness/hk"
)

var errCustom = errors.New("c04 custom reason")

// dcase: one requester, one target, one request against one disappearance
type dcase struct {
	tk    string // pid name alias event metaalias
	mon   bool
	via   string // kill exit (owner process terminates) | unreg (owner unregisters) | unregnode (Node.UnregisterName) | metastop metahandler (meta process terminates)
	order string // CIXY CXIY CXYI XCY YCZ XYCI race   | for unrel: UXY XUY YUZ XYU race  (Z = the terminator goes on after the drain)
	unrel bool   // the request is the REMOVAL of an established relation
	// spell: how the requester writes the target: "" canonical, "atom" (gen.Atom through Link/Monitor(any)),
	// "emptynode" (gen.ProcessID / gen.Event with Node == "")
	spell string
	// second: another subscriber holds a link on the target already (the request is not the first one)
	second bool
}

var uniq atomic.Int64

func uname(prefix string) gen.Atom {
	return gen.Atom(fmt.Sprintf("%s_%d", prefix, uniq.Add(1)))
}

// yield point between the table delete and the relation drain, and its subject
func unregPoint(dc dcase, tgt any, owner gen.PID) (string, any) {
	switch dc.via {
	case "kill", "exit", "killbusy":
		switch dc.tk {
		case "pid":
			return "proc.unreg.deleted", tgt
		case "name":
			return "proc.unreg.name", tgt
		case "alias":
			return "proc.unreg.alias", tgt
		case "event":
			return "proc.unreg.event", tgt
		}
	case "unregnode":
		if dc.tk == "name" {
			return "node.unregname.deleted", owner
		}
	}
	return "", nil // no yield point there (explicit unregister by the owner, meta process)
}

// ticks of the four steps, measured: C link.checked hit, I tap insert, X unreg hook hit, Y tap drain
type steps struct {
	C, I, X, Y       atomic.Int64
	reqStart, reqEnd int64
}

func setOnce(a *atomic.Int64) {
	a.CompareAndSwap(0, hk.Tick())
}

func (s *steps) measured() string {
	type st struct {
		n string
		t int64
	}
	var l []st
	for _, x := range []st{{"C", s.C.Load()}, {"I", s.I.Load()}, {"X", s.X.Load()}, {"Y", s.Y.Load()}} {
		if x.t > 0 {
			l = append(l, x)
		}
	}
	sort.Slice(l, func(i, j int) bool { return l[i].t < l[j].t })
	var b strings.Builder
	for _, x := range l {
		b.WriteString(x.n)
	}
	return b.String()
}

func runPair(id, scenario string, dc dcase) {
	if !want(id) {
		return
	}
	nextCase()
	r := &result{}
	T, err1 := spawnObserver(id + "/target")
	R, err2 := spawnObserver(id + "/requester")
	if err1 != nil || err2 != nil {
		r.incon = "spawn failed"
		finish(id, scenario, id, false, 0, r, nil)
		return
	}
	all := []*obs{T, R}
	defer func() {
		node.Kill(T.pid)
		node.Kill(R.pid)
		T.stopMetas()
	}()
	fail := func(why string) {
		hk.StressOff()
		r.incon = why
		finish(id, scenario, id, false, 0, r, nil)
	}
	if !waitQuiet(all) {
		fail("watchdog: no initial quiescence")
		return
	}

	// the target object and how it is explicitly unregistered
	var tgt any
	var unreg cmd
	var name gen.Atom
	var mr *metaRec
	switch dc.tk {
	case "pid":
		tgt = T.pid
	case "name":
		name = uname("c04d")
		if rr, ok := do(T, cmd{Op: "regname", Name: name}); !ok || rr.Err != nil {
			fail(fmt.Sprint("setup regname: ", rr.Err))
			return
		}
		tgt = gen.ProcessID{Name: name, Node: node.Name()}
		unreg = cmd{Op: "unregname"}
	case "alias":
		rr, ok := do(T, cmd{Op: "mkalias"})
		if !ok || rr.Err != nil {
			fail(fmt.Sprint("setup mkalias: ", rr.Err))
			return
		}
		tgt = rr.Alias
		unreg = cmd{Op: "rmalias", Alias: rr.Alias}
	case "event":
		n := uname("c04d")
		name = n
		if dc.via == "unregnode" {
			// the node itself is the producer
			if _, err := node.RegisterEvent(n, gen.EventOptions{}); err != nil {
				fail(fmt.Sprint("setup node.RegisterEvent: ", err))
				return
			}
			defer node.UnregisterEvent(n)
		} else if rr, ok := do(T, cmd{Op: "regevent", Name: n}); !ok || rr.Err != nil {
			fail(fmt.Sprint("setup regevent: ", rr.Err))
			return
		}
		tgt = gen.Event{Name: n, Node: node.Name()}
		unreg = cmd{Op: "unregevent", Name: n}
	case "metaalias":
		var why string
		mr, why = spawnMetaOn(T, id+"/meta")
		if mr == nil {
			fail("setup spawnmeta: " + why)
			return
		}
		tgt = mr.alias
	}
	relOp, unrelOp := "link", "unlink"
	if dc.mon {
		relOp, unrelOp = "monitor", "demonitor"
	}
	reqTgt := spelled(tgt, dc.spell)
	if dc.unrel {
		if rr, ok := do(R, cmd{Op: relOp, Tgt: reqTgt}); !ok || rr.Err != nil {
			fail(fmt.Sprint("setup relation: ", rr.Err))
			return
		}
	}
	var S2 *obs
	if dc.second {
		var err error
		if S2, err = spawnObserver(id + "/other-subscriber"); err != nil {
			fail("spawn failed")
			return
		}
		all = append(all, S2)
		defer node.Kill(S2.pid)
		if rr, ok := do(S2, cmd{Op: "link", Tgt: tgt}); !ok || rr.Err != nil {
			fail(fmt.Sprint("setup other subscriber: ", rr.Err))
			return
		}
	}
	if !waitQuiet(all) {
		fail("watchdog: no quiescence after setup")
		return
	}
	R.newNotes()
	if S2 != nil {
		S2.newNotes()
	}
	tm.Reset()

	var wantReason error
	switch dc.via {
	case "kill", "killbusy":
		wantReason = gen.TerminateReasonKill
	case "exit", "metastop", "metahandler":
		wantReason = errCustom
	case "unreg", "unregnode":
		wantReason = gen.ErrUnregistered
	}
	point, subj := unregPoint(dc, tgt, T.pid)
	st := &steps{}
	cancelC := hk.Observe("link.checked", hk.Eq(tgt), func(string, any) { setOnce(&st.C) })
	defer cancelC()
	var tS atomic.Int64 // requester passed event.sub.added (relation inserted and re-checked, subscriber not yet counted)
	cancelS := hk.Observe("event.sub.added", hk.Eq(tgt), func(string, any) { setOnce(&tS) })
	defer cancelS()
	var tTermDone, tRelS int64
	if point != "" {
		cancelX := hk.Observe(point, hk.Eq(subj), func(string, any) { setOnce(&st.X) })
		defer cancelX()
	}

	op := relOp
	if dc.unrel {
		op = unrelOp
	}
	startReq := func() chan res {
		st.reqStart = hk.Tick()
		return doAsync(R, cmd{Op: op, Tgt: reqTgt})
	}
	var rres res
	endReq := func(ch chan res) bool {
		var ok bool
		rres, ok = waitRes(ch)
		st.reqEnd = hk.Tick()
		return ok
	}
	var unregCh chan res
	startTerm := func() {
		switch dc.via {
		case "kill":
			go node.Kill(T.pid)
		case "killbusy":
			// Kill while the target is inside a handler: it becomes a zombie and terminates when the handler returns
			b := cmd{Op: "block", Entered: make(chan struct{}), Release: make(chan struct{})}
			node.Send(T.pid, b)
			select {
			case <-b.Entered:
			case <-time.After(5 * time.Second):
			}
			node.Kill(T.pid)
			close(b.Release)
		case "exit":
			node.Send(T.pid, cmd{Op: "exit", Err: errCustom})
		case "unreg":
			unregCh = doAsync(T, unreg)
		case "unregnode":
			unregCh = make(chan res, 1)
			go func() {
				var err error
				if dc.tk == "event" {
					err = node.UnregisterEvent(name)
				} else {
					_, err = node.UnregisterName(name)
				}
				unregCh <- res{Err: err}
			}()
		case "metastop":
			mr.stop(errCustom)
		case "metahandler":
			node.Send(mr.alias, errCustom)
		}
	}
	termDone := func() bool {
		switch dc.via {
		case "unreg", "unregnode":
			rr, ok := waitRes(unregCh)
			return ok && rr.Err == nil
		case "metastop", "metahandler":
			mr.alive = false
			return hk.WaitUntil(10*time.Second, func() bool { return mr.gone() })
		}
		T.alive = false
		for _, m := range T.metas {
			m.alive = false
		}
		return hk.WaitUntil(10*time.Second, func() bool {
			if !gone(T) {
				return false
			}
			for _, m := range T.metas {
				if !m.gone() {
					return false
				}
			}
			return true
		})
	}

	var gR *hk.Gate
	var gT parker
	var tRelease int64
	// the terminator is parked between table delete and drain: at the yield point of /repo where there is one,
	// else at the entry of TargetManager.CleanupTarget (tap)
	parkTerm := func() parker {
		if point != "" {
			return hk.Park(point, hk.Eq(subj), false)
		}
		return tm.Park("drain.before", tgt)
	}
	termArrived := func(g parker, what string) bool {
		ok := g.WaitArrived(5 * time.Second)
		if ok && point == "" && what == "before" {
			setOnce(&st.X)
		}
		return ok
	}
	defer tm.dropGates()
	okSeq := true
	why := ""
	need := func(b bool, w string) bool {
		if !b && okSeq {
			okSeq = false
			why = w
		}
		return b
	}
	switch dc.order {
	case "CIXY", "UXY":
		need(endReq(startReq()), "watchdog: request did not return")
		startTerm()
		need(termDone(), "watchdog: terminator did not finish")
	case "CXIY":
		gR = hk.Park("link.checked", hk.Eq(tgt), false)
		gT = parkTerm()
		ch := startReq()
		if need(gR.WaitArrived(5*time.Second), "gate: requester never reached link.checked") {
			startTerm()
			need(termArrived(gT, "before"), "gate: terminator never reached the point between delete and drain")
		}
		gR.Release()
		need(endReq(ch), "watchdog: request did not return")
		gT.Release()
		if okSeq {
			need(termDone(), "watchdog: terminator did not finish")
		}
	case "CXYI":
		gR = hk.Park("link.checked", hk.Eq(tgt), false)
		ch := startReq()
		if need(gR.WaitArrived(5*time.Second), "gate: requester never reached link.checked") {
			startTerm()
			need(termDone(), "watchdog: terminator did not finish")
		}
		gR.Release()
		need(endReq(ch), "watchdog: request did not return")
	case "XCY", "XUY":
		gT = parkTerm()
		startTerm()
		if need(termArrived(gT, "before"), "gate: terminator never reached the point between delete and drain") {
			need(endReq(startReq()), "watchdog: request did not return")
		}
		gT.Release()
		if okSeq {
			need(termDone(), "watchdog: terminator did not finish")
		}
	case "CIsXYr":
		// the subscriber is parked at event.sub.added: relation inserted and re-checked, request not yet returned,
		// subscriber not yet counted; the event goes away completely; then the request returns
		gS := hk.Park("event.sub.added", hk.Eq(tgt), false)
		ch := startReq()
		if need(gS.WaitArrived(5*time.Second), "gate: subscriber never reached event.sub.added") {
			startTerm()
			need(termDone(), "watchdog: terminator did not finish")
			tTermDone = hk.Tick()
		}
		tRelS = hk.Tick()
		gS.Release()
		need(endReq(ch), "watchdog: request did not return")
		need(!gS.TimedOut(), "gate: released by deadline")
	case "CIsXrY":
		// as above, but the terminator is held between delete and drain until the request has returned
		gS := hk.Park("event.sub.added", hk.Eq(tgt), false)
		gT = parkTerm()
		ch := startReq()
		if need(gS.WaitArrived(5*time.Second), "gate: subscriber never reached event.sub.added") {
			startTerm()
			need(termArrived(gT, "before"), "gate: terminator never reached the point between delete and drain")
		}
		tRelS = hk.Tick()
		gS.Release()
		need(endReq(ch), "watchdog: request did not return")
		gT.Release()
		if okSeq {
			need(termDone(), "watchdog: terminator did not finish")
		}
		need(!gS.TimedOut(), "gate: released by deadline")
	case "YCZ", "YUZ":
		// the terminator is parked right after the drain returned, before it sends anything and goes on
		gT = tm.Park("drain.after", tgt)
		startTerm()
		if need(termArrived(gT, "after"), "gate: terminator never returned from the drain") {
			need(endReq(startReq()), "watchdog: request did not return")
		}
		tRelease = hk.Tick()
		gT.Release()
		if okSeq {
			need(termDone(), "watchdog: terminator did not finish")
		}
	case "XYCI", "XYU":
		startTerm()
		if need(termDone(), "watchdog: terminator did not finish") {
			need(endReq(startReq()), "watchdog: request did not return")
		}
	case "race":
		rng := hk.Rng("c04", id)
		maxSleep := time.Duration(20+rng.Intn(300)) * time.Microsecond
		probs := map[string]float64{
			"link.checked": 0.7, "proc.unreg.deleted": 0.5,
			"proc.run.wake": 0.1, "proc.run.enter": 0.2, "proc.run.term.err": 0.3, "proc.kill.term": 0.3, "proc.kill.zombie": 0.2,
			"meta.term": 0.5, "meta.start.term": 0.5, "meta.enter": 0.2, "event.sub.added": 0.6,
		}
		if point != "" {
			probs[point] = 0.7
		}
		hk.Stress(id, probs, maxSleep)
		first := rng.Intn(2)
		gap := time.Duration(rng.Intn(60)) * time.Microsecond
		var ch chan res
		if first == 0 {
			ch = startReq()
			spinWait(gap)
			startTerm()
		} else {
			startTerm()
			spinWait(gap)
			ch = startReq()
		}
		need(endReq(ch), "watchdog: request did not return")
		need(termDone(), "watchdog: terminator did not finish")
		hk.StressOff()
	}
	if gR != nil && gR.TimedOut() || gT != nil && gT.TimedOut() {
		need(false, "gate: released by deadline")
	}
	if !okSeq {
		if gR != nil {
			gR.Release()
		}
		if gT != nil {
			gT.Release()
		}
		fail(why)
		return
	}
	if !waitQuiet(all) {
		fail("watchdog: no quiescence")
		return
	}
	// ticks of insert (or removal) and drain from the tap
	if dc.unrel {
		if t := tm.first(func(e tapEv) bool { return (e.Op == "rmlink" || e.Op == "rmmon") && e.C == R.pid && canon(e.T) == tgt }); t > 0 {
			st.I.Store(t)
		}
	} else if t := tm.first(func(e tapEv) bool {
		return (e.Op == "addlink" || e.Op == "addmon") && e.C == R.pid && canon(e.T) == tgt && e.Err == nil
	}); t > 0 {
		st.I.Store(t)
	}
	if t := tm.first(func(e tapEv) bool { return e.Op == "drain" && e.T == tgt }); t > 0 {
		st.Y.Store(t)
	}
	C, I, X, Y := st.C.Load(), st.I.Load(), st.X.Load(), st.Y.Load()
	measured := st.measured()
	firstXY := Y
	if X > 0 {
		firstXY = X
	}
	intended := false
	switch dc.order {
	case "CIXY":
		// the request was over (relation inserted, or refused) before the target began to go away
		intended = Y > 0 && st.reqEnd < firstXY && (I > 0 || rres.Err != nil)
	case "CIsXYr":
		intended = I > 0 && tS.Load() > I && tTermDone > tS.Load() && tRelS > tTermDone
	case "CIsXrY":
		intended = I > 0 && tS.Load() > I && X > tS.Load() && st.reqEnd < Y
	case "CXIY":
		intended = C > 0 && X > C && I > X && Y > I
	case "CXYI":
		intended = C > 0 && firstXY > C && I > Y
	case "XCY":
		intended = X > 0 && X < st.reqStart && st.reqEnd < Y
	case "YCZ", "YUZ":
		intended = Y > 0 && Y < st.reqStart && st.reqEnd < tRelease
	case "XYCI", "XYU":
		intended = Y > 0 && Y < st.reqStart
	case "UXY":
		intended = Y > 0 && st.reqEnd < firstXY
	case "XUY":
		intended = X > 0 && X < st.reqStart && st.reqEnd < Y
	case "race":
		if dc.unrel {
			// the removal request overlapped the disappearance
			intended = Y > 0 && st.reqStart < Y && st.reqEnd > firstXY
		} else {
			// the check passed although the delete preceded the insert, or the request ran completely between delete and drain
			intended = (C > 0 && X > 0 && X < I) || (C > 0 && X == 0 && Y > 0 && Y < I) || (X > 0 && X < st.reqStart && st.reqEnd < Y)
		}
	}

	observed, _, _ := R.newNotes()
	var expected []note
	if dc.unrel {
		// removal succeeded => nothing; removal failed => the relation was not removed by the requester: still notified
		if rres.Err != nil {
			expected = []note{{dc.mon, tgt, wantReason}}
		}
	} else if rres.Err == nil {
		expected = []note{{dc.mon, tgt, wantReason}}
	}
	ctx := fmt.Sprintf("%s on %s written as %#v, target went away by %s, order %s, steps measured %q (I = tap %s), request returned %v", op, dc.tk, reqTgt, dc.via, dc.order, measured, map[bool]string{false: "insert", true: "removal"}[dc.unrel], rres.Err)
	matchNotes(r, "requester", expected, observed, ctx, func(n note) string {
		if !dc.unrel && I > 0 && Y > 0 && I > Y {
			// the relation was inserted after the drain had already run
			return "link-after-drain-lost/" + tkind(tgt)
		}
		return defaultMissSig(n)
	})
	if S2 != nil {
		// the other subscriber was there all the time: exactly one exit signal
		o2, _, _ := S2.newNotes()
		matchNotes(r, "other subscriber", []note{{false, tgt, wantReason}}, o2, ctx, defaultMissSig)
	}
	tkl := dc.tk
	if dc.spell != "" {
		tkl += "@" + dc.spell
	}
	if dc.second {
		tkl += "+second"
	}
	key := fmt.Sprintf("%s/%s/%s/%s/%s", scenario, tkl, op, dc.via, dc.order)
	if dc.order == "race" {
		key = fmt.Sprintf("%s/%s/%s/%s/%s/result-nil=%v", scenario, tkl, op, dc.via, measured, rres.Err == nil)
	}
	stat("pair_request_nil", b2i(rres.Err == nil))
	stat("pair_request_error", b2i(rres.Err != nil))
	detail := map[string]any{
		"target": fmt.Sprint(tgt), "written_as": fmt.Sprintf("%#v", reqTgt), "request": op, "via": dc.via, "order": dc.order, "measured": measured,
		"result": fmt.Sprint(rres.Err), "notifications": fmt.Sprint(observed), "ticks": map[string]int64{"C": C, "I": I, "S": tS.Load(), "X": X, "Y": Y, "req_start": st.reqStart, "req_end": st.reqEnd},
	}
	if len(r.viols) > 0 {
		detail["tap"] = tapStrings(tm.Log())
	}
	finish(id, scenario, key, intended, int64(len(observed))+1, r, detail)
}

// parker: hook gate or tap gate
type parker interface {
	WaitArrived(d time.Duration) bool
	Release()
	TimedOut() bool
}

func b2i(b bool) int64 {
	if b {
		return 1
	}
	return 0
}

func spinWait(d time.Duration) {
	if d <= 0 {
		return
	}
	t := time.Now()
	for time.Since(t) < d {
	}
}

// ---------------------------------------------------------------------------
// DeleteAlias bookkeeping: the owner creates n aliases, deletes one, terminates;
// a watcher of another alias must be told
func runDeleteAlias(id, scenario string, n, del, watch int, mon bool, via string) {
	if !want(id) {
		return
	}
	nextCase()
	r := &result{}
	T, err1 := spawnObserver(id + "/owner")
	R, err2 := spawnObserver(id + "/watcher")
	if err1 != nil || err2 != nil {
		return
	}
	defer func() {
		node.Kill(T.pid)
		node.Kill(R.pid)
	}()
	all := []*obs{T, R}
	fail := func(why string) {
		r.incon = why
		finish(id, scenario, id, false, 0, r, nil)
	}
	tm.Reset()
	var al []gen.Alias
	for i := 0; i < n; i++ {
		rr, ok := do(T, cmd{Op: "mkalias"})
		if !ok || rr.Err != nil {
			fail("setup mkalias")
			return
		}
		al = append(al, rr.Alias)
	}
	op := relOps[b2i(mon)]
	if rr, ok := do(R, cmd{Op: op, Tgt: al[watch]}); !ok || rr.Err != nil {
		fail(fmt.Sprint("setup relation: ", rr.Err))
		return
	}
	if rr, ok := do(T, cmd{Op: "rmalias", Alias: al[del]}); !ok || rr.Err != nil {
		fail(fmt.Sprint("setup rmalias: ", rr.Err))
		return
	}
	if !waitQuiet(all) {
		fail("watchdog: no quiescence after setup")
		return
	}
	pre, _, _ := R.newNotes()
	wantReason := gen.TerminateReasonKill
	if via == "kill" {
		node.Kill(T.pid)
	} else {
		wantReason = errCustom
		node.Send(T.pid, cmd{Op: "exit", Err: errCustom})
	}
	T.alive = false
	if !waitQuiet(all) {
		fail("watchdog: no quiescence")
		return
	}
	observed, _, _ := R.newNotes()
	ctx := fmt.Sprintf("owner created %d aliases, deleted #%d, terminated by %s; watcher holds a %s on alias #%d", n, del, via, op, watch)
	matchNotes(r, "watcher", nil, pre, ctx+" (before the termination)", defaultMissSig)
	// witness from the tap: the deleted alias is drained again at termination, the watched one never
	drainsDel, drainsWatch := 0, 0
	for _, e := range tm.Log() {
		if e.Op == "drain" && e.T == al[del] {
			drainsDel++
		}
		if e.Op == "drain" && e.T == al[watch] {
			drainsWatch++
		}
	}
	matchNotes(r, "watcher", []note{{mon, al[watch], wantReason}}, observed, ctx, func(nn note) string {
		if del > 0 && drainsDel >= 2 && drainsWatch == 0 {
			return "delete-alias-wrong-element"
		}
		return defaultMissSig(nn)
	})
	// witness: is the alias still registered although its owner is gone?
	detail := map[string]any{"aliases": fmt.Sprint(al), "deleted_index": del, "watched_index": watch, "notifications": fmt.Sprint(observed)}
	if len(r.viols) > 0 {
		rr, _ := do(R, cmd{Op: relOps[1-b2i(mon)], Tgt: al[watch]})
		detail["other_relation_request_on_the_alias_after_owner_termination"] = fmt.Sprint(rr.Err)
		detail["tap"] = tapStrings(tm.Log())
	}
	key := fmt.Sprintf("%s/n=%d/del=%d/watch=%d/%s/%s", scenario, n, del, watch, op, via)
	finish(id, scenario, key, true, int64(len(observed))+int64(n)+2, r, detail)
}

// ---------------------------------------------------------------------------
// LinkChild / LinkParent around spawn

// mode: "before" = child terminates while the parent is parked between spawn and AddLink(parent, child)
//
//	"after"  = child terminates after Spawn returned
//	"race"   = child terminates by itself right after the spawn, seeded delays only
func runLinkChild(id, scenario, mode, via string, register bool) {
	if !want(id) {
		return
	}
	nextCase()
	r := &result{}
	P, err := spawnObserver(id + "/parent")
	if err != nil {
		return
	}
	defer node.Kill(P.pid)
	fail := func(why string) {
		hk.StressOff()
		r.incon = why
		finish(id, scenario, id, false, 0, r, nil)
	}
	waitQuiet([]*obs{P})
	tm.Reset()
	f, cinst := actors.NewProbe(id+"/child", observerHooks())
	child := &obs{label: id + "/child", inst: cinst, alive: true}
	var args []any
	wantReason := gen.TerminateReasonKill
	if via != "kill" {
		wantReason = errCustom
	}
	if via == "self" {
		args = []any{cmd{Op: "exit", Err: errCustom}}
	}
	var tLinkPoint atomic.Int64
	var cpid atomic.Value
	cancel := hk.Observe("proc.spawn.linked", nil, func(_ string, s any) {
		if tLinkPoint.CompareAndSwap(0, hk.Tick()) {
			cpid.Store(s)
		}
	})
	defer cancel()
	terminate := func() {
		switch via {
		case "kill":
			node.Kill(child.pid)
		case "exit":
			node.Send(child.pid, cmd{Op: "exit", Err: errCustom})
		}
	}
	var sres res
	ok := true
	var g *hk.Gate
	// the Init args of the child travel with the spawn command
	doSpawn := func() chan res {
		c := cmd{Op: "spawn", Factory: f, PO: gen.ProcessOptions{LinkChild: true}, Done: make(chan res, 1)}
		if register {
			c.Name = uname("c04c")
		}
		node.Send(P.pid, spawnArgs{c, args})
		return c.Done
	}
	switch mode {
	case "before":
		g = hk.Park("proc.spawn.linked", nil, false)
		ch := doSpawn()
		if !g.WaitArrived(5 * time.Second) {
			g.Release()
			fail("gate: parent never reached proc.spawn.linked")
			return
		}
		child.pid = cpid.Load().(gen.PID)
		terminate()
		child.alive = false
		if !hk.WaitUntil(10*time.Second, func() bool { return gone(child) }) {
			g.Release()
			fail("watchdog: child did not terminate")
			return
		}
		g.Release()
		sres, ok = waitRes(ch)
	case "after":
		sres, ok = waitRes(doSpawn())
		if ok && sres.Err == nil {
			child.pid = sres.PID
			waitQuiet([]*obs{P, child})
			terminate()
			child.alive = false
		}
	case "race":
		rng := hk.Rng("c04", id)
		hk.Stress(id, map[string]float64{"proc.spawn.linked": 0.8, "proc.unreg.deleted": 0.5, "proc.run.enter": 0.3, "proc.run.term.err": 0.3, "proc.run.wake": 0.1},
			time.Duration(20+rng.Intn(300))*time.Microsecond)
		sres, ok = waitRes(doSpawn())
		if ok && sres.Err == nil {
			child.pid = sres.PID
			child.alive = false
		}
	}
	if g != nil && g.TimedOut() {
		fail("gate: released by deadline")
		return
	}
	if !ok {
		fail("watchdog: spawn did not return")
		return
	}
	if sres.Err != nil {
		// spawn failed: nothing is promised, nothing may arrive
		child.alive = false
	}
	ps := []*obs{P}
	if sres.Err == nil {
		ps = append(ps, child)
	}
	quiet := waitQuiet(ps)
	hk.StressOff()
	if !quiet {
		fail("watchdog: no quiescence")
		return
	}
	tI := tm.first(func(e tapEv) bool { return e.Op == "addlink" && e.C == P.pid && e.T == child.pid && e.Err == nil })
	tY := tm.first(func(e tapEv) bool { return e.Op == "drain" && e.T == child.pid })
	observed, _, _ := P.newNotes()
	var expected []note
	if sres.Err == nil {
		expected = []note{{false, child.pid, wantReason}}
	}
	ctx := fmt.Sprintf("Spawn with LinkChild returned %v, child terminated by %s, insert@%d drain@%d", sres.Err, via, tI, tY)
	matchNotes(r, "parent", expected, observed, ctx, func(n note) string {
		if tI > tY && tY > 0 {
			return "linkchild-after-child-exit-lost"
		}
		return defaultMissSig(n)
	})
	nontrivial := false
	switch mode {
	case "before":
		// the child was gone before the parent left proc.spawn.linked
		nontrivial = tY > 0 && tLinkPoint.Load() > 0 && sres.Err == nil
	case "after":
		nontrivial = tI > 0 && tY > tI
	case "race":
		nontrivial = tY > 0 && tI > tY // the child was gone before the link was inserted
	}
	key := fmt.Sprintf("%s/%s/%s/register=%v", scenario, mode, via, register)
	if mode == "race" {
		key = fmt.Sprintf("%s/%s/%s/register=%v/insert-after-drain=%v", scenario, mode, via, register, tI > tY && tY > 0)
	}
	detail := map[string]any{"mode": mode, "via": via, "spawn_result": fmt.Sprint(sres.Err), "child": fmt.Sprint(child.pid),
		"notifications": fmt.Sprint(observed), "ticks": map[string]int64{"insert": tI, "drain": tY, "spawn_linked_point": tLinkPoint.Load()}}
	if len(r.viols) > 0 {
		detail["tap"] = tapStrings(tm.Log())
	}
	finish(id, scenario, key, nontrivial, int64(len(observed))+1, r, detail)
}

// spawnArgs: spawn command with Init arguments for the child
type spawnArgs struct {
	C    cmd
	Args []any
}

// LinkParent: the child is linked to the parent at spawn; the parent goes away
// => the child gets the exit signal (not trappable from the parent: observed as
// its terminate reason)
func runLinkParent(id, scenario, via string, unlinkFirst bool) {
	if !want(id) {
		return
	}
	nextCase()
	r := &result{}
	P, err := spawnObserver(id + "/parent")
	if err != nil {
		return
	}
	defer node.Kill(P.pid)
	waitQuiet([]*obs{P})
	tm.Reset()
	f, cinst := actors.NewProbe(id+"/child", observerHooks())
	child := &obs{label: id + "/child", inst: cinst, alive: true}
	defer func() { node.Kill(child.pid) }()
	c := cmd{Op: "spawn", Factory: f, PO: gen.ProcessOptions{LinkParent: true}, Done: make(chan res, 1)}
	node.Send(P.pid, spawnArgs{C: c})
	sres, ok := waitRes(c.Done)
	if !ok || sres.Err != nil {
		r.incon = fmt.Sprint("spawn: ", sres.Err)
		finish(id, scenario, id, false, 0, r, nil)
		return
	}
	child.pid = sres.PID
	waitQuiet([]*obs{P, child})
	removed := false
	if unlinkFirst {
		rr, ok := do(child, cmd{Op: "unlink", Tgt: P.pid})
		removed = ok && rr.Err == nil
	}
	wantReason := gen.TerminateReasonKill
	if via == "kill" {
		node.Kill(P.pid)
	} else {
		wantReason = errCustom
		node.Send(P.pid, cmd{Op: "exit", Err: errCustom})
	}
	P.alive = false
	child.alive = removed
	child.maybe = !removed
	if !waitQuiet([]*obs{P, child}) {
		r.incon = "watchdog: no quiescence"
	} else if !removed && !isGone(child) {
		// quiescent: parent gone, child idle with an empty mailbox = the exit signal does not exist
		r.add("missing-notification/link/pid", "child spawned with LinkParent never got the exit signal of its parent %v (reason %v); it is idle with an empty mailbox", P.pid, wantReason)
		child.alive = true
	}
	child.maybe = false
	notes, term, terminated := child.newNotes()
	if len(r.viols) == 0 && r.incon == "" {
		if removed {
			if terminated || len(notes) > 0 {
				r.add("spurious-notification/link/pid", "child removed the LinkParent link before the parent went away but got %v / terminated with %v", notes, term)
			}
		} else {
			if !terminated {
				r.add("missing-notification/link/pid", "child spawned with LinkParent did not terminate with its parent")
			} else if !reasonOK(wantReason, term) {
				r.add("wrong-reason/link/pid", "child terminated with %q, parent went away with %q", term, wantReason)
			}
			if len(notes) > 0 {
				r.add("duplicate-notification/link/pid", "child got %v besides terminating on the parent's exit signal", notes)
			}
		}
	}
	key := fmt.Sprintf("%s/%s/unlink-first=%v", scenario, via, unlinkFirst)
	finish(id, scenario, key, (terminated && !removed) || (removed && unlinkFirst), 2, r,
		map[string]any{"via": via, "unlink_first": unlinkFirst, "child_terminate_reason": fmt.Sprint(term), "notes": fmt.Sprint(notes)})
}

// ---------------------------------------------------------------------------
// a process spawns children inside its Init (neither / LinkChild / LinkParent / both) and then its Init fails:
// the process goes away before it was ever registered. Every child that holds a link on it (LinkParent) must
// get exactly one exit signal carrying the init error; a child without any link nothing. A LinkChild-only
// child holds no relation itself (its parent holds one on it): whether the framework stops it is not judged.
func runInitFail(id, scenario, fpo, mode string) {
	if !want(id) {
		return
	}
	nextCase()
	r := &result{}
	P, err := spawnObserver(id + "/spawner")
	if err != nil {
		return
	}
	defer node.Kill(P.pid)
	waitQuiet([]*obs{P})
	tm.Reset()
	plan := &initPlan{}
	var initErr error
	switch mode {
	case "error":
		plan.Fail = errCustom
		initErr = errCustom
	case "wrapped":
		plan.Fail = fmt.Errorf("c04 init wrapper: %w", errCustom)
		initErr = plan.Fail
	case "panic":
		plan.Panic = true
		initErr = gen.TerminateReasonPanic
	}
	for _, v := range [][2]bool{{false, false}, {true, false}, {false, true}, {true, true}} {
		plan.Children = append(plan.Children, newChildSpec(fmt.Sprintf("%s/child-lc%v-lp%v", id, v[0], v[1]), v[0], v[1]))
	}
	ff, _ := actors.NewProbe(id+"/failing", observerHooks())
	sres, ok := doSpawn(P, cmd{Factory: ff, PO: gen.ProcessOptions{LinkChild: fpo == "linkchild" || fpo == "both", LinkParent: fpo == "linkparent" || fpo == "both"}}, plan)
	if !ok || sres.Err == nil {
		r.incon = fmt.Sprintf("setup: spawn of the failing process returned %v (ok=%v)", sres.Err, ok)
		finish(id, scenario, id, false, 0, r, nil)
		return
	}
	ps := []*obs{P}
	var kids []*obs
	for _, cs := range plan.Children {
		if cs.Err != nil {
			r.incon = fmt.Sprint("setup: child spawn inside Init: ", cs.Err)
			finish(id, scenario, id, false, 0, r, nil)
			return
		}
		o := &obs{label: cs.Inst.Label, pid: cs.PID, inst: cs.Inst, parent: -2}
		switch cs.linkKind() {
		case "neither":
			o.alive = true
		default:
			o.alive, o.maybe = false, true // gone, or idle for ever (structural witness); judged below
		}
		kids = append(kids, o)
		ps = append(ps, o)
		defer node.Kill(o.pid)
	}
	if !waitQuiet(ps) {
		r.incon = "watchdog: no quiescence"
		finish(id, scenario, id, false, 0, r, nil)
		return
	}
	var events int64
	judged := 0
	det := map[string]any{"failing_process_options": fpo, "init": mode, "spawn_result": fmt.Sprint(sres.Err)}
	for i, cs := range plan.Children {
		o := kids[i]
		notes, term, terminated := o.newNotes()
		events += int64(len(notes)) + 1
		kind := cs.linkKind()
		det["child_"+kind] = fmt.Sprintf("terminated=%v reason=%v notes=%v", terminated, term, notes)
		ctx := fmt.Sprintf("child spawned inside Init with %s, parent's Init failed with %q", kind, initErr)
		switch kind {
		case "linkparent", "both":
			judged++
			switch {
			case !terminated && !isGone(o):
				r.add("missing-notification/link/pid", "%s: the child holds a link on the parent and never got the exit signal (it is idle with an empty mailbox)", ctx)
			case !reasonOK(initErr, term):
				r.add("wrong-reason/link/pid", "%s: the child terminated with %q", ctx, term)
			}
			if len(notes) > 0 {
				r.add("duplicate-notification/link/pid", "%s: the child also got %v", ctx, notes)
			}
		case "neither":
			judged++
			if terminated || isGone(o) || len(notes) > 0 {
				r.add("spurious-notification/link/pid", "%s: the child holds no relation but got %v / terminated with %v", ctx, notes, term)
			}
		case "linkchild":
			// not a relation of the child: not judged, except that it must not be told twice
			if len(notes) > 0 {
				r.add("spurious-notification/link/pid", "%s: the child got trappable notifications %v", ctx, notes)
			}
		}
	}
	pn, _, pterm := P.newNotes()
	if len(pn) > 0 || pterm {
		r.add("spurious-notification/link/pid", "the spawner's Spawn returned %v (nothing was created for it) but it got %v / terminated=%v", sres.Err, pn, pterm)
	}
	if len(r.viols) > 0 {
		det["tap"] = tapStrings(tm.Log())
	}
	finish(id, scenario, fmt.Sprintf("%s/%s/%s", scenario, fpo, mode), judged == 3, events, r, det)
}

// vias and orders per target kind
func viasOf(tk string) []string {
	switch tk {
	case "pid":
		return []string{"kill", "exit", "killbusy"}
	case "name":
		return []string{"kill", "exit", "unreg", "unregnode"}
	case "metaalias":
		return []string{"kill", "exit", "metastop", "metahandler"}
	case "event":
		return []string{"kill", "exit", "unreg", "unregnode"}
	}
	return []string{"kill", "exit", "unreg"}
}

var targetKinds = []string{"pid", "name", "alias", "event", "metaalias"}

func runDirectedAll() {
	for _, tk := range targetKinds {
		for _, mon := range []bool{false, true} {
			for _, via := range viasOf(tk) {
				orders := []string{"CIXY", "CXIY", "CXYI", "XCY", "YCZ", "XYCI"}
				uorders := []string{"UXY", "XUY", "YUZ", "XYU"}
				for _, o := range orders {
					runPair(fmt.Sprintf("D/%s/%s/%s/%s", tk, relname(mon), via, o), "directed", dcase{tk: tk, mon: mon, via: via, order: o})
				}
				for _, o := range uorders {
					runPair(fmt.Sprintf("D/%s/un%s/%s/%s", tk, relname(mon), via, o), "directed-removal", dcase{tk: tk, mon: mon, via: via, order: o, unrel: true})
				}
			}
		}
	}
	// spellings of the target: every request that returns nil must be notified, however the target was written
	for _, sp := range []struct{ tk, spell string }{{"name", "atom"}, {"name", "emptynode"}, {"event", "emptynode"}} {
		for _, mon := range []bool{false, true} {
			for _, via := range viasOf(sp.tk) {
				orders := []string{"CIXY", "CXIY", "CXYI", "XCY", "YCZ", "XYCI"}
				uorders := []string{"UXY", "XUY", "XYU"}
				if sp.tk == "name" && sp.spell == "emptynode" {
					// not a local spelling for the router: the request is expected to fail; nothing to gate
					orders, uorders = []string{"CIXY", "XYCI"}, nil
				}
				for _, o := range orders {
					runPair(fmt.Sprintf("D/%s@%s/%s/%s/%s", sp.tk, sp.spell, relname(mon), via, o), "directed-spelling", dcase{tk: sp.tk, mon: mon, via: via, order: o, spell: sp.spell})
				}
				for _, o := range uorders {
					runPair(fmt.Sprintf("D/%s@%s/un%s/%s/%s", sp.tk, sp.spell, relname(mon), via, o), "directed-spelling", dcase{tk: sp.tk, mon: mon, via: via, order: o, spell: sp.spell, unrel: true})
				}
			}
		}
	}
	// event subscription: the subscriber parked after insert + re-check (event.sub.added), before it is counted
	for _, mon := range []bool{false, true} {
		for _, via := range viasOf("event") {
			for _, second := range []bool{false, true} {
				for _, sp := range []string{"", "emptynode"} {
					for _, o := range []string{"CIsXYr", "CIsXrY"} {
						id := fmt.Sprintf("D/event-sub/%s/%s/%s/%s", relname(mon), via, map[bool]string{false: "first", true: "second"}[second], o)
						if sp != "" {
							id += "@" + sp
						}
						runPair(id, "directed-event-sub", dcase{tk: "event", mon: mon, via: via, order: o, second: second, spell: sp})
					}
				}
			}
		}
	}
	for _, via := range []string{"kill", "exit"} {
		for _, mon := range []bool{false, true} {
			for _, c := range [][3]int{{2, 0, 1}, {2, 1, 0}, {3, 1, 0}, {3, 1, 2}, {3, 2, 0}, {3, 2, 1}, {3, 0, 2}} {
				runDeleteAlias(fmt.Sprintf("D/delete-alias/n%d-del%d-watch%d/%s/%s", c[0], c[1], c[2], relname(mon), via), "directed-delete-alias", c[0], c[1], c[2], mon, via)
			}
		}
	}
	for _, via := range []string{"kill", "exit", "self"} {
		for _, reg := range []bool{false, true} {
			sfx := map[bool]string{false: "", true: "/spawnregister"}[reg]
			runLinkChild("D/linkchild/before/"+via+sfx, "directed-linkchild", "before", via, reg)
			if via != "self" {
				runLinkChild("D/linkchild/after/"+via+sfx, "directed-linkchild", "after", via, reg)
			}
		}
	}
	for _, fpo := range []string{"none", "linkchild", "linkparent", "both"} {
		for _, mode := range []string{"error", "wrapped", "panic"} {
			runInitFail(fmt.Sprintf("D/initfail/%s/%s", fpo, mode), "directed-initfail", fpo, mode)
		}
	}
	for _, via := range []string{"kill", "exit"} {
		runLinkParent("D/linkparent/"+via, "directed-linkparent", via, false)
		runLinkParent("D/linkparent/"+via+"/unlinked", "directed-linkparent", via, true)
	}
}

func runRacesAll() {
	n := hk.Pick(40, 400)
	for _, tk := range targetKinds {
		for _, mon := range []bool{false, true} {
			for _, via := range viasOf(tk) {
				for k := 0; k < n; k++ {
					runPair(fmt.Sprintf("R/%s/%s/%s/%d", tk, relname(mon), via, k), "race", dcase{tk: tk, mon: mon, via: via, order: "race"})
				}
				for k := 0; k < n/2; k++ {
					runPair(fmt.Sprintf("R/%s/un%s/%s/%d", tk, relname(mon), via, k), "race-removal", dcase{tk: tk, mon: mon, via: via, order: "race", unrel: true})
				}
			}
		}
	}
	for _, sp := range []struct{ tk, spell string }{{"name", "atom"}, {"name", "emptynode"}, {"event", "emptynode"}} {
		for _, mon := range []bool{false, true} {
			for _, via := range viasOf(sp.tk) {
				for k := 0; k < n/4; k++ {
					runPair(fmt.Sprintf("R/%s@%s/%s/%s/%d", sp.tk, sp.spell, relname(mon), via, k), "race", dcase{tk: sp.tk, mon: mon, via: via, order: "race", spell: sp.spell})
				}
			}
		}
	}
	for _, mon := range []bool{false, true} {
		for _, via := range viasOf("event") {
			for k := 0; k < n/2; k++ {
				runPair(fmt.Sprintf("R/event-sub/%s/%s/second/%d", relname(mon), via, k), "race", dcase{tk: "event", mon: mon, via: via, order: "race", second: true})
			}
		}
	}
	for k := 0; k < hk.Pick(150, 2000); k++ {
		runLinkChild(fmt.Sprintf("R/linkchild/self/%d", k), "race-linkchild", "race", "self", k%2 == 1)
	}
	for k := 0; k < hk.Pick(300, 6000); k++ {
		runFan(fmt.Sprintf("F/%d", k), "race-fan")
	}
}

// ---------------------------------------------------------------------------
// F: several requesters, every target kind of one owner, one termination, all
// concurrent under seeded delays. Verdict per requester, per the statement:
// request returned nil => exactly one notification, error => none.
func runFan(id, scenario string) {
	if !want(id) {
		return
	}
	nextCase()
	rng := hk.Rng("c04", id)
	r := &result{}
	T, err := spawnObserver(id + "/owner")
	if err != nil {
		return
	}
	all := []*obs{T}
	defer func() {
		for _, o := range all {
			node.Kill(o.pid)
		}
		T.stopMetas()
	}()
	fail := func(why string) {
		hk.StressOff()
		r.incon = why
		finish(id, scenario, id, false, 0, r, nil)
	}
	// targets of the owner
	var targets []any
	targets = append(targets, T.pid)
	name := uname("c04f")
	if rr, ok := do(T, cmd{Op: "regname", Name: name}); ok && rr.Err == nil {
		targets = append(targets, gen.ProcessID{Name: name, Node: node.Name()})
	}
	for i := 0; i < 2; i++ {
		if rr, ok := do(T, cmd{Op: "mkalias"}); ok && rr.Err == nil {
			targets = append(targets, rr.Alias)
		}
	}
	ev := uname("c04f")
	if rr, ok := do(T, cmd{Op: "regevent", Name: ev}); ok && rr.Err == nil {
		targets = append(targets, gen.Event{Name: ev, Node: node.Name()})
	}
	if mr, _ := spawnMetaOn(T, id+"/meta"); mr != nil {
		targets = append(targets, mr.alias)
	}
	nreq := 3 + rng.Intn(6)
	type reqst struct {
		o       *obs
		tgt     any
		wr      any // the target as the requester writes it
		mon     bool
		pre     bool // relation established before the race; the raced request is its removal
		ch      chan res
		res     res
		started int64
		ended   int64
	}
	var reqs []*reqst
	for i := 0; i < nreq; i++ {
		o, err := spawnObserver(fmt.Sprintf("%s/req%d", id, i))
		if err != nil {
			fail("spawn failed")
			return
		}
		all = append(all, o)
		q := &reqst{o: o, tgt: targets[rng.Intn(len(targets))], mon: rng.Intn(2) == 0, pre: rng.Intn(4) == 0}
		q.wr = q.tgt
		if !q.pre {
			q.wr = spelled(q.tgt, []string{"", "", "atom", "emptynode"}[rng.Intn(4)])
		}
		reqs = append(reqs, q)
	}
	for _, q := range reqs {
		if q.pre {
			if rr, ok := do(q.o, cmd{Op: relOps[b2i(q.mon)], Tgt: q.tgt}); !ok || rr.Err != nil {
				fail(fmt.Sprint("setup relation: ", rr.Err))
				return
			}
		}
	}
	if !waitQuiet(all) {
		fail("watchdog: no quiescence after setup")
		return
	}
	for _, q := range reqs {
		q.o.newNotes()
	}
	tm.Reset()
	via := []string{"kill", "exit"}[rng.Intn(2)]
	wantReason := gen.TerminateReasonKill
	if via == "exit" {
		wantReason = errCustom
	}
	hk.Stress(id, map[string]float64{
		"link.checked": 0.6, "event.sub.added": 0.5, "proc.unreg.deleted": 0.6, "proc.unreg.name": 0.6, "proc.unreg.alias": 0.6, "proc.unreg.event": 0.6,
		"proc.run.wake": 0.1, "proc.run.enter": 0.2, "proc.run.term.err": 0.3, "proc.kill.term": 0.3, "meta.term": 0.5, "meta.enter": 0.2, "meta.wake": 0.2,
	}, time.Duration(20+rng.Intn(200))*time.Microsecond)
	termAt := rng.Intn(nreq + 1)
	terminate := func() {
		if via == "kill" {
			go node.Kill(T.pid)
		} else {
			node.Send(T.pid, cmd{Op: "exit", Err: errCustom})
		}
	}
	for i, q := range reqs {
		if i == termAt {
			terminate()
		}
		op := relOps[b2i(q.mon)]
		if q.pre {
			op = []string{"unlink", "demonitor"}[b2i(q.mon)]
		}
		q.started = hk.Tick()
		q.ch = doAsync(q.o, cmd{Op: op, Tgt: q.wr})
		spinWait(time.Duration(rng.Intn(30)) * time.Microsecond)
	}
	if termAt == nreq {
		terminate()
	}
	ok := true
	for _, q := range reqs {
		var k bool
		q.res, k = waitRes(q.ch)
		q.ended = hk.Tick()
		ok = ok && k
	}
	T.alive = false
	for _, m := range T.metas {
		m.alive = false
	}
	quiet := ok && waitQuiet(all)
	hk.StressOff()
	if !quiet {
		fail("watchdog: no quiescence")
		return
	}
	var events int64
	overlapped := 0
	nilres := 0
	for i, q := range reqs {
		observed, _, _ := q.o.newNotes()
		events += int64(len(observed)) + 1
		var expected []note
		notify := q.res.Err == nil
		if q.pre {
			notify = q.res.Err != nil
		}
		if notify {
			expected = []note{{q.mon, q.tgt, wantReason}}
		}
		tY := tm.first(func(e tapEv) bool { return e.Op == "drain" && e.T == q.tgt })
		tI := tm.first(func(e tapEv) bool {
			return (e.Op == "addlink" || e.Op == "addmon") && e.C == q.o.pid && canon(e.T) == q.tgt && e.Err == nil
		})
		if q.started < tY && q.ended > tY {
			overlapped++
		}
		if q.res.Err == nil {
			nilres++
		}
		ctx := fmt.Sprintf("requester %d: %s (pre-established=%v) on %s %#v returned %v; owner terminated by %s; insert@%d drain@%d", i, relname(q.mon), q.pre, tkind(q.tgt), q.wr, q.res.Err, via, tI, tY)
		matchNotes(r, fmt.Sprintf("requester %d", i), expected, observed, ctx, func(n note) string {
			if !q.pre && tI > tY && tY > 0 {
				return "link-after-drain-lost/" + tkind(q.tgt)
			}
			return defaultMissSig(n)
		})
	}
	key := fmt.Sprintf("%s/%s/requests=%d/overlapping-the-drain=%d/nil=%d", scenario, via, nreq, overlapped, nilres)
	detail := map[string]any{"requesters": nreq, "via": via, "overlapping": overlapped, "nil_results": nilres}
	if len(r.viols) > 0 {
		detail["tap"] = tapStrings(tm.Log())
	}
	finish(id, scenario, key, overlapped > 0, events, r, detail)
}
