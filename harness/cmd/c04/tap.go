package main

import (
	"fmt"
	"sync"
	"sync/atomic"
	"time"

	"ergo.services/ergo/gen"

	"verif/harness/hk"
)

// tap wraps the default gen.TargetManager (passed through
// NodeOptions.TargetManager) and records every mutation with the logical
// clock. It is the witness of the insert / drain order; verdicts are taken
// from the notifications only.
type tap struct {
	in gen.TargetManager
	mu sync.Mutex
	on bool
	ev []tapEv

	gmu    sync.Mutex
	tgates []*tgate
	ngates atomic.Int32
}

// tgate parks the goroutine that drains the relations of one target, either
// right before the drain (position "drain.before": the table delete has
// happened if the code is right) or right after it ("drain.after"). Like the
// hook gates it only delays and has a release deadline.
type tgate struct {
	pos      string
	target   any
	arrived  chan struct{}
	release  chan struct{}
	used     atomic.Bool
	timedOut atomic.Bool
	relOnce  sync.Once
}

func (t *tap) Park(pos string, target any) *tgate {
	g := &tgate{pos: pos, target: target, arrived: make(chan struct{}), release: make(chan struct{})}
	t.gmu.Lock()
	t.tgates = append(t.tgates, g)
	t.gmu.Unlock()
	t.ngates.Add(1)
	return g
}

func (g *tgate) WaitArrived(d time.Duration) bool {
	select {
	case <-g.arrived:
		return true
	case <-time.After(d):
		return false
	}
}

func (g *tgate) Release()       { g.relOnce.Do(func() { close(g.release) }) }
func (g *tgate) TimedOut() bool { return g.timedOut.Load() }

func (t *tap) at(pos string, target any) {
	if t.ngates.Load() == 0 {
		return
	}
	t.gmu.Lock()
	var hit *tgate
	for _, g := range t.tgates {
		if g.pos == pos && g.target == target && !g.used.Load() {
			hit = g
			break
		}
	}
	t.gmu.Unlock()
	if hit == nil || hit.used.Swap(true) {
		return
	}
	close(hit.arrived)
	select {
	case <-hit.release:
	case <-time.After(3 * time.Second):
		hit.timedOut.Store(true)
	}
}

// dropGates removes all gates (end of a case)
func (t *tap) dropGates() {
	t.gmu.Lock()
	for _, g := range t.tgates {
		g.Release()
	}
	t.tgates = nil
	t.gmu.Unlock()
	t.ngates.Store(0)
}

type tapEv struct {
	L    int64
	Op   string // addlink addmon rmlink rmmon drain cleanconsumer
	C    gen.PID
	T    any
	Err  error
	NL   int // drain: link consumers returned
	NM   int // drain: monitor consumers returned
	Cons []gen.PID
}

func (e tapEv) String() string {
	switch e.Op {
	case "drain":
		return fmt.Sprintf("@%d drain(%v) -> %d link, %d monitor consumers %v", e.L, e.T, e.NL, e.NM, e.Cons)
	case "cleanconsumer":
		return fmt.Sprintf("@%d cleanconsumer(%v)", e.L, e.C)
	}
	return fmt.Sprintf("@%d %s(%v, %v) -> %v", e.L, e.Op, e.C, e.T, e.Err)
}

func newTap() *tap { return &tap{in: gen.CreateDefaultTargetManager()} }

// Reset clears the log and switches recording on
func (t *tap) Reset() {
	t.mu.Lock()
	t.ev = t.ev[:0]
	t.on = true
	t.mu.Unlock()
}

func (t *tap) Log() []tapEv {
	t.mu.Lock()
	defer t.mu.Unlock()
	return append([]tapEv(nil), t.ev...)
}

func (t *tap) rec(e tapEv) {
	e.L = hk.Tick()
	t.mu.Lock()
	if t.on && len(t.ev) < 4096 {
		t.ev = append(t.ev, e)
	}
	t.mu.Unlock()
}

func (t *tap) AddLink(c gen.PID, target any) error {
	err := t.in.AddLink(c, target)
	t.rec(tapEv{Op: "addlink", C: c, T: target, Err: err})
	return err
}
func (t *tap) RemoveLink(c gen.PID, target any) error {
	err := t.in.RemoveLink(c, target)
	t.rec(tapEv{Op: "rmlink", C: c, T: target, Err: err})
	return err
}
func (t *tap) HasLink(c gen.PID, target any) bool { return t.in.HasLink(c, target) }
func (t *tap) AddMonitor(c gen.PID, target any) error {
	err := t.in.AddMonitor(c, target)
	t.rec(tapEv{Op: "addmon", C: c, T: target, Err: err})
	return err
}
func (t *tap) RemoveMonitor(c gen.PID, target any) error {
	err := t.in.RemoveMonitor(c, target)
	t.rec(tapEv{Op: "rmmon", C: c, T: target, Err: err})
	return err
}
func (t *tap) HasMonitor(c gen.PID, target any) bool { return t.in.HasMonitor(c, target) }
func (t *tap) CleanupConsumer(c gen.PID) ([]any, []any) {
	l, m := t.in.CleanupConsumer(c)
	t.rec(tapEv{Op: "cleanconsumer", C: c})
	return l, m
}
func (t *tap) CleanupTarget(target any) ([]gen.PID, []gen.PID) {
	t.at("drain.before", target)
	l, m := t.in.CleanupTarget(target)
	cons := append(append([]gen.PID{}, l...), m...)
	t.rec(tapEv{Op: "drain", T: target, NL: len(l), NM: len(m), Cons: cons})
	t.at("drain.after", target)
	return l, m
}
func (t *tap) CleanupNode(n gen.Atom) (map[any][]gen.PID, map[any][]gen.PID) {
	return t.in.CleanupNode(n)
}
func (t *tap) GetTargetsForConsumer(c gen.PID) ([]any, []any) { return t.in.GetTargetsForConsumer(c) }
func (t *tap) GetConsumersForTarget(target any) []gen.PID     { return t.in.GetConsumersForTarget(target) }

// first returns the logical time of the first matching event (0 = none)
func (t *tap) first(f func(e tapEv) bool) int64 {
	for _, e := range t.Log() {
		if f(e) {
			return e.L
		}
	}
	return 0
}

func tapStrings(evs []tapEv) []string {
	var s []string
	for _, e := range evs {
		s = append(s, e.String())
	}
	return s
}
