package main

import (
	"errors"
	"fmt"
	"math/rand"
	"sort"
	"strings"

	"ergo.services/ergo/gen"

	"verif/harness/actors"
	"verif/harness/hk"
)

// S: model-based random sequential histories. Every operation is decided at
// quiescence; the reference relation set is built from the RESULTS of the
// operations (an operation that returned an error created / removed nothing).

type relKey struct {
	c   int
	mon bool
	t   any
}

type world struct {
	id     string
	rng    *rand.Rand
	ps     []*obs
	rel    map[relKey]bool
	owner  map[any]int // alias / name / event target -> owner index (for signatures)
	trace  []string
	r      *result
	events int64
	// measured coverage
	disappearances int
	notified       int
	classes        map[string]bool
	abort          bool
	step           int
	nodeEvents     []gen.Atom // events registered by the node itself (producer = core)
	oldNodeEvents  []gen.Atom
}

func (w *world) logf(format string, a ...any) {
	w.trace = append(w.trace, fmt.Sprintf("#%d ", w.step)+fmt.Sprintf(format, a...))
}

func (w *world) alive() []*obs {
	var l []*obs
	for _, o := range w.ps {
		if o.alive {
			l = append(l, o)
		}
	}
	return l
}

func (w *world) pickAlive() *obs {
	l := w.alive()
	if len(l) == 0 {
		return nil
	}
	return l[w.rng.Intn(len(l))]
}

func (w *world) pickAny() *obs {
	if w.rng.Intn(5) > 0 {
		if o := w.pickAlive(); o != nil {
			return o
		}
	}
	return w.ps[w.rng.Intn(len(w.ps))]
}

func (w *world) pid2name(p gen.PID) string {
	for _, o := range w.ps {
		if o.pid == p {
			return fmt.Sprintf("p%d", o.idx)
		}
	}
	return p.String()
}

func (w *world) tstr(t any) string {
	if p, ok := t.(gen.PID); ok {
		return "pid:" + w.pid2name(p)
	}
	s := fmt.Sprintf("%s:%v", tkind(t), t)
	if o, ok := w.owner[t]; ok {
		s += fmt.Sprintf("(of p%d)", o)
	}
	return s
}

// pickTarget: mostly live targets, sometimes stale ones (dead pid, former name/alias/event)
func (w *world) pickTarget() any {
	o := w.pickAny()
	stale := w.rng.Intn(7) == 0
	switch k := w.rng.Intn(100); {
	case k < 30:
		return o.pid
	case k < 52:
		if stale && len(o.oldNames) > 0 {
			return gen.ProcessID{Name: o.oldNames[w.rng.Intn(len(o.oldNames))], Node: node.Name()}
		}
		if o.name != "" {
			return gen.ProcessID{Name: o.name, Node: node.Name()}
		}
	case k < 78:
		if stale && len(o.oldAliases) > 0 {
			return o.oldAliases[w.rng.Intn(len(o.oldAliases))]
		}
		var al []gen.Alias
		al = append(al, o.aliases...)
		for _, mr := range o.metas {
			if mr.alive {
				al = append(al, mr.alias)
			}
		}
		if len(al) > 0 {
			return al[w.rng.Intn(len(al))]
		}
	default:
		if stale && len(o.oldEvents) > 0 {
			return gen.Event{Name: o.oldEvents[w.rng.Intn(len(o.oldEvents))], Node: node.Name()}
		}
		if stale && len(w.oldNodeEvents) > 0 {
			return gen.Event{Name: w.oldNodeEvents[w.rng.Intn(len(w.oldNodeEvents))], Node: node.Name()}
		}
		if len(w.nodeEvents) > 0 && w.rng.Intn(3) == 0 {
			return gen.Event{Name: w.nodeEvents[w.rng.Intn(len(w.nodeEvents))], Node: node.Name()}
		}
		if len(o.events) > 0 {
			return gen.Event{Name: o.events[w.rng.Intn(len(o.events))], Node: node.Name()}
		}
	}
	// the chosen process has no such target: any live target of that kind of another process, else its pid
	var pool []any
	for _, x := range w.ps {
		if !x.alive {
			continue
		}
		if x.name != "" {
			pool = append(pool, gen.ProcessID{Name: x.name, Node: node.Name()})
		}
		for _, a := range x.aliases {
			pool = append(pool, a)
		}
		for _, e := range x.events {
			pool = append(pool, gen.Event{Name: e, Node: node.Name()})
		}
		for _, mr := range x.metas {
			if mr.alive {
				pool = append(pool, mr.alias)
			}
		}
	}
	if len(pool) > 0 && w.rng.Intn(3) > 0 {
		return pool[w.rng.Intn(len(pool))]
	}
	return o.pid
}

// spell: the requester may write a name as gen.Atom or as gen.ProcessID with an empty Node, an event with an
// empty Node. The model keeps the canonical form; only the RESULT of the request decides whether a relation exists.
func (w *world) spell(t any) any {
	switch t.(type) {
	case gen.ProcessID:
		switch w.rng.Intn(10) {
		case 0, 1, 2:
			return spelled(t, "atom")
		case 3, 4:
			return spelled(t, "emptynode")
		}
	case gen.Event:
		if w.rng.Intn(10) < 3 {
			return spelled(t, "emptynode")
		}
	}
	return t
}

func wrote(t, wr any) string {
	if t == wr {
		return ""
	}
	return fmt.Sprintf(" written as %#v", wr)
}

type step struct {
	either   map[int]bool   // may or may not terminate in this step; not judged if it does
	expected map[int][]note // per live consumer
	causes   map[any]string // target -> cause class
	dead     map[int]error  // processes that die in this step -> reason; primary has cascade=false
	cascade  map[int]bool
}

func newStep() *step {
	return &step{either: map[int]bool{}, expected: map[int][]note{}, causes: map[any]string{}, dead: map[int]error{}, cascade: map[int]bool{}}
}

// targetGone: model the disappearance of one target
func (w *world) targetGone(s *step, t any, reason error, cause string, queue *[]int) {
	s.causes[t] = cause
	for k := range w.rel {
		if k.t != t {
			continue
		}
		delete(w.rel, k)
		c := w.ps[k.c]
		if !c.alive {
			continue // consumer terminated earlier (or in this step): nothing to expect
		}
		if !k.mon {
			if p, ok := t.(gen.PID); ok && c.parent >= 0 && w.ps[c.parent].pid == p {
				// exit signal from the parent cannot be trapped by act.Actor: the child terminates with the reason
				s.cascade[c.idx] = true
				s.dead[c.idx] = reason
				*queue = append(*queue, c.idx)
				continue
			}
		}
		s.expected[c.idx] = append(s.expected[c.idx], note{k.mon, t, reason})
	}
}

// processGone: the process and everything it owns goes away; linked children follow
func (w *world) processGone(s *step, x *obs, reason error, cause string) {
	s.dead[x.idx] = reason
	queue := []int{x.idx}
	first := true
	for len(queue) > 0 {
		o := w.ps[queue[0]]
		queue = queue[1:]
		if !o.alive {
			continue
		}
		o.alive = false
		c := cause
		if !first {
			c = "cascade"
		}
		first = false
		w.targetGone(s, o.pid, reason, c, &queue)
		if o.name != "" {
			w.targetGone(s, gen.ProcessID{Name: o.name, Node: node.Name()}, reason, c, &queue)
			o.oldNames = append(o.oldNames, o.name)
			o.name = ""
		}
		for _, a := range o.aliases {
			w.targetGone(s, a, reason, c, &queue)
			o.oldAliases = append(o.oldAliases, a)
		}
		o.aliases = nil
		for _, mr := range o.metas {
			if mr.alive {
				// the meta process gets the exit of its parent and drains its alias itself
				mr.alive = false
				w.targetGone(s, mr.alias, reason, c, &queue)
				o.oldAliases = append(o.oldAliases, mr.alias)
			}
		}
		for _, e := range o.events {
			w.targetGone(s, gen.Event{Name: e, Node: node.Name()}, reason, c, &queue)
			o.oldEvents = append(o.oldEvents, e)
		}
		o.events = nil
		// relations of a terminated consumer are void
		for k := range w.rel {
			if k.c == o.idx {
				delete(w.rel, k)
			}
		}
	}
	// consumers that died in this step are not judged for the other notifications of the step
	for i := range s.dead {
		delete(s.expected, i)
	}
}

// settle waits for quiescence and judges what every observer received in this step
func (w *world) settle(s *step, what string) {
	for i := range s.dead {
		w.ps[i].maybe = s.cascade[i]
	}
	for i := range s.either {
		w.ps[i].alive, w.ps[i].maybe = false, true
	}
	quiet := waitQuiet(w.ps)
	for i := range s.dead {
		w.ps[i].maybe = false
	}
	for i := range s.either {
		o := w.ps[i]
		o.maybe = false
		if quiet && !isGone(o) {
			o.alive = true // survived: judged like any live observer (expects nothing)
		} else {
			s.dead[i] = nil // terminated: not judged
		}
	}
	if !quiet {
		w.r.incon = "watchdog: no quiescence after " + what
		w.abort = true
		return
	}
	for i := range s.dead {
		o := w.ps[i]
		if s.cascade[i] && !isGone(o) {
			// quiescent, parent gone, child idle with an empty mailbox: the exit signal does not exist
			w.r.add("missing-notification/link/pid", "step %d (%s): p%d is linked to its parent, the parent went away with %q, p%d never got the exit signal (it is idle with an empty mailbox)", w.step, what, i, s.dead[i], i)
			delete(s.dead, i)
			o.alive = true
			w.abort = true // the model assumed the cascade; do not judge the rest of this history
		}
	}
	if len(s.causes) > 0 {
		w.disappearances++
	}
	for _, o := range w.ps {
		notes, term, terminated := o.newNotes()
		w.events += int64(len(notes))
		for _, n := range notes {
			w.logf("   p%d got %s(%s reason=%v)", o.idx, map[bool]string{false: "exit", true: "down"}[n.Mon], w.tstr(n.Tgt), n.Reason)
		}
		if terminated {
			w.logf("   p%d terminated with %v", o.idx, term)
		}
		who := fmt.Sprintf("p%d", o.idx)
		ctx := fmt.Sprintf("step %d: %s", w.step, what)
		if reason, dying := s.dead[o.idx]; dying {
			if s.cascade[o.idx] {
				w.events++
				if !terminated {
					w.r.add("missing-notification/link/pid", "%s: %s is linked to its parent and is gone but its terminate callback did not report the parent's exit", ctx, who)
				} else if !reasonOK(reason, term) {
					w.r.add("wrong-reason/link/pid", "%s: %s terminated on the parent's exit signal with %q, the parent went away with %q", ctx, who, term, reason)
				} else {
					w.notified++
					w.classes["link/pid/parent-exit"] = true
				}
			}
			continue
		}
		if !o.alive {
			if len(notes) > 0 {
				// cannot happen for a process that is gone; would be a harness inconsistency
				w.r.incon = fmt.Sprintf("%s: terminated observer %s logged %v", ctx, who, notes)
				w.abort = true
			}
			continue
		}
		if terminated || isGone(o) {
			w.abort = true
			o.alive = false
			if _, parentDied := s.dead[o.parent]; o.parent >= 0 && parentDied && terminated {
				// the only untrappable signal: an exit signal of the parent, although no link to it exists (any more)
				w.r.add("spurious-notification/link/pid", "%s: %s holds no link to its parent p%d but terminated on the parent's exit signal (%v)", ctx, who, o.parent, term)
			} else {
				w.r.incon = fmt.Sprintf("%s: observer %s terminated unexpectedly with %v", ctx, who, term)
			}
			continue
		}
		exp := s.expected[o.idx]
		m := matchNotes(w.r, who, exp, notes, ctx, func(n note) string {
			if a, ok := n.Tgt.(gen.Alias); ok && s.causes[a] != "unreg" {
				if oi, ok := w.owner[a]; ok && w.ps[oi].delAliasMulti && !w.isMeta(a) {
					// owner terminated, this alias was not drained, and the owner had deleted a non-first alias before
					return "delete-alias-wrong-element"
				}
			}
			return defaultMissSig(n)
		})
		w.notified += m
		for _, e := range exp {
			w.classes[fmt.Sprintf("%s/%s/%s", relname(e.Mon), tkind(e.Tgt), s.causes[e.Tgt])] = true
		}
	}
}

func (w *world) isMeta(a gen.Alias) bool {
	for _, o := range w.ps {
		for _, mr := range o.metas {
			if mr.alias == a {
				return true
			}
		}
	}
	return false
}

func (w *world) spawnTop(k int) error {
	o, err := spawnObserver(fmt.Sprintf("%s/p%d", w.id, k))
	if err != nil {
		return err
	}
	o.idx = len(w.ps)
	w.ps = append(w.ps, o)
	return nil
}

var relOps = []string{"link", "monitor"}

func (w *world) opRelate() {
	c := w.pickAlive()
	t := w.pickTarget()
	mon := w.rng.Intn(2) == 0
	op := relOps[b2i(mon)]
	wr := w.spell(t)
	rr, ok := do(c, cmd{Op: op, Tgt: wr})
	if !ok {
		w.r.incon = "watchdog: command did not return"
		w.abort = true
		return
	}
	w.events++
	w.logf("p%d %s %s%s -> %v", c.idx, op, w.tstr(t), wrote(t, wr), rr.Err)
	if rr.Err == nil {
		w.rel[relKey{c.idx, mon, t}] = true
	}
	w.settle(newStep(), fmt.Sprintf("p%d %s %s", c.idx, op, w.tstr(t)))
}

func (w *world) opUnrelate() {
	var c *obs
	var t any
	mon := false
	var keys []relKey
	for k := range w.rel {
		if w.ps[k.c].alive {
			keys = append(keys, k)
		}
	}
	if len(keys) > 0 && w.rng.Intn(10) < 7 {
		sort.Slice(keys, func(i, j int) bool { return fmt.Sprint(keys[i]) < fmt.Sprint(keys[j]) })
		k := keys[w.rng.Intn(len(keys))]
		c, t, mon = w.ps[k.c], k.t, k.mon
		if w.rng.Intn(8) == 0 {
			mon = !mon // remove the other kind: must not remove this one
		}
	} else {
		c, t, mon = w.pickAlive(), w.pickTarget(), w.rng.Intn(2) == 0
	}
	op := []string{"unlink", "demonitor"}[b2i(mon)]
	wr := w.spell(t)
	rr, ok := do(c, cmd{Op: op, Tgt: wr})
	if !ok {
		w.r.incon = "watchdog: command did not return"
		w.abort = true
		return
	}
	w.events++
	w.logf("p%d %s %s%s -> %v", c.idx, op, w.tstr(t), wrote(t, wr), rr.Err)
	if rr.Err == nil {
		delete(w.rel, relKey{c.idx, mon, t})
	}
	w.settle(newStep(), fmt.Sprintf("p%d %s %s", c.idx, op, w.tstr(t)))
}

func (w *world) opRegName() {
	o := w.pickAlive()
	name := uname("c04s")
	switch w.rng.Intn(6) {
	case 0:
		// a name that is taken
		for _, x := range w.alive() {
			if x.name != "" {
				name = x.name
			}
		}
	case 1, 2:
		// a name that was in use earlier in this history (possibly still is)
		var old []gen.Atom
		for _, x := range w.ps {
			old = append(old, x.oldNames...)
		}
		if len(old) > 0 {
			name = old[w.rng.Intn(len(old))]
		}
	}
	var err error
	how := "process"
	if w.rng.Intn(3) == 0 {
		how = "node"
		err = node.RegisterName(name, o.pid)
	} else {
		rr, ok := do(o, cmd{Op: "regname", Name: name})
		if !ok {
			w.r.incon = "watchdog: command did not return"
			w.abort = true
			return
		}
		err = rr.Err
	}
	w.events++
	w.logf("p%d regname(%s) %s -> %v", o.idx, how, name, err)
	if err == nil {
		o.name = name
		w.owner[gen.ProcessID{Name: name, Node: node.Name()}] = o.idx
	}
	w.settle(newStep(), fmt.Sprintf("p%d regname %s", o.idx, name))
}

func (w *world) opUnregName() {
	var named []*obs
	for _, x := range w.alive() {
		if x.name != "" {
			named = append(named, x)
		}
	}
	o := w.pickAlive()
	if len(named) > 0 && w.rng.Intn(8) > 0 {
		o = named[w.rng.Intn(len(named))]
	}
	name := o.name
	var err error
	how := "process"
	if name != "" && w.rng.Intn(3) == 0 {
		how = "node"
		_, err = node.UnregisterName(name)
	} else {
		rr, ok := do(o, cmd{Op: "unregname"})
		if !ok {
			w.r.incon = "watchdog: command did not return"
			w.abort = true
			return
		}
		err = rr.Err
	}
	w.events++
	w.logf("p%d unregname(%s) %q -> %v", o.idx, how, name, err)
	s := newStep()
	if err == nil && name != "" {
		var q []int
		w.targetGone(s, gen.ProcessID{Name: name, Node: node.Name()}, gen.ErrUnregistered, "unreg", &q)
		o.oldNames = append(o.oldNames, name)
		o.name = ""
	}
	w.settle(s, fmt.Sprintf("p%d unregname %q", o.idx, name))
}

func (w *world) opMkAlias() {
	o := w.pickAlive()
	rr, ok := do(o, cmd{Op: "mkalias"})
	if !ok {
		w.r.incon = "watchdog: command did not return"
		w.abort = true
		return
	}
	w.events++
	w.logf("p%d mkalias -> %v %v", o.idx, rr.Alias, rr.Err)
	if rr.Err == nil {
		o.aliases = append(o.aliases, rr.Alias)
		w.owner[rr.Alias] = o.idx
	}
	w.settle(newStep(), fmt.Sprintf("p%d mkalias", o.idx))
}

func (w *world) opRmAlias() {
	var with []*obs
	for _, x := range w.alive() {
		if len(x.aliases) > 0 {
			with = append(with, x)
		}
	}
	if len(with) == 0 {
		w.opMkAlias()
		return
	}
	o := with[w.rng.Intn(len(with))]
	i := w.rng.Intn(len(o.aliases))
	a := o.aliases[i]
	actor := o
	if w.rng.Intn(8) == 0 {
		actor = w.pickAlive() // possibly not the owner: must fail and change nothing
	}
	rr, ok := do(actor, cmd{Op: "rmalias", Alias: a})
	if !ok {
		w.r.incon = "watchdog: command did not return"
		w.abort = true
		return
	}
	w.events++
	w.logf("p%d rmalias %s (index %d of %d) -> %v", actor.idx, w.tstr(a), i, len(o.aliases), rr.Err)
	s := newStep()
	if rr.Err == nil {
		if i > 0 {
			o.delAliasMulti = true
		}
		var q []int
		w.targetGone(s, a, gen.ErrUnregistered, "unreg", &q)
		o.aliases = append(append([]gen.Alias{}, o.aliases[:i]...), o.aliases[i+1:]...)
		o.oldAliases = append(o.oldAliases, a)
	}
	w.settle(s, fmt.Sprintf("p%d rmalias %s", actor.idx, w.tstr(a)))
}

func (w *world) opRegEvent() {
	o := w.pickAlive()
	name := uname("c04e")
	if w.rng.Intn(3) == 0 {
		// an event name that was in use earlier in this history (possibly still is)
		old := append([]gen.Atom{}, w.oldNodeEvents...)
		for _, x := range w.ps {
			old = append(old, x.oldEvents...)
		}
		if len(old) > 0 {
			name = old[w.rng.Intn(len(old))]
		}
	}
	opt := gen.EventOptions{Notify: w.rng.Intn(3) == 0}
	if w.rng.Intn(3) == 0 {
		opt.Buffer = 1 + w.rng.Intn(3)
	}
	if w.rng.Intn(6) == 0 {
		// the node itself as producer
		_, err := node.RegisterEvent(name, opt)
		w.events++
		w.logf("node regevent %s %+v -> %v", name, opt, err)
		if err == nil {
			w.nodeEvents = append(w.nodeEvents, name)
		}
		w.settle(newStep(), fmt.Sprintf("node regevent %s", name))
		return
	}
	rr, ok := do(o, cmd{Op: "regevent", Name: name, EvOpt: opt})
	if !ok {
		w.r.incon = "watchdog: command did not return"
		w.abort = true
		return
	}
	w.events++
	w.logf("p%d regevent %s %+v -> %v", o.idx, name, opt, rr.Err)
	if rr.Err == nil {
		o.events = append(o.events, name)
		w.owner[gen.Event{Name: name, Node: node.Name()}] = o.idx
	}
	w.settle(newStep(), fmt.Sprintf("p%d regevent %s", o.idx, name))
}

func (w *world) opUnregEvent() {
	var with []*obs
	for _, x := range w.alive() {
		if len(x.events) > 0 {
			with = append(with, x)
		}
	}
	if len(w.nodeEvents) > 0 && (len(with) == 0 || w.rng.Intn(4) == 0) {
		i := w.rng.Intn(len(w.nodeEvents))
		name := w.nodeEvents[i]
		err := node.UnregisterEvent(name)
		w.events++
		w.logf("node unregevent %s -> %v", name, err)
		s := newStep()
		if err == nil {
			var q []int
			w.targetGone(s, gen.Event{Name: name, Node: node.Name()}, gen.ErrUnregistered, "unreg", &q)
			w.nodeEvents = append(append([]gen.Atom{}, w.nodeEvents[:i]...), w.nodeEvents[i+1:]...)
			w.oldNodeEvents = append(w.oldNodeEvents, name)
		}
		w.settle(s, fmt.Sprintf("node unregevent %s", name))
		return
	}
	if len(with) == 0 {
		w.opRegEvent()
		return
	}
	o := with[w.rng.Intn(len(with))]
	i := w.rng.Intn(len(o.events))
	name := o.events[i]
	actor := o
	if w.rng.Intn(8) == 0 {
		actor = w.pickAlive()
	}
	rr, ok := do(actor, cmd{Op: "unregevent", Name: name})
	if !ok {
		w.r.incon = "watchdog: command did not return"
		w.abort = true
		return
	}
	w.events++
	w.logf("p%d unregevent %s (of p%d) -> %v", actor.idx, name, o.idx, rr.Err)
	s := newStep()
	if rr.Err == nil {
		var q []int
		w.targetGone(s, gen.Event{Name: name, Node: node.Name()}, gen.ErrUnregistered, "unreg", &q)
		o.events = append(append([]gen.Atom{}, o.events[:i]...), o.events[i+1:]...)
		o.oldEvents = append(o.oldEvents, name)
	}
	w.settle(s, fmt.Sprintf("p%d unregevent %s", actor.idx, name))
}

func (w *world) opSpawnMeta() {
	o := w.pickAlive()
	n := 0
	for _, x := range w.ps {
		n += len(x.metas)
	}
	if n >= 6 {
		w.opRelate()
		return
	}
	mr, why := spawnMetaOn(o, fmt.Sprintf("%s/p%d/meta%d", w.id, o.idx, len(o.metas)))
	w.events++
	if mr == nil {
		w.logf("p%d spawnmeta -> %s", o.idx, why)
		if strings.HasPrefix(why, "watchdog") {
			w.r.incon = why
			w.abort = true
			return
		}
	} else {
		w.logf("p%d spawnmeta -> %v", o.idx, mr.alias)
		w.owner[mr.alias] = o.idx
	}
	w.settle(newStep(), fmt.Sprintf("p%d spawnmeta", o.idx))
}

func (w *world) opStopMeta() {
	var ms []*metaRec
	var owners []*obs
	for _, x := range w.alive() {
		for _, mr := range x.metas {
			if mr.alive {
				ms = append(ms, mr)
				owners = append(owners, x)
			}
		}
	}
	if len(ms) == 0 {
		w.opSpawnMeta()
		return
	}
	i := w.rng.Intn(len(ms))
	mr, o := ms[i], owners[i]
	s := newStep()
	var q []int
	var reason error
	how := ""
	switch w.rng.Intn(3) {
	case 0:
		how, reason = "Start() returns nil", gen.TerminateReasonNormal
		mr.stop(nil)
	case 1:
		reason = errors.New(fmt.Sprintf("c04 meta stop reason %d", w.step))
		how = "Start() returns an error"
		mr.stop(reason)
	default:
		reason = errors.New(fmt.Sprintf("c04 meta handler reason %d", w.step))
		how = "HandleMessage returns an error"
		node.Send(mr.alias, reason)
	}
	w.events++
	w.logf("meta %v of p%d terminates: %s (%v)", mr.alias, o.idx, how, reason)
	mr.alive = false
	w.targetGone(s, mr.alias, reason, "meta", &q)
	o.oldAliases = append(o.oldAliases, mr.alias)
	w.settle(s, fmt.Sprintf("meta process of p%d terminated: %s", o.idx, how))
}

func (w *world) opSpawn() {
	if len(w.ps) >= 9 {
		w.opRelate()
		return
	}
	parent := w.pickAlive()
	po := gen.ProcessOptions{}
	switch w.rng.Intn(4) {
	case 0:
		po.LinkChild = true
	case 1:
		po.LinkParent = true
	case 2:
		po.LinkChild, po.LinkParent = true, true
	}
	idx := len(w.ps)
	f, inst := actors.NewProbe(fmt.Sprintf("%s/p%d", w.id, idx), observerHooks())
	var regName gen.Atom
	if w.rng.Intn(3) == 0 {
		regName = uname("c04s") // SpawnRegister: the child is born with a registered name
	}
	rr, ok := do(parent, cmd{Op: "spawn", Factory: f, PO: po, Name: regName})
	if !ok {
		w.r.incon = "watchdog: command did not return"
		w.abort = true
		return
	}
	w.events++
	w.logf("p%d spawn linkchild=%v linkparent=%v register=%q -> p%d %v", parent.idx, po.LinkChild, po.LinkParent, regName, idx, rr.Err)
	if rr.Err == nil {
		c := &obs{idx: idx, label: inst.Label, pid: rr.PID, inst: inst, alive: true, parent: parent.idx, name: regName}
		if regName != "" {
			w.owner[gen.ProcessID{Name: regName, Node: node.Name()}] = idx
		}
		w.ps = append(w.ps, c)
		if po.LinkChild {
			w.rel[relKey{parent.idx, false, c.pid}] = true
		}
		if po.LinkParent {
			w.rel[relKey{c.idx, false, parent.pid}] = true
		}
	}
	w.settle(newStep(), fmt.Sprintf("p%d spawn", parent.idx))
}

// opSpawnInitFail: a live observer spawns a process whose Init spawns 1-3 children (random LinkChild /
// LinkParent) and then fails (error / wrapped error / panic). The failing process goes away unregistered:
// children holding a link on it must follow with the init error, unlinked children stay and get nothing.
func (w *world) opSpawnInitFail() {
	if len(w.ps) >= 8 {
		w.opRelate()
		return
	}
	parent := w.pickAlive()
	plan := &initPlan{}
	var initErr error
	mode := []string{"error", "wrapped", "panic"}[w.rng.Intn(3)]
	switch mode {
	case "error":
		plan.Fail = errors.New(fmt.Sprintf("c04 init error %d", w.step))
		initErr = plan.Fail
	case "wrapped":
		plan.Fail = fmt.Errorf("c04 init wrapper: %w", errors.New(fmt.Sprintf("c04 init inner %d", w.step)))
		initErr = plan.Fail
	case "panic":
		plan.Panic = true
		initErr = gen.TerminateReasonPanic
	}
	nk := 1 + w.rng.Intn(3)
	if len(w.ps)+nk > 10 {
		nk = 1
	}
	for i := 0; i < nk; i++ {
		plan.Children = append(plan.Children, newChildSpec(fmt.Sprintf("%s/p%d", w.id, len(w.ps)+i), w.rng.Intn(2) == 0, w.rng.Intn(2) == 0))
	}
	ff, _ := actors.NewProbe(fmt.Sprintf("%s/failing%d", w.id, w.step), observerHooks())
	po := gen.ProcessOptions{LinkChild: w.rng.Intn(2) == 0, LinkParent: w.rng.Intn(3) == 0}
	rr, ok := doSpawn(parent, cmd{Factory: ff, PO: po}, plan)
	if !ok {
		w.r.incon = "watchdog: command did not return"
		w.abort = true
		return
	}
	w.events++
	if rr.Err == nil {
		w.r.incon = "harness: the spawn of a process with a failing Init returned nil"
		w.abort = true
		return
	}
	s := newStep()
	var kinds []string
	for _, cs := range plan.Children {
		if cs.Err != nil {
			kinds = append(kinds, "spawn-error:"+cs.Err.Error())
			continue
		}
		o := &obs{idx: len(w.ps), label: cs.Inst.Label, pid: cs.PID, inst: cs.Inst, alive: true, parent: -2}
		w.ps = append(w.ps, o)
		kinds = append(kinds, fmt.Sprintf("p%d:%s", o.idx, cs.linkKind()))
		switch cs.linkKind() {
		case "linkparent", "both":
			// follows the failed parent: the exit signal of the parent cannot be trapped
			o.alive = false
			s.dead[o.idx] = initErr
			s.cascade[o.idx] = true
		case "linkchild":
			s.either[o.idx] = true
		}
	}
	w.logf("p%d spawn linkchild=%v linkparent=%v of a process whose Init spawns %v and then fails (%s: %v) -> %v", parent.idx, po.LinkChild, po.LinkParent, kinds, mode, initErr, rr.Err)
	s.causes["init-failure"] = "init-" + mode
	w.settle(s, fmt.Sprintf("p%d spawned a process whose Init spawned %v and failed with %v", parent.idx, kinds, initErr))
}

func (w *world) opTerminate() {
	o := w.pickAlive()
	if len(w.alive()) <= 2 && w.rng.Intn(3) > 0 {
		w.opRelate()
		return
	}
	methods := []string{"normal", "shutdown", "custom", "wrapped", "panic", "kill", "kill", "custom"}
	m := methods[w.rng.Intn(len(methods))]
	var reason error
	switch m {
	case "normal":
		reason = gen.TerminateReasonNormal
	case "shutdown":
		reason = gen.TerminateReasonShutdown
	case "custom":
		reason = errors.New(fmt.Sprintf("c04 custom reason %d", w.step))
	case "wrapped":
		reason = fmt.Errorf("c04 wrapper: %w", errors.New(fmt.Sprintf("c04 inner reason %d", w.step)))
	case "panic":
		reason = gen.TerminateReasonPanic
	case "kill":
		reason = gen.TerminateReasonKill
	}
	s := newStep()
	w.logf("p%d terminate by %s (reason %v)", o.idx, m, reason)
	w.processGone(s, o, reason, m)
	switch m {
	case "kill":
		node.Kill(o.pid)
	case "panic":
		node.Send(o.pid, cmd{Op: "panic"})
	default:
		node.Send(o.pid, cmd{Op: "exit", Err: reason})
	}
	w.events++
	w.settle(s, fmt.Sprintf("p%d terminated by %s", o.idx, m))
}

func runHistory(k int) {
	id := fmt.Sprintf("S/%d", k)
	if !want(id) {
		return
	}
	nextCase()
	rng := hk.Rng("c04", id)
	w := &world{id: id, rng: rng, rel: map[relKey]bool{}, owner: map[any]int{}, r: &result{}, classes: map[string]bool{}}
	tm.Reset()
	n := 3 + rng.Intn(4)
	for i := 0; i < n; i++ {
		if err := w.spawnTop(i); err != nil {
			w.r.incon = "spawn failed: " + err.Error()
			finish(id, "history", id, false, 0, w.r, nil)
			return
		}
	}
	defer func() {
		for _, o := range w.ps {
			node.Kill(o.pid)
		}
		for _, o := range w.ps {
			o.alive = false
			for _, mr := range o.metas {
				mr.alive = false
			}
			o.stopMetas()
		}
		for _, e := range w.nodeEvents {
			node.UnregisterEvent(e)
		}
		waitQuiet(w.ps)
	}()
	if !waitQuiet(w.ps) {
		w.r.incon = "watchdog: no initial quiescence"
		finish(id, "history", id, false, 0, w.r, nil)
		return
	}
	// a short build-up so that targets of every kind exist
	length := 15 + rng.Intn(26)
	for w.step = 1; w.step <= length && !w.abort; w.step++ {
		if w.pickAlive() == nil {
			break
		}
		var x int
		if w.step <= 5 {
			x = []int{50, 58, 74, 58, 82}[w.step-1] // regname, mkalias, regevent, mkalias, spawn
		} else {
			x = rng.Intn(100)
		}
		switch {
		case x < 31:
			w.opRelate()
		case x < 34:
			w.opSpawnMeta()
		case x < 36:
			w.opStopMeta()
		case x < 48:
			w.opUnrelate()
		case x < 54:
			w.opRegName()
		case x < 58:
			w.opUnregName()
		case x < 65:
			w.opMkAlias()
		case x < 72:
			w.opRmAlias()
		case x < 77:
			w.opRegEvent()
		case x < 81:
			w.opUnregEvent()
		case x < 85:
			w.opSpawn()
		case x < 88:
			w.opSpawnInitFail()
		default:
			w.opTerminate()
		}
	}
	var cl []string
	for c := range w.classes {
		cl = append(cl, c)
	}
	sort.Strings(cl)
	key := "S/" + strings.Join(cl, ",")
	detail := map[string]any{"ops": w.step - 1, "processes": len(w.ps), "disappearance_steps": w.disappearances, "notifications_matched": w.notified, "classes": cl}
	if len(w.r.viols) > 0 || w.r.incon != "" {
		detail["trace"] = w.trace
		var view []string
		for _, o := range w.ps {
			if o.alive {
				l, m := tm.GetTargetsForConsumer(o.pid)
				view = append(view, fmt.Sprintf("p%d: framework links=%v monitors=%v", o.idx, l, m))
			}
		}
		detail["target_manager_view"] = view
		tl := tapStrings(tm.Log())
		if len(tl) > 120 {
			tl = tl[len(tl)-120:]
		}
		detail["tap_tail"] = tl
	}
	stat("history_ops", int64(w.step-1))
	stat("history_notifications_matched", int64(w.notified))
	stat("history_disappearance_steps", int64(w.disappearances))
	finish(id, "history", key, w.notified > 0, w.events, w.r, detail)
}

func runHistoriesAll() {
	n := hk.Pick(3000, 100000)
	for k := 0; k < n; k++ {
		runHistory(k)
	}
}
