// C04 — links and monitors: exactly one exit signal (link) / down message
// (monitor) naming the target and carrying the reason when the target (pid,
// registered name, alias, event) goes away; a request racing with the
// disappearance either fails or is still notified; no relation => nothing.
//
// Monitors: trap-exit observer probes log every gen.MessageExit*/MessageDown*
// (and their own terminate reason); a reference relation set is built from the
// RESULTS of the operations; a wrapping gen.TargetManager (tap) supplies the
// witness (order of insert / drain).
// Workloads: D directed orders of {check, insert} x {delete, drain} with gates
// at link.checked / proc.unreg.* / proc.spawn.linked; R the same race left to
// seeded delays; S model-based random sequential histories.
package main

import (
	"errors"
	"fmt"
	"os"
	"sort"
	"strings"
	"sync"
	"time"

	"ergo.services/ergo/gen"
	"ergo.services/ergo/net/registrar"

	"verif/harness/actors"
	"verif/harness/hk"
)

var node *hk.HNode
var tm *tap

// ---------------------------------------------------------------------------
// commands executed by a probe inside its own HandleMessage

type cmd struct {
	Op      string // link unlink monitor demonitor regname unregname mkalias rmalias regevent unregevent spawn exit panic nop
	Tgt     any    // gen.PID | gen.ProcessID | gen.Alias | gen.Event
	Name    gen.Atom
	Alias   gen.Alias
	Err     error
	EvOpt   gen.EventOptions
	Factory gen.ProcessFactory
	Meta    *actors.Meta
	Entered chan struct{} // block: closed when the handler is entered
	Release chan struct{} // block: the handler returns when this is closed
	PO      gen.ProcessOptions
	Done    chan res
}

type res struct {
	Err   error
	Alias gen.Alias
	PID   gen.PID
}

func exec(p *actors.Probe, m cmd) res {
	switch m.Op {
	case "link":
		if ev, ok := m.Tgt.(gen.Event); ok {
			_, err := p.LinkEvent(ev)
			return res{Err: err}
		}
		return res{Err: p.Link(m.Tgt)}
	case "unlink":
		if ev, ok := m.Tgt.(gen.Event); ok {
			return res{Err: p.UnlinkEvent(ev)}
		}
		return res{Err: p.Unlink(m.Tgt)}
	case "monitor":
		if ev, ok := m.Tgt.(gen.Event); ok {
			_, err := p.MonitorEvent(ev)
			return res{Err: err}
		}
		return res{Err: p.Monitor(m.Tgt)}
	case "demonitor":
		if ev, ok := m.Tgt.(gen.Event); ok {
			return res{Err: p.DemonitorEvent(ev)}
		}
		return res{Err: p.Demonitor(m.Tgt)}
	case "regname":
		return res{Err: p.RegisterName(m.Name)}
	case "unregname":
		return res{Err: p.UnregisterName()}
	case "mkalias":
		a, err := p.CreateAlias()
		return res{Err: err, Alias: a}
	case "rmalias":
		return res{Err: p.DeleteAlias(m.Alias)}
	case "regevent":
		_, err := p.RegisterEvent(m.Name, m.EvOpt)
		return res{Err: err}
	case "unregevent":
		return res{Err: p.UnregisterEvent(m.Name)}
	case "spawn":
		if m.Name != "" {
			pid, err := p.SpawnRegister(m.Name, m.Factory, m.PO)
			return res{Err: err, PID: pid}
		}
		pid, err := p.Spawn(m.Factory, m.PO)
		return res{Err: err, PID: pid}
	case "spawnmeta":
		a, err := p.SpawnMeta(m.Meta, gen.MetaOptions{})
		return res{Err: err, Alias: a}
	}
	return res{}
}

// metaRec is a meta process owned by an observer; its id is an alias target
type metaRec struct {
	alias   gen.Alias
	m       *actors.Meta
	alive   bool // model
	stopped bool
}

// stop makes Start() return reason
func (mr *metaRec) stop(reason error) {
	if mr.stopped {
		return
	}
	mr.stopped = true
	mr.m.StopReason = reason
	close(mr.m.Stop)
}

// gone: the terminate callback of the meta process has completed (it runs after the alias drain) and no handler goroutine is alive
func (mr *metaRec) gone() bool {
	return mr.m.I.TermCount.Load() > 0 && !mr.m.I.InCallback() && hk.LiveRunners(mr.alias) == 0
}

func metaHooks() *actors.MetaHooks {
	return &actors.MetaHooks{
		Msg: func(m *actors.Meta, from gen.PID, msg any) error {
			if e, ok := msg.(error); ok {
				return e
			}
			return nil
		},
	}
}

func spawnMetaOn(o *obs, label string) (*metaRec, string) {
	m := actors.NewMeta(label, metaHooks())
	rr, ok := do(o, cmd{Op: "spawnmeta", Meta: m})
	if !ok {
		return nil, "watchdog: command did not return"
	}
	if rr.Err != nil {
		return nil, rr.Err.Error()
	}
	select {
	case <-m.Started:
	case <-time.After(10 * time.Second):
		return nil, "watchdog: meta process did not start"
	}
	mr := &metaRec{alias: rr.Alias, m: m, alive: true}
	o.metas = append(o.metas, mr)
	return mr, ""
}

func (o *obs) stopMetas() {
	for _, mr := range o.metas {
		mr.stop(nil)
	}
}

// initPlan: Init argument of a process that spawns children inside its Init and then fails
type initPlan struct {
	Children []*childSpec
	Fail     error
	Panic    bool
}

type childSpec struct {
	PO   gen.ProcessOptions
	F    gen.ProcessFactory
	Inst *actors.Inst
	PID  gen.PID
	Err  error
}

func (cs *childSpec) linkKind() string {
	switch {
	case cs.PO.LinkParent && cs.PO.LinkChild:
		return "both"
	case cs.PO.LinkParent:
		return "linkparent"
	case cs.PO.LinkChild:
		return "linkchild"
	}
	return "neither"
}

func newChildSpec(label string, lc, lp bool) *childSpec {
	f, inst := actors.NewProbe(label, observerHooks())
	return &childSpec{PO: gen.ProcessOptions{LinkChild: lc, LinkParent: lp}, F: f, Inst: inst}
}

// doSpawn lets observer o spawn a process with Init arguments
func doSpawn(o *obs, c cmd, args ...any) (res, bool) {
	c.Op = "spawn"
	c.Done = make(chan res, 1)
	if err := node.Send(o.pid, spawnArgs{c, args}); err != nil {
		return res{Err: err}, false
	}
	return waitRes(c.Done)
}

// observer behaviour: trap exit on, execute commands, record everything (the
// Inst of the probe records every message, the notifications are read from it)
func observerHooks() *actors.Hooks {
	return &actors.Hooks{
		Init: func(p *actors.Probe, args ...any) error {
			p.SetTrapExit(true)
			for _, a := range args {
				if c, ok := a.(cmd); ok {
					// self-sent command: handled right after the spawn
					p.Send(p.PID(), c)
				}
				if plan, ok := a.(*initPlan); ok {
					// spawn children inside Init, then fail the initialization
					for _, cs := range plan.Children {
						cs.PID, cs.Err = p.Spawn(cs.F, cs.PO)
					}
					if plan.Panic {
						panic("c04 requested panic in Init")
					}
					return plan.Fail
				}
			}
			return nil
		},
		Msg: func(p *actors.Probe, from gen.PID, msg any) error {
			if sa, ok := msg.(spawnArgs); ok {
				var pid gen.PID
				var err error
				if sa.C.Name != "" {
					pid, err = p.SpawnRegister(sa.C.Name, sa.C.Factory, sa.C.PO, sa.Args...)
				} else {
					pid, err = p.Spawn(sa.C.Factory, sa.C.PO, sa.Args...)
				}
				sa.C.Done <- res{Err: err, PID: pid}
				return nil
			}
			m, ok := msg.(cmd)
			if !ok {
				return nil
			}
			if m.Op == "block" {
				close(m.Entered)
				<-m.Release
				return nil
			}
			r := exec(p, m)
			if m.Done != nil {
				m.Done <- r
			}
			switch m.Op {
			case "exit":
				return m.Err
			case "panic":
				panic("c04 requested panic")
			}
			return nil
		},
	}
}

// ---------------------------------------------------------------------------
// notifications

type note struct {
	Mon    bool // false: exit signal (link), true: down message (monitor)
	Tgt    any
	Reason error
}

func (n note) String() string {
	k := "exit"
	if n.Mon {
		k = "down"
	}
	return fmt.Sprintf("%s(%s %v reason=%v)", k, tkind(n.Tgt), n.Tgt, n.Reason)
}

func asNote(msg any) (note, bool) {
	n, ok := asNoteRaw(msg)
	n.Tgt = canon(n.Tgt)
	return n, ok
}

func asNoteRaw(msg any) (note, bool) {
	switch m := msg.(type) {
	case gen.MessageExitPID:
		return note{false, m.PID, m.Reason}, true
	case gen.MessageExitProcessID:
		return note{false, m.ProcessID, m.Reason}, true
	case gen.MessageExitAlias:
		return note{false, m.Alias, m.Reason}, true
	case gen.MessageExitEvent:
		return note{false, m.Event, m.Reason}, true
	case gen.MessageDownPID:
		return note{true, m.PID, m.Reason}, true
	case gen.MessageDownProcessID:
		return note{true, m.ProcessID, m.Reason}, true
	case gen.MessageDownAlias:
		return note{true, m.Alias, m.Reason}, true
	case gen.MessageDownEvent:
		return note{true, m.Event, m.Reason}, true
	}
	return note{}, false
}

// canon: the canonical spelling of a local target. A registered name may be given as gen.Atom
// (Link/Monitor(any)), gen.ProcessID with the node name or with an empty Node; an event with the
// node name or an empty Node. Relations and notifications are compared in canonical form: whatever
// spelling a request that returned nil used, the requester must be told when that target goes away.
func canon(t any) any {
	switch x := t.(type) {
	case gen.Atom:
		return gen.ProcessID{Name: x, Node: node.Name()}
	case gen.ProcessID:
		if x.Node == "" {
			x.Node = node.Name()
		}
		return x
	case gen.Event:
		if x.Node == "" {
			x.Node = node.Name()
		}
		return x
	}
	return t
}

// spelled returns the target in the given spelling ("" = canonical)
func spelled(t any, spell string) any {
	switch x := t.(type) {
	case gen.ProcessID:
		switch spell {
		case "atom":
			return x.Name
		case "emptynode":
			return gen.ProcessID{Name: x.Name}
		}
	case gen.Event:
		if spell == "emptynode" {
			return gen.Event{Name: x.Name}
		}
	}
	return t
}

func tkind(t any) string {
	switch t.(type) {
	case gen.PID:
		return "pid"
	case gen.ProcessID:
		return "name"
	case gen.Alias:
		return "alias"
	case gen.Event:
		return "event"
	}
	return fmt.Sprintf("%T", t)
}

func relname(mon bool) string {
	if mon {
		return "monitor"
	}
	return "link"
}

// reasonOK: the notification carries the reason the target went away with.
// The framework hands out errors.Unwrap(err) of a wrapped handler error, an
// exit forwarded by a linked child wraps the original; both "carry" it.
func reasonOK(want, got error) bool {
	if got == nil || want == nil {
		return false
	}
	for e := got; e != nil; e = errors.Unwrap(e) {
		if errors.Is(want, e) {
			return true
		}
	}
	return false
}

// obs is one observed process
type obs struct {
	idx   int
	label string
	pid   gen.PID
	inst  *actors.Inst
	alive bool // model
	// maybe: expected to terminate on the exit signal of its parent. Quiescence accepts it gone or
	// asleep with an empty mailbox: once the parent's runner has exited every message it sent is in a
	// mailbox, so an idle child with an empty mailbox will never get the signal (stable structural witness)
	maybe  bool
	parent int // index of the spawning observer, -1 = node
	seen   int // events of inst consumed so far

	name    gen.Atom
	aliases []gen.Alias
	metas   []*metaRec
	events  []gen.Atom
	// a successful DeleteAlias happened while the process held >= 2 aliases
	delAliasMulti bool
	// former targets for negative requests
	oldNames   []gen.Atom
	oldAliases []gen.Alias
	oldEvents  []gen.Atom
}

// newNotes returns the notifications (and the terminate reason, if any) logged since the last call
func (o *obs) newNotes() (notes []note, term error, terminated bool) {
	evs := o.inst.Events()
	for _, e := range evs[o.seen:] {
		switch e.CB {
		case "msg":
			if n, ok := asNote(e.Msg); ok {
				notes = append(notes, n)
			}
		case "terminate":
			term = e.Err
			terminated = true
		}
	}
	o.seen = len(evs)
	return
}

func spawnObserver(label string, args ...any) (*obs, error) {
	f, inst := actors.NewProbe(label, observerHooks())
	pid, err := node.Spawn(f, gen.ProcessOptions{}, args...)
	if err != nil {
		return nil, err
	}
	return &obs{label: label, pid: pid, inst: inst, alive: true, parent: -1}, nil
}

// do sends a command and waits for its result (watchdog => ok=false)
func do(o *obs, c cmd) (res, bool) {
	c.Done = make(chan res, 1)
	if err := node.Send(o.pid, c); err != nil {
		return res{Err: err}, false
	}
	select {
	case r := <-c.Done:
		return r, true
	case <-time.After(10 * time.Second):
		return res{}, false
	}
}

func doAsync(o *obs, c cmd) chan res {
	c.Done = make(chan res, 1)
	if err := node.Send(o.pid, c); err != nil {
		c.Done <- res{Err: fmt.Errorf("harness send: %w", err)}
	}
	return c.Done
}

func waitRes(ch chan res) (res, bool) {
	select {
	case r := <-ch:
		return r, true
	case <-time.After(10 * time.Second):
		return res{}, false
	}
}

// gone reports that the process left the process table, no runner goroutine of
// it is alive and its terminate callback has completed
func gone(o *obs) bool {
	if _, err := node.ProcessInfo(o.pid); err == nil {
		return false
	}
	return hk.LiveRunners(o.pid) == 0 && o.inst.TermCount.Load() > 0 && !o.inst.InCallback()
}

// waitQuiet: quiescence from state. Processes with alive=false must be gone,
// the others asleep with empty mailboxes; no callback and no runner in flight.
func waitQuiet(ps []*obs) bool {
	return hk.WaitUntil(20*time.Second, func() bool {
		// the pass over the processes is not an atomic snapshot: it only counts if nothing ran meanwhile
		a := activity()
		return quietPass(ps) && activity() == a
	})
}

// activity changes whenever a callback begins or ends, a runner goroutine
// starts or ends, or the relation set is touched
func activity() int64 {
	return hk.Now() + hk.Hits("proc.run.enter") + hk.Hits("proc.run.exit") + hk.Hits("proc.run.wake") +
		hk.Hits("meta.enter") + hk.Hits("meta.exit") + hk.Hits("meta.wake")
}

func quietPass(ps []*obs) bool {
	{
		for _, o := range ps {
			if o.inst.InCallback() || hk.LiveRunners(o.pid) > 0 {
				return false
			}
			info, err := node.ProcessInfo(o.pid)
			for _, mr := range o.metas {
				if mr.m.I.InCallback() || hk.LiveRunners(mr.alias) > 0 {
					return false
				}
				if !mr.alive && mr.m.I.TermCount.Load() == 0 && !(o.maybe && err == nil) {
					return false // expected to terminate: its terminate callback follows the alias drain
				}
			}
			if err != nil {
				// gone (expectedly or not): its terminate callback must have run
				if o.inst.TermCount.Load() == 0 {
					return false
				}
				continue
			}
			if !o.alive && !o.maybe {
				return false // expected to terminate, still there
			}
			if q := info.MailboxQueues; q.Main+q.System+q.Urgent+q.Log > 0 {
				return false
			}
			if info.State != gen.ProcessStateSleep {
				return false
			}
		}
		return true
	}
}

func isGone(o *obs) bool {
	_, err := node.ProcessInfo(o.pid)
	return err != nil
}

// ---------------------------------------------------------------------------
// results

type viol struct {
	sig  string
	what string
}

type result struct {
	viols []viol
	incon string
}

func (r *result) add(sig, format string, a ...any) {
	r.viols = append(r.viols, viol{sig, fmt.Sprintf(format, a...)})
}

// want: replay filter that also accepts the "#sig" suffixed ids of split violation cases
func want(id string) bool {
	o := hk.Only()
	if o == "" {
		return true
	}
	if i := strings.Index(o, "#"); i >= 0 {
		o = o[:i]
	}
	return o == id
}

// finish emits one case; several violation signatures in one case are emitted
// as separate cases (id#sig) so that a known finding cannot mask another one
func finish(id, scenario, key string, nontrivial bool, events int64, r *result, detail any) {
	c := hk.Case{ID: id, Scenario: scenario, Key: key, Nontrivial: nontrivial, Events: events, Detail: detail}
	if len(r.viols) == 0 {
		if r.incon != "" {
			c.Verdict = hk.Inconclusive
			c.What = r.incon
		} else {
			c.Verdict = hk.Held
		}
		hk.Emit(c)
		return
	}
	bySig := map[string][]string{}
	var sigs []string
	for _, v := range r.viols {
		if _, ok := bySig[v.sig]; !ok {
			sigs = append(sigs, v.sig)
		}
		bySig[v.sig] = append(bySig[v.sig], v.what)
	}
	sort.Strings(sigs)
	for k, s := range sigs {
		cc := c
		if k > 0 {
			cc.ID = id + "#" + s
		}
		cc.Verdict = hk.Violated
		cc.Sig = s
		w := bySig[s]
		if len(w) > 4 {
			w = append(w[:4:4], fmt.Sprintf("... and %d more", len(bySig[s])-4))
		}
		cc.What = strings.Join(w, " | ")
		hk.Emit(cc)
	}
}

// matchNotes compares the notifications observed at one live consumer with the
// expected multiset and appends violations
func matchNotes(r *result, who string, expected []note, observed []note, ctx string, missSig func(n note) string) (matched int) {
	used := make([]bool, len(expected))
	var extra []note
	for _, o := range observed {
		hit := false
		for i, e := range expected {
			if used[i] || e.Mon != o.Mon || e.Tgt != o.Tgt {
				continue
			}
			if !reasonOK(e.Reason, o.Reason) {
				continue
			}
			used[i] = true
			hit = true
			matched++
			break
		}
		if !hit {
			extra = append(extra, o)
		}
	}
	for _, o := range extra {
		// classify the unexpected notification
		sameTgt, sameTgtUnused := false, -1
		for i, e := range expected {
			if e.Mon == o.Mon && e.Tgt == o.Tgt {
				sameTgt = true
				if !used[i] {
					sameTgtUnused = i
				}
			}
		}
		switch {
		case sameTgtUnused >= 0:
			e := expected[sameTgtUnused]
			used[sameTgtUnused] = true // reported as wrong reason, not additionally as missing
			r.add(fmt.Sprintf("wrong-reason/%s/%s", relname(o.Mon), tkind(o.Tgt)),
				"%s got %v but the target went away with reason %q (%s)", who, o, e.Reason, ctx)
		case sameTgt:
			r.add(fmt.Sprintf("duplicate-notification/%s/%s", relname(o.Mon), tkind(o.Tgt)),
				"%s got %v more than once for one relation (%s)", who, o, ctx)
		default:
			r.add(fmt.Sprintf("spurious-notification/%s/%s", relname(o.Mon), tkind(o.Tgt)),
				"%s has no %s relation with that target but got %v (%s)", who, relname(o.Mon), o, ctx)
		}
	}
	for i, e := range expected {
		if used[i] {
			continue
		}
		r.add(missSig(e), "%s holds a successful, not removed %s on %s %v which went away with reason %q and never got the %s (%s)",
			who, relname(e.Mon), tkind(e.Tgt), e.Tgt, e.Reason, map[bool]string{false: "exit signal", true: "down message"}[e.Mon], ctx)
	}
	return
}

func defaultMissSig(n note) string {
	return fmt.Sprintf("missing-notification/%s/%s", relname(n.Mon), tkind(n.Tgt))
}

// ---------------------------------------------------------------------------

var statMu sync.Mutex
var stats = map[string]int64{}

func stat(name string, v int64) {
	statMu.Lock()
	stats[name] += v
	statMu.Unlock()
}

// freshNode starts a new node with a new tap and stops the previous one. The
// relations of terminated consumers are never removed by the framework (not
// this property), so a long-lived node makes every ProcessInfo slower and slower.
func freshNode() {
	old := node
	t := newTap()
	// network "hidden" (no acceptor, own registrar port) instead of disabled: a request on a target that the
	// router takes for remote must fail with an error (no route); with networking disabled it panics in GetConnection
	n, err := hk.StartNode(hk.NodeCfg{Name: hk.UniqueName("c04n"), Tweak: func(o *gen.NodeOptions) {
		o.TargetManager = t
		o.Network.Mode = gen.NetworkModeHidden
		o.Network.Cookie = "c04"
		o.Network.Registrar = registrar.Create(registrar.Options{Port: hk.FreePort()})
	}})
	if err != nil {
		fmt.Fprintln(os.Stderr, "start node:", err)
		os.Exit(3)
	}
	if old != nil {
		panicLines += old.Cap.Panics.Load()
		old.StopForce()
	}
	node, tm = n, t
}

var caseSeq int
var panicLines int64

// nextCase is called at the beginning of every case
func nextCase() {
	caseSeq++
	if caseSeq%400 == 0 {
		freshNode()
	}
}

func main() {
	hk.InstallHook()
	hk.Rule("D (directed): target kind {pid, name, alias, event, meta-process alias} x {link, monitor} x cause {Kill, handler error, unregister by owner, Node.UnregisterName, meta stop / handler error} x order of the steps check(C), insert(I) of the requester and table delete(X), drain(Y), continuation(Z) of the terminator: CIXY CXIY CXYI XCY YCZ XYCI, forced by gates at link.checked, proc.unreg.* / node.unregname.deleted and at the entry/exit of TargetManager.CleanupTarget (tap); the same for the REMOVAL of an established relation (UXY XUY YUZ XYU); the same with the target written as gen.Atom / with an empty Node (spelling); event subscribers parked at event.sub.added (CIsXYr, CIsXrY; first and second subscriber; unregister by owner, by the node, owner termination); DeleteAlias bookkeeping (n aliases, delete #i, watch #j); LinkChild with the parent parked at proc.spawn.linked; LinkParent. Init failure: a process spawns children (neither/LinkChild/LinkParent/both) inside Init and Init fails (error/wrapped/panic); non-trivial iff all judged children were spawned and decided. Non-trivial iff the order MEASURED from hook ticks and tap records equals the intended one. " +
		"R (race): the same pairs raced under seeded delays at the same yield points; non-trivial iff request and disappearance really overlapped (check passed although the delete preceded the insert, or the request ran between delete and drain); key includes the measured order and the result class. F (fan): 3-8 requesters on all target kinds of one owner racing one termination; non-trivial iff >=1 request overlapped the drain of its target. " +
		"S (history): seeded random sequential histories (<=40 operations over 3-9 trap-exit observers, targets written in random spellings, each operation decided at quiescence); non-trivial iff >=1 disappearance was matched by >=1 notification of a live relation; key = set of (relation x target kind x cause) classes notified in the history.")
	hk.Assume("observers are act.Actor processes with SetTrapExit(true); an exit signal from the parent is not trappable in act.Actor and is observed as the terminate reason of the child")
	hk.Assume("local targets only (one node, network mode hidden, no peers); remote links/monitors go through the network layer and are not exercised here")
	hk.Assume("a child spawned with LinkChild only holds no relation itself: whether it is stopped when its parent's Init fails is not judged")
	hk.Assume("a relation whose consumer has terminated expects nothing; consumers that die in the same step as the target (cascade through LinkParent) are not judged for other notifications of that step")
	freshNode()
	t0 := time.Now()
	runDirectedAll()
	tD := time.Since(t0)
	runRacesAll()
	tR := time.Since(t0) - tD
	runHistoriesAll()
	tS := time.Since(t0) - tD - tR

	statMu.Lock()
	for k, v := range stats {
		hk.Stat(k, v)
	}
	statMu.Unlock()
	hk.Note("wall_ms", map[string]int64{"directed": tD.Milliseconds(), "race": tR.Milliseconds(), "histories": tS.Milliseconds()})
	h, d := hk.PointStats()
	hits := map[string]int64{}
	for _, p := range []string{"link.checked", "proc.unreg.deleted", "proc.unreg.name", "proc.unreg.alias", "proc.unreg.event", "proc.spawn.linked"} {
		hits[p] = h[p]
	}
	hk.Note("hook_hits", hits)
	hk.Note("hook_delays", d)
	hk.Note("framework_panic_log_lines_total", panicLines+node.Cap.Panics.Load())
	os.Stdout.Sync()
	os.Exit(0)
}
