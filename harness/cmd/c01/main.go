// C01 — serial execution: one callback of a process at a time.
//
// Monitors: per-process callback depth counter, plain canary word checked by
// the race detector and by a lost-update test, callbacks-after-terminate.
// Workloads: directed gates on every state-word decision of run()/Kill()/meta
// handle(), plus seeded stress with many senders of every kind.
package main

import (
	"errors"
	"fmt"
	"os"
	"runtime"
	"sync"
	"sync/atomic"
	"time"

	"ergo.services/ergo/gen"

	"verif/harness/actors"
	"verif/harness/hk"
)

type work struct {
	ID   uint64
	Spin int // microseconds of busy work
}

type block struct {
	Entered chan struct{}
	Release chan struct{}
}

type burst struct {
	To    any
	N     int
	Prio  gen.MessagePriority
	Base  uint64
	After time.Duration
	Done  *sync.WaitGroup
}

type callOut struct {
	To      gen.PID
	Timeout int
	Done    chan error
}

type spawnMeta struct {
	M    *actors.Meta
	Done chan gen.Alias
	// Early > 0: send that many messages to the new meta process right after SpawnMeta
	// returned, i.e. possibly before its main-loop goroutine has started
	Early int
}

func spin(us int) {
	if us <= 0 {
		return
	}
	t := time.Now()
	for time.Since(t) < time.Duration(us)*time.Microsecond {
	}
}

// common message hook for probes
func probeHooks() *actors.Hooks {
	return &actors.Hooks{
		Msg: func(p *actors.Probe, from gen.PID, msg any) error {
			switch m := msg.(type) {
			case work:
				spin(m.Spin)
			case block:
				close(m.Entered)
				<-m.Release
			case burst:
				for i := 0; i < m.N; i++ {
					w := work{ID: m.Base + uint64(i), Spin: 0}
					if m.After > 0 {
						p.SendAfter(m.To, w, m.After)
					} else if m.Prio != gen.MessagePriorityNormal {
						p.SendWithPriority(m.To, w, m.Prio)
					} else {
						p.Send(m.To, w)
					}
				}
				if m.Done != nil {
					m.Done.Done()
				}
			case callOut:
				_, err := p.CallWithTimeout(m.To, work{ID: 1}, m.Timeout)
				m.Done <- err
			case spawnMeta:
				a, err := p.SpawnMeta(m.M, gen.MetaOptions{})
				if err != nil {
					close(m.Done)
				} else {
					for k := 0; k < m.Early; k++ {
						p.Send(a, work{ID: uint64(k), Spin: 3000})
					}
					m.Done <- a
				}
			case error:
				return m
			case string:
				if m == "panic" {
					panic("requested panic")
				}
			}
			return nil
		},
		Call: func(p *actors.Probe, from gen.PID, ref gen.Ref, req any) (any, error) {
			switch m := req.(type) {
			case work:
				spin(m.Spin)
			case block:
				close(m.Entered)
				<-m.Release
			}
			return "ok", nil
		},
	}
}

type result struct {
	viol  []string
	sig   string
	notes []string
	incon string
}

// checkInst applies the C01 oracles to one instrumented process at quiescence
func checkInst(i *actors.Inst, r *result) {
	if n := i.Overlaps.Load(); n > 0 {
		r.sig = "callback-overlap"
		w := i.OverlapWitness()
		r.viol = append(r.viol, fmt.Sprintf("%s (%s): %d callback entries found another callback of the same process in progress; witness: %v", i.Label, i.PID, n, w))
	}
	if v, c, ok := i.CanaryOK(); !ok {
		if r.sig == "" {
			r.sig = "canary-lost-update"
		}
		r.viol = append(r.viol, fmt.Sprintf("%s (%s): canary counter %d != 2 x callbacks %d (lost update = overlapping callbacks)", i.Label, i.PID, v, c))
	}
	if n := i.AfterTerm.Load(); n > 0 {
		if r.sig == "" {
			r.sig = "callback-after-terminate"
		}
		r.viol = append(r.viol, fmt.Sprintf("%s (%s): %d callbacks began after the terminate callback began", i.Label, i.PID, n))
	}
	if n := i.TermCount.Load(); n > 1 {
		if r.sig == "" {
			r.sig = "terminate-twice"
		}
		r.viol = append(r.viol, fmt.Sprintf("%s (%s): terminate callback ran %d times", i.Label, i.PID, n))
	}
}

func waitIdle(node gen.Node, pids []gen.PID, insts []*actors.Inst) bool {
	return hk.WaitUntil(20*time.Second, func() bool {
		for _, i := range insts {
			if i.InCallback() {
				return false
			}
		}
		for _, p := range pids {
			if hk.LiveRunners(p) > 0 {
				return false
			}
			info, err := node.ProcessInfo(p)
			if err != nil {
				continue // gone
			}
			if q := info.MailboxQueues; q.Main+q.System+q.Urgent+q.Log > 0 {
				return false
			}
			if info.State != gen.ProcessStateSleep {
				// Running: a runner goroutine was elected and may not have reached its first hook yet
				return false
			}
		}
		return true
	})
}

var node *hk.HNode

func finish(id, scenario, key string, nontrivial bool, events int64, r *result, detail any) {
	c := hk.Case{ID: id, Scenario: scenario, Key: key, Nontrivial: nontrivial, Events: events, Detail: detail}
	switch {
	case len(r.viol) > 0:
		c.Verdict = hk.Violated
		c.Sig = r.sig
		c.What = fmt.Sprint(r.viol)
	case r.incon != "":
		c.Verdict = hk.Inconclusive
		c.What = r.incon
	default:
		c.Verdict = hk.Held
	}
	hk.Emit(c)
}

// ---------------------------------------------------------------------------
// directed cases for ordinary processes

type dcase struct {
	park   string // point at which the runner is parked
	action string // interfering action
	kind   string // actor | raw
}

func spawnKind(kind, label string) (gen.PID, *actors.Inst, error) {
	var f gen.ProcessFactory
	var i *actors.Inst
	if kind == "raw" {
		f, i = actors.NewRaw(label, nil)
	} else {
		f, i = actors.NewProbe(label, probeHooks())
	}
	pid, err := node.Spawn(f, gen.ProcessOptions{})
	return pid, i, err
}

func runDirected(dc dcase) {
	id := fmt.Sprintf("D/%s/%s/%s", dc.kind, dc.park, dc.action)
	if !hk.Want(id) {
		return
	}
	r := &result{}
	pid, inst, err := spawnKind(dc.kind, id)
	if err != nil {
		r.incon = "spawn: " + err.Error()
		finish(id, "directed", id, false, 0, r, nil)
		return
	}
	// wait for the initial run() (spawn calls p.run()) to be over
	hk.WaitUntil(5*time.Second, func() bool { return hk.LiveRunners(pid) == 0 })

	overlap0 := hk.RunnerOverlap.Load()
	var g *hk.Gate
	fired := false
	if dc.park == "handler" {
		// park inside a handler (actor only)
		b := block{Entered: make(chan struct{}), Release: make(chan struct{})}
		node.Send(pid, b)
		select {
		case <-b.Entered:
			fired = true
		case <-time.After(5 * time.Second):
			r.incon = "gate: handler never entered"
		}
		interfere(dc.action, pid, r)
		close(b.Release)
	} else if dc.park == "reacquire" {
		g1 := hk.Park("proc.run.tosleep", hk.Eq(pid), false)
		node.Send(pid, work{ID: 1})
		if g1.WaitArrived(5*time.Second) == false {
			r.incon = "gate: tosleep never reached"
			g1.Release()
		} else {
			g = hk.Park("proc.run.reacquire", hk.Eq(pid), false)
			node.Send(pid, work{ID: 2}) // its wake-up CAS loses: state is still Running
			g1.Release()
			if g.WaitArrived(5*time.Second) == false {
				r.incon = "gate: reacquire never reached"
			} else {
				fired = true
				interfere(dc.action, pid, r)
			}
			g.Release()
			if g.TimedOut() || g1.TimedOut() {
				r.incon = "gate: released by deadline"
			}
		}
	} else {
		g = hk.Park("proc.run."+dc.park, hk.Eq(pid), false)
		node.Send(pid, work{ID: 1})
		if g.WaitArrived(5*time.Second) == false {
			r.incon = "gate: " + dc.park + " never reached"
		} else {
			fired = true
			interfere(dc.action, pid, r)
		}
		g.Release()
		if g.TimedOut() {
			r.incon = "gate: released by deadline"
		}
	}
	if !waitIdle(node, []gen.PID{pid}, []*actors.Inst{inst}) {
		if r.incon == "" {
			r.incon = "watchdog: no quiescence"
		}
	}
	// let a terminate goroutine (Kill path runs ProcessTerminate in its own goroutine) finish
	hk.WaitUntil(2*time.Second, func() bool {
		if _, err := node.ProcessInfo(pid); err == nil {
			return true
		}
		return inst.TermCount.Load() > 0 && !inst.InCallback()
	})
	checkInst(inst, r)
	contested := hk.RunnerOverlap.Load() > overlap0
	key := id
	if contested {
		key += "/two-runner-goroutines"
	}
	evs := inst.Events()
	finish(id, "directed", key, fired, int64(len(evs)), r, map[string]any{"events": fmt.Sprint(evs), "fired": fired})
	node.Kill(pid)
}

func interfere(action string, pid gen.PID, r *result) {
	switch action {
	case "send":
		node.Send(pid, work{ID: 100})
	case "send2":
		var wg sync.WaitGroup
		for k := 0; k < 2; k++ {
			wg.Add(1)
			go func(k int) { defer wg.Done(); node.Send(pid, work{ID: 100 + uint64(k)}) }(k)
		}
		wg.Wait()
	case "sendmax":
		node.SendWithPriority(pid, work{ID: 100}, gen.MessagePriorityMax)
	case "kill":
		node.Kill(pid)
	case "kill2":
		node.Kill(pid)
		node.Kill(pid)
	case "killsend":
		node.Kill(pid)
		node.Send(pid, work{ID: 100})
	case "sendkill":
		node.Send(pid, work{ID: 100})
		node.Kill(pid)
	case "exit":
		node.SendExit(pid, errors.New("custom"))
	case "exitkill":
		node.SendExit(pid, errors.New("custom"))
		node.Kill(pid)
	case "inspect":
		// an inspect request from a helper actor would block it; use exit+send mixture instead
		node.SendWithPriority(pid, work{ID: 101}, gen.MessagePriorityHigh)
		node.Send(pid, work{ID: 102})
	}
}

// Kill lands after ProcessRun returned (runner parked at tosleep); the runner is then parked
// again right before it finalizes the kill (proc.run.term.kill) and a sender tries to wake
// the process in that window: nothing may be handled beside / after the termination
func runKillAtSleepThenSend(kind string, n int) {
	id := fmt.Sprintf("D/%s/tosleep-kill/termkill-send/%d", kind, n)
	if !hk.Want(id) {
		return
	}
	r := &result{}
	pid, inst, err := spawnKind(kind, id)
	if err != nil {
		return
	}
	hk.WaitUntil(5*time.Second, func() bool { return hk.LiveRunners(pid) == 0 })
	g1 := hk.Park("proc.run.tosleep", hk.Eq(pid), false)
	g2 := hk.Park("proc.run.term.kill", hk.Eq(pid), false)
	node.Send(pid, work{ID: 1})
	fired := false
	if g1.WaitArrived(5 * time.Second) {
		node.Kill(pid)
		g1.Release()
		if g2.WaitArrived(5 * time.Second) {
			fired = true
			var wg sync.WaitGroup
			for k := 0; k < n; k++ {
				wg.Add(1)
				go func(k int) { defer wg.Done(); node.Send(pid, work{ID: 100 + uint64(k), Spin: 200}) }(k)
			}
			wg.Wait()
			// give a wrongly started second runner the chance to enter a callback
			hk.WaitUntil(20*time.Millisecond, func() bool { return inst.InCallback() })
		} else {
			r.incon = "gate: term.kill never reached"
		}
		g2.Release()
	} else {
		r.incon = "gate: tosleep never reached"
		g1.Release()
		g2.Release()
	}
	if g1.TimedOut() || g2.TimedOut() {
		r.incon = "gate: released by deadline"
	}
	hk.WaitUntil(5*time.Second, func() bool { return inst.TermCount.Load() > 0 && !inst.InCallback() && hk.LiveRunners(pid) == 0 })
	checkInst(inst, r)
	finish(id, "directed", id, fired, int64(len(inst.Events())), r, map[string]any{"events": fmt.Sprint(inst.Events())})
	node.Kill(pid)
}

// two wakers racing at the wake-up CAS
func runWakeRace(kind string, n int) {
	id := fmt.Sprintf("D/%s/wake-race/%d", kind, n)
	if !hk.Want(id) {
		return
	}
	r := &result{}
	pid, inst, err := spawnKind(kind, id)
	if err != nil {
		return
	}
	hk.WaitUntil(5*time.Second, func() bool { return hk.LiveRunners(pid) == 0 })
	g := hk.Park("proc.run.wake", hk.Eq(pid), true)
	var wg sync.WaitGroup
	for k := 0; k < n; k++ {
		wg.Add(1)
		go func(k int) { defer wg.Done(); node.Send(pid, work{ID: uint64(k), Spin: 20}) }(k)
	}
	fired := hk.WaitUntil(5*time.Second, func() bool { return g.ArrivedCount() >= n })
	g.Release()
	wg.Wait()
	if !fired {
		r.incon = "gate: not all wakers arrived"
	}
	if !waitIdle(node, []gen.PID{pid}, []*actors.Inst{inst}) && r.incon == "" {
		r.incon = "watchdog: no quiescence"
	}
	checkInst(inst, r)
	finish(id, "directed", id, fired, int64(len(inst.Events())), r, nil)
	node.Kill(pid)
}

// Kill of a process blocked in a Call (WaitResponse)
func runKillInCall(twice bool) {
	id := fmt.Sprintf("D/actor/waitresponse/kill twice=%v", twice)
	if !hk.Want(id) {
		return
	}
	r := &result{}
	calleeF, calleeI := actors.NewProbe(id+"/callee", probeHooks())
	callee, _ := node.Spawn(calleeF, gen.ProcessOptions{})
	pid, inst, _ := spawnKind("actor", id)
	b := block{Entered: make(chan struct{}), Release: make(chan struct{})}
	node.Send(callee, b) // callee is busy, so the call below waits
	<-b.Entered
	done := make(chan error, 1)
	node.Send(pid, callOut{To: callee, Timeout: 5, Done: done})
	fired := hk.WaitUntil(5*time.Second, func() bool {
		s, _ := node.ProcessState(pid)
		return s == gen.ProcessStateWaitResponse
	})
	node.Kill(pid)
	if twice {
		node.Kill(pid)
	}
	node.Send(pid, work{ID: 7})
	close(b.Release)
	select {
	case <-done:
	case <-time.After(8 * time.Second):
		r.incon = "watchdog: call did not return"
	}
	waitIdle(node, []gen.PID{pid, callee}, []*actors.Inst{inst, calleeI})
	hk.WaitUntil(2*time.Second, func() bool { return inst.TermCount.Load() > 0 && !inst.InCallback() })
	checkInst(inst, r)
	checkInst(calleeI, r)
	finish(id, "directed", id, fired, int64(len(inst.Events())), r, map[string]any{"events": fmt.Sprint(inst.Events())})
	node.Kill(callee)
}

// ---------------------------------------------------------------------------
// Init-window cases: the pid escapes from a running Init callback (Init publishes Process.PID()) and an
// outsider acts on it before Init returns.  Whatever the framework answers (unknown process is fine), no
// other callback of that process may run beside Init.

func runActDuringInit(action string) {
	id := "D/actor/init/" + action
	if !hk.Want(id) {
		return
	}
	r := &result{}
	h := probeHooks()
	pidc := make(chan gen.PID, 1)
	release := make(chan struct{})
	h.Init = func(p *actors.Probe, args ...any) error {
		pidc <- p.PID()
		<-release
		return nil
	}
	f, inst := actors.NewProbe(id, h)
	type sres struct {
		pid gen.PID
		err error
	}
	done := make(chan sres, 1)
	go func() {
		pid, err := node.Spawn(f, gen.ProcessOptions{})
		done <- sres{pid, err}
	}()
	fired := false
	var pid gen.PID
	select {
	case pid = <-pidc:
		fired = true
	case <-time.After(10 * time.Second):
		r.incon = "watchdog: Init never entered"
	}
	if fired {
		switch action {
		case "kill":
			node.Kill(pid)
		case "kill2":
			node.Kill(pid)
			node.Kill(pid)
		case "killsend":
			node.Kill(pid)
			node.Send(pid, work{ID: 1})
		case "sendkill":
			node.Send(pid, work{ID: 1})
			node.Kill(pid)
		case "exit":
			node.SendExit(pid, errors.New("boom"))
		case "exitkill":
			node.SendExit(pid, errors.New("boom"))
			node.Kill(pid)
		}
		// give a wrongly started Terminate/handler goroutine the chance to run while Init is still parked
		for k := 0; k < 200; k++ {
			runtime.Gosched()
		}
		spin(2000)
	}
	close(release)
	select {
	case sr := <-done:
		if sr.err == nil {
			node.Send(sr.pid, work{ID: 2})
			waitIdle(node, []gen.PID{sr.pid}, []*actors.Inst{inst})
			node.Kill(sr.pid)
		}
	case <-time.After(10 * time.Second):
		if r.incon == "" {
			r.incon = "watchdog: Spawn did not return"
		}
	}
	hk.WaitUntil(2*time.Second, func() bool { return !inst.InCallback() })
	checkInst(inst, r)
	finish(id, "directed", id, fired, int64(len(inst.Events())), r, map[string]any{"events": fmt.Sprint(inst.Events())})
}

// ---------------------------------------------------------------------------
// meta process directed cases

func runMetaDirected(park, action string) {
	id := fmt.Sprintf("D/meta/%s/%s", park, action)
	if !hk.Want(id) {
		return
	}
	r := &result{}
	pf, pi := actors.NewProbe(id+"/parent", probeHooks())
	parent, err := node.Spawn(pf, gen.ProcessOptions{})
	if err != nil {
		return
	}
	m := actors.NewMeta(id, &actors.MetaHooks{
		Msg: func(m *actors.Meta, from gen.PID, msg any) error {
			switch x := msg.(type) {
			case work:
				spin(x.Spin)
			case block:
				close(x.Entered)
				<-x.Release
			}
			return nil
		},
	})
	ch := make(chan gen.Alias, 1)
	node.Send(parent, spawnMeta{M: m, Done: ch})
	var alias gen.Alias
	select {
	case a, ok := <-ch:
		if !ok {
			r.incon = "spawn meta failed"
		}
		alias = a
	case <-time.After(5 * time.Second):
		r.incon = "spawn meta timeout"
	}
	if r.incon != "" {
		finish(id, "directed-meta", id, false, 0, r, nil)
		return
	}
	<-m.Started
	hk.WaitUntil(5*time.Second, func() bool { return hk.LiveRunners(alias) == 0 })
	fired := false
	act := func() {
		switch action {
		case "send":
			node.Send(alias, work{ID: 100})
		case "send2":
			var wg sync.WaitGroup
			for k := 0; k < 2; k++ {
				wg.Add(1)
				go func(k int) { defer wg.Done(); node.Send(alias, work{ID: 100 + uint64(k)}) }(k)
			}
			wg.Wait()
		case "stop":
			close(m.Stop) // Start() returns -> meta terminates
			time.Sleep(2 * time.Millisecond)
		case "killparent":
			node.Kill(parent)
		case "stopsend":
			close(m.Stop)
			node.Send(alias, work{ID: 100})
		}
	}
	if park == "handler" {
		b := block{Entered: make(chan struct{}), Release: make(chan struct{})}
		node.Send(alias, b)
		select {
		case <-b.Entered:
			fired = true
			act()
		case <-time.After(5 * time.Second):
			r.incon = "gate: meta handler never entered"
		}
		close(b.Release)
	} else {
		g := hk.Park("meta."+park, hk.Eq(alias), false)
		node.Send(alias, work{ID: 1})
		if g.WaitArrived(5 * time.Second) {
			fired = true
			act()
		} else {
			r.incon = "gate: meta." + park + " never reached"
		}
		g.Release()
		if g.TimedOut() {
			r.incon = "gate: released by deadline"
		}
	}
	hk.WaitUntil(10*time.Second, func() bool { return hk.LiveRunners(alias) == 0 && !m.I.InCallback() })
	select {
	case <-m.Stop:
	default:
		close(m.Stop)
	}
	hk.WaitUntil(5*time.Second, func() bool { return m.I.TermCount.Load() > 0 && !m.I.InCallback() && hk.LiveRunners(alias) == 0 })
	checkInst(m.I, r)
	checkInst(pi, r)
	if len(r.viol) > 0 && action == "stop" || len(r.viol) > 0 && action == "stopsend" {
		// Start() returning beside a running handler: distinct, specific signature
		r.sig = "meta-start-return-beside-handler"
	}
	finish(id, "directed-meta", id, fired, int64(len(m.I.Events())), r, map[string]any{"events": fmt.Sprint(m.I.Events())})
	node.Kill(parent)
}

// messages sent to a meta process immediately after SpawnMeta returned (before its
// main-loop goroutine ran): they must still be handled one at a time
func runMetaEarly(round int) {
	id := fmt.Sprintf("D/meta/early-send/%d", round)
	if !hk.Want(id) {
		return
	}
	r := &result{}
	pf, pi := actors.NewProbe(id+"/parent", probeHooks())
	parent, err := node.Spawn(pf, gen.ProcessOptions{})
	if err != nil {
		return
	}
	m := actors.NewMeta(id, &actors.MetaHooks{
		Msg: func(m *actors.Meta, from gen.PID, msg any) error {
			if x, ok := msg.(work); ok {
				spin(x.Spin)
			}
			return nil
		},
	})
	ch := make(chan gen.Alias, 1)
	n := 2 + round%3
	node.Send(parent, spawnMeta{M: m, Done: ch, Early: n})
	var alias gen.Alias
	select {
	case a, ok := <-ch:
		if !ok {
			r.incon = "spawn meta failed"
		}
		alias = a
	case <-time.After(10 * time.Second):
		r.incon = "spawn meta timeout"
	}
	if r.incon == "" {
		// a few more from plain goroutines while the first ones are being handled
		for k := 0; k < 2; k++ {
			node.Send(alias, work{ID: 100 + uint64(k), Spin: 500})
		}
		if !hk.WaitUntil(20*time.Second, func() bool {
			return m.I.Callbacks.Load() >= int64(1+n+2) && hk.LiveRunners(alias) == 0 && !m.I.InCallback()
		}) {
			r.incon = "watchdog: early messages not all handled"
		}
	}
	close(m.Stop)
	hk.WaitUntil(5*time.Second, func() bool { return m.I.TermCount.Load() > 0 && !m.I.InCallback() && hk.LiveRunners(alias) == 0 })
	checkInst(m.I, r)
	checkInst(pi, r)
	finish(id, "directed-meta", fmt.Sprintf("D/meta/early-send/n%d", n), r.incon == "", int64(len(m.I.Events())), r, map[string]any{"events": fmt.Sprint(m.I.Events())})
	node.Kill(parent)
}

// ---------------------------------------------------------------------------
// stress

func runStress(n int) {
	id := fmt.Sprintf("S/%d", n)
	if !hk.Want(id) {
		return
	}
	rng := hk.Rng("c01", id)
	r := &result{}
	receivers := []int{1, 4, 16}[rng.Intn(3)]
	senders := []int{2, 8, 24}[rng.Intn(3)]
	per := 100 + rng.Intn(300)
	killSome := rng.Intn(2) == 0
	maxSleep := time.Duration(50+rng.Intn(400)) * time.Microsecond
	hk.Stress(id, map[string]float64{
		"proc.run.wake": 0.05, "proc.run.tosleep": 0.2, "proc.run.recheck": 0.3, "proc.run.reacquire": 0.3,
		"proc.run.enter": 0.05, "proc.run.term.kill": 0.3, "proc.run.term.err": 0.3, "proc.kill.zombie": 0.3, "proc.kill.term": 0.5,
		"mpsc.push.swapped": 0.02, "meta.tosleep": 0.2, "meta.recheck": 0.3, "meta.reacquire": 0.3, "meta.wake": 0.05,
	}, maxSleep)
	defer hk.StressOff()
	overlap0 := hk.RunnerOverlap.Load()

	var pids []gen.PID
	var insts []*actors.Inst
	for k := 0; k < receivers; k++ {
		kind := "actor"
		if rng.Intn(4) == 0 {
			kind = "raw"
		}
		pid, inst, err := spawnKind(kind, fmt.Sprintf("%s/recv%d", id, k))
		if err != nil {
			continue
		}
		pids = append(pids, pid)
		insts = append(insts, inst)
	}
	// sender actors (other processes as senders)
	var senderPids []gen.PID
	var senderInsts []*actors.Inst
	for k := 0; k < 4; k++ {
		pid, inst, err := spawnKind("actor", fmt.Sprintf("%s/sender%d", id, k))
		if err == nil {
			senderPids = append(senderPids, pid)
			senderInsts = append(senderInsts, inst)
		}
	}
	var wg sync.WaitGroup
	var sent atomic.Int64
	for s := 0; s < senders; s++ {
		wg.Add(1)
		srng := hk.Rng("c01", id, fmt.Sprint(s))
		go func(s int) {
			defer wg.Done()
			for k := 0; k < per; k++ {
				to := pids[srng.Intn(len(pids))]
				w := work{ID: uint64(s)<<32 | uint64(k), Spin: srng.Intn(30)}
				switch srng.Intn(10) {
				case 0:
					node.SendWithPriority(to, w, gen.MessagePriorityHigh)
				case 1:
					node.SendWithPriority(to, w, gen.MessagePriorityMax)
				case 2:
					// through a sender process, possibly delayed
					var after time.Duration
					if srng.Intn(2) == 0 {
						after = time.Duration(srng.Intn(2000)) * time.Microsecond
					}
					node.Send(senderPids[srng.Intn(len(senderPids))], burst{To: to, N: 3, Base: uint64(s)<<32 | uint64(k)<<8, After: after, Prio: gen.MessagePriority(srng.Intn(3))})
				case 3:
					if killSome && srng.Intn(per) == 0 {
						node.Kill(to)
						if srng.Intn(2) == 0 {
							node.Kill(to)
						}
					} else {
						node.Send(to, w)
					}
				case 4:
					if killSome && srng.Intn(per) == 0 {
						node.SendExit(to, errors.New("stress-exit"))
					} else {
						node.Send(to, w)
					}
				default:
					node.Send(to, w)
				}
				sent.Add(1)
				if srng.Intn(8) == 0 {
					time.Sleep(time.Duration(srng.Intn(200)) * time.Microsecond)
				}
			}
		}(s)
	}
	wg.Wait()
	all := append(append([]gen.PID{}, pids...), senderPids...)
	allI := append(append([]*actors.Inst{}, insts...), senderInsts...)
	time.Sleep(5 * time.Millisecond) // let delayed sends fire
	if !waitIdle(node, all, allI) {
		r.incon = "watchdog: no quiescence"
	}
	hk.StressOff()
	time.Sleep(2 * time.Millisecond)
	waitIdle(node, all, allI)
	var events int64
	for _, i := range allI {
		checkInst(i, r)
		events += i.Callbacks.Load()
	}
	contested := hk.RunnerOverlap.Load() - overlap0
	hk.Stat("stress_two_runner_goroutine_moments", contested)
	hk.Stat("stress_messages_sent", sent.Load())
	key := fmt.Sprintf("S/r%d/s%d/kill=%v/contested=%v", receivers, senders, killSome, contested > 0)
	finish(id, "stress", key, contested > 0, events, r, map[string]any{"receivers": receivers, "senders": senders, "per_sender": per, "kill": killSome, "contested_moments": contested})
	for _, p := range all {
		node.Kill(p)
	}
}

func main() {
	hk.InstallHook()
	hk.Rule("directed: runner (or meta handler goroutine) parked by a gate at each state-word decision point x interfering action x behaviour kind, non-trivial iff the gate fired; stress: seeded random senders/killers with seeded delays at the yield points, non-trivial iff a moment with two live runner goroutines of one process was observed (a contested wake-up/sleep transition); distinct = scenario x parameters x contested class")
	hk.Assume("callbacks of the instrumented behaviours (act.Actor, raw gen.ProcessBehavior, gen.MetaBehavior) are representative of all behaviours: they share node/process.go run() and node/meta.go handle()")
	hk.Assume("meta Start() is the main loop and concurrent to handlers by design; it is not counted as a callback")
	var err error
	node, err = hk.StartNode(hk.NodeCfg{Name: "c01"})
	if err != nil {
		fmt.Fprintln(os.Stderr, "start node:", err)
		os.Exit(3)
	}
	for _, kind := range []string{"actor", "raw"} {
		for _, park := range []string{"tosleep", "recheck", "reacquire", "handler"} {
			if park == "handler" && kind == "raw" {
				continue
			}
			for _, action := range []string{"send", "send2", "sendmax", "kill", "kill2", "killsend", "sendkill", "exit", "exitkill", "inspect"} {
				runDirected(dcase{park: park, action: action, kind: kind})
			}
		}
		for _, n := range []int{2, 3, 8} {
			runWakeRace(kind, n)
		}
		for _, n := range []int{1, 2, 4} {
			runKillAtSleepThenSend(kind, n)
		}
	}
	runKillInCall(false)
	runKillInCall(true)
	for _, action := range []string{"kill", "kill2", "killsend", "sendkill", "exit", "exitkill"} {
		runActDuringInit(action)
	}
	for _, park := range []string{"tosleep", "recheck", "handler"} {
		for _, action := range []string{"send", "send2", "stop", "killparent", "stopsend"} {
			runMetaDirected(park, action)
		}
	}
	for k := 0; k < hk.Pick(30, 600); k++ {
		runMetaEarly(k)
	}
	n := hk.Pick(250, 6000)
	for k := 0; k < n; k++ {
		runStress(k)
	}
	h, d := hk.PointStats()
	hk.Note("hook_hits", h)
	hk.Note("hook_delays", d)
	hk.StatMax("max_live_runner_goroutines_per_process", int64(hk.MaxRunnersSeen()))
	if len(node.Cap.PanicLines()) > 0 {
		hk.Note("framework_panic_log_lines", node.Cap.PanicLines())
	}
	os.Stdout.Sync()
	os.Exit(0)
}
