package main

import (
	"errors"
	"fmt"
	"strings"
	"time"

	"ergo.services/ergo/gen"

	"verif/harness/actors"
	"verif/harness/hk"
)

// ---------------------------------------------------------------------------
// incarnations: the victim is stopped and a new node with the same name is
// started in a later second; identifiers of the old incarnation must be refused

type incCase struct {
	Dialer string // who establishes the connection with the new incarnation: A | B
	Stop   string // stopforce | stop
	Via    string // direct | relay
	Rep    int
}

func (ic incCase) id() string {
	return fmt.Sprintf("I/%s/%s/%s/%d", ic.Dialer, ic.Stop, ic.Via, ic.Rep)
}

type helper struct {
	pid  gen.PID
	inst *actors.Inst
	got  *[]string
}

// spawnVictimSet spawns the victim's processes in a fixed order so that the
// new incarnation reuses the numeric process ids of the old one
func spawnVictimSet(n *hk.HNode, label string) (*target, []*helper, error) {
	t, err := spawnTarget(n, label+"/tgt")
	if err != nil {
		return nil, nil, err
	}
	var hs []*helper
	for i := 0; i < 2; i++ {
		got := &[]string{}
		f, inst := actors.NewProbe(fmt.Sprintf("%s/helper%d", label, i), &actors.Hooks{
			Init: func(p *actors.Probe, args ...any) error { p.SetTrapExit(true); return nil },
			Msg: func(p *actors.Probe, from gen.PID, msg any) error {
				*got = append(*got, fmt.Sprintf("msg %T %v from %s", msg, msg, from))
				return nil
			},
			Call: func(p *actors.Probe, from gen.PID, ref gen.Ref, req any) (any, error) {
				*got = append(*got, fmt.Sprintf("call %v from %s", req, from))
				return "pong", nil
			},
		})
		pid, err := n.Spawn(f, gen.ProcessOptions{})
		if err != nil {
			return nil, nil, err
		}
		hs = append(hs, &helper{pid: pid, inst: inst, got: got})
	}
	return t, hs, nil
}

type staleOp struct {
	Name string
	Op   opSpec
	Tgt  string // pid | alias
	// Important: run with the process option ImportantDelivery switched on
	Important bool
}

func staleOps() []staleOp {
	return []staleOp{
		{"send-pid", opSpec{"send-pid", "send", "pid"}, "pid", false},
		{"call-pid", opSpec{"call-pid", "call", "pid"}, "pid", false},
		{"link-pid", opSpec{"link-pid", "link", "pid"}, "pid", false},
		{"monitor-pid", opSpec{"monitor-pid", "monitor", "pid"}, "pid", false},
		{"sendexit-pid", opSpec{"sendexit-pid", "sendexit", "pid"}, "pid", false},
		{"sendresponse-pid", opSpec{"sendresponse-pid", "respond", "pid"}, "pid", false},
		{"sendresponseerror-pid", opSpec{"sendresponseerror-pid", "responderr", "pid"}, "pid", false},
		{"send-alias", opSpec{"send-alias", "send", "alias"}, "alias", false},
		{"call-alias", opSpec{"call-alias", "call", "alias"}, "alias", false},
		{"link-alias", opSpec{"link-alias", "link", "alias"}, "alias", false},
		{"monitor-alias", opSpec{"monitor-alias", "monitor", "alias"}, "alias", false},
		// important delivery: explicit calls ...
		{"sendimportant-pid", opSpec{"sendimportant-pid", "sendimportant", "pid"}, "pid", false},
		{"sendimportant-alias", opSpec{"sendimportant-alias", "sendimportant", "alias"}, "alias", false},
		{"callimportant-pid", opSpec{"callimportant-pid", "callimportant", "pid"}, "pid", false},
		{"callimportant-alias", opSpec{"callimportant-alias", "callimportant", "alias"}, "alias", false},
		// ... and the process option ImportantDelivery around the plain operations
		{"send-pid+important-option", opSpec{"send-pid+important-option", "send", "pid"}, "pid", true},
		{"send-alias+important-option", opSpec{"send-alias+important-option", "send", "alias"}, "alias", true},
		{"call-pid+important-option", opSpec{"call-pid+important-option", "call", "pid"}, "pid", true},
		{"call-alias+important-option", opSpec{"call-alias+important-option", "call", "alias"}, "alias", true},
		{"link-pid+important-option", opSpec{"link-pid+important-option", "link", "pid"}, "pid", true},
		{"monitor-pid+important-option", opSpec{"monitor-pid+important-option", "monitor", "pid"}, "pid", true},
		{"sendexit-pid+important-option", opSpec{"sendexit-pid+important-option", "sendexit", "pid"}, "pid", true},
		{"sendresponse-pid+important-option", opSpec{"sendresponse-pid+important-option", "respond", "pid"}, "pid", true},
		{"sendresponseerror-pid+important-option", opSpec{"sendresponseerror-pid+important-option", "responderr", "pid"}, "pid", true},
	}
}

func runIncarnationCase(reg uint16, ic incCase) {
	id := ic.id()
	if !hk.Want(id) {
		return
	}
	v := &verdict{}
	emit := func(nontrivial bool, events int64, detail map[string]any) {
		cs := hk.Case{ID: id, Scenario: "incarnation", Key: fmt.Sprintf("I/%s/%s/%s", ic.Dialer, ic.Stop, ic.Via), Nontrivial: nontrivial && v.incon == "", Events: events, Detail: detail}
		detail["notes"] = v.notes
		switch {
		case len(v.viol) > 0:
			cs.Verdict = hk.Violated
			cs.Sig = v.sig()
			cs.What = strings.Join(v.viol, " | ")
		case v.incon != "":
			cs.Verdict = hk.Inconclusive
			cs.What = v.incon
		default:
			cs.Verdict = hk.Held
		}
		hk.Emit(cs)
	}
	p, err := newPairWith(reg, id, "A", nil, false, "")
	if err != nil {
		v.incon = "setup: " + err.Error()
		emit(false, 0, map[string]any{})
		return
	}
	defer p.close()
	// old incarnation
	tgt, helpers, err := spawnVictimSet(p.B, id+"/old")
	if err == nil {
		p.tgt = tgt
		err = p.connect()
	}
	if err != nil {
		v.incon = "setup: " + err.Error()
		emit(false, 0, map[string]any{})
		return
	}
	_ = helpers
	oldName := p.B.Name()
	oldCreation := p.B.Creation()
	oldPid, oldAlias := tgt.pid, tgt.alias
	// a reference minted by the old incarnation: the victim's target calls the observer
	co := callOut{To: p.obs.pid, Timeout: 5, Done: make(chan opResult, 1)}
	p.B.Send(tgt.pid, co)
	select {
	case r := <-co.Done:
		if r.Err != nil {
			v.incon = "setup: call from the victim failed: " + r.Err.Error()
		}
	case <-time.After(10 * time.Second):
		v.incon = "setup: watchdog: call from the victim"
	}
	// sanity: the identifiers work against the incarnation that minted them
	if v.incon == "" {
		for _, so := range []staleOp{{"call-pid", opSpec{"call-pid", "call", "pid"}, "pid", false}, {"call-alias", opSpec{"call-alias", "call", "alias"}, "alias", false}, {"callimportant-pid", opSpec{"callimportant-pid", "callimportant", "pid"}, "pid", false}, {"send-pid+important-option", opSpec{"send-pid+important-option", "send", "pid"}, "pid", true}} {
			r, ok := p.doCmd(p.obs, opCmd{Op: so.Op, Target: tgt.value(so.Tgt), Timeout: 5, Important: so.Important})
			if !ok || r.Err != nil {
				v.incon = fmt.Sprintf("setup: %s against the old incarnation: ok=%v err=%v", so.Name, ok, r.Err)
			}
		}
	}
	if v.incon != "" {
		emit(false, 0, map[string]any{})
		return
	}
	p.obs.mu.Lock()
	oldFrom, oldRef := p.obs.lastFrom, p.obs.lastRef
	p.obs.mu.Unlock()

	// stop the old incarnation
	if ic.Stop == "stop" {
		p.B.Stop()
	} else {
		p.B.StopForce()
	}
	p.R.Close()
	if !hk.WaitUntil(20*time.Second, func() bool { return !connected(p.A, oldName) }) {
		v.incon = "watchdog: the survivor still holds the connection with the stopped victim"
		emit(false, 0, map[string]any{})
		return
	}
	// creation stamps have one-second resolution: start the new incarnation in a later second
	for time.Now().Unix() <= oldCreation {
		time.Sleep(20 * time.Millisecond)
	}
	time.Sleep(100 * time.Millisecond)
	b2, _, err := startVictim(string(oldName), reg)
	if err != nil {
		v.incon = "setup: start of the new incarnation: " + err.Error()
		emit(false, 0, map[string]any{})
		return
	}
	p.B = b2
	tgt2, helpers2, err := spawnVictimSet(b2, id+"/new")
	if err != nil {
		v.incon = "setup: new incarnation processes: " + err.Error()
		emit(false, 0, map[string]any{})
		return
	}
	p.tgt = tgt2
	idsReused := tgt2.pid.ID == oldPid.ID && tgt2.pid.Node == oldPid.Node
	if b2.Creation() == oldCreation {
		v.incon = "setup: new incarnation has the same creation stamp"
		emit(false, 0, map[string]any{})
		return
	}
	// connect with the new incarnation
	switch {
	case ic.Via == "auto":
		// no explicit connect: the first stale operation makes the survivor resolve and dial the new incarnation
	case ic.Via == "relay":
		p.dialer = ic.Dialer
		p.f = &faultCtl{}
		err = p.connect()
	case ic.Dialer == "A":
		_, err = hk.Connect(p.A, b2)
	default:
		_, err = hk.Connect(b2, p.A)
	}
	if err == nil && ic.Via != "auto" && !hk.WaitUntil(5*time.Second, func() bool { return connected(p.A, oldName) && connected(b2, p.A.Name()) }) {
		err = errors.New("not registered on both sides")
	}
	if err != nil {
		v.incon = "setup: connect with the new incarnation: " + err.Error()
		emit(false, 0, map[string]any{})
		return
	}

	// stale identifiers
	type res struct {
		Op    string
		Err   string
		DurMs int64
	}
	var results []res
	for _, so := range staleOps() {
		var tv any = oldPid
		if so.Tgt == "alias" {
			tv = oldAlias
		}
		cmd := opCmd{Op: so.Op, Target: tv, Timeout: 1, Important: so.Important}
		if so.Op.Kind == "respond" || so.Op.Kind == "responderr" {
			cmd.Target = oldFrom
			cmd.Ref = oldRef
		}
		r, ok := p.doCmd(p.obs, cmd)
		results = append(results, res{so.Name, reasonText(r.Err), r.Dur.Milliseconds()})
		switch {
		case !ok:
			v.incon = "watchdog: stale " + so.Name + " did not return"
		case r.Err == nil:
			v.violate("stale-id-accepted:"+so.Name, fmt.Sprintf("%s with an identifier of the previous incarnation (%v, creation %d; peer creation now %d) returned nil", so.Name, cmd.Target, oldCreation, b2.Creation()))
		case !errors.Is(r.Err, gen.ErrProcessIncarnation):
			v.violate("stale-id-wrong-error:"+so.Name, fmt.Sprintf("%s with an identifier of the previous incarnation returned %q, not the incarnation error", so.Name, r.Err))
		}
		if v.incon != "" {
			break
		}
	}
	// node-level API
	if v.incon == "" {
		if err := p.A.Send(oldPid, "hello-from-node"); err == nil {
			v.violate("stale-id-accepted:node-send-pid", "Node.Send to a pid of the previous incarnation returned nil")
		} else if !errors.Is(err, gen.ErrProcessIncarnation) {
			v.violate("stale-id-wrong-error:node-send-pid", fmt.Sprintf("Node.Send returned %q", err))
		} else {
			results = append(results, res{"node-send-pid", err.Error(), 0})
		}
		if err := p.A.SendExit(oldPid, errors.New("c14-stale-node-exit")); err == nil {
			v.violate("stale-id-accepted:node-sendexit-pid", "Node.SendExit to a pid of the previous incarnation returned nil")
		} else if !errors.Is(err, gen.ErrProcessIncarnation) {
			v.violate("stale-id-wrong-error:node-sendexit-pid", fmt.Sprintf("Node.SendExit returned %q", err))
		} else {
			results = append(results, res{"node-sendexit-pid", err.Error(), 0})
		}
	}
	// the connection with the new incarnation works (the refusals above were not vacuous), twice for ordering
	syncOK := false
	if v.incon == "" {
		for i := 0; i < 2; i++ {
			r, ok := p.doOn(p.obs, opSpec{"sync-new", "call", "pid"}, tgt2.pid, 5)
			if !ok || r.Err != nil {
				v.incon = fmt.Sprintf("sync call to the new incarnation: ok=%v err=%v", ok, r.Err)
				break
			}
			syncOK = true
		}
	}
	// nothing of the above reached a process of the new incarnation
	var events int64
	if v.incon == "" {
		quiet := hk.WaitUntil(10*time.Second, func() bool {
			for _, pid := range []gen.PID{tgt2.pid, helpers2[0].pid, helpers2[1].pid} {
				info, err := b2.ProcessInfo(pid)
				if err != nil {
					continue
				}
				q := info.MailboxQueues
				if info.State != gen.ProcessStateSleep || q.Main+q.System+q.Urgent+q.Log > 0 || hk.LiveRunners(pid) > 0 {
					return false
				}
			}
			return true
		})
		if !quiet {
			v.incon = "watchdog: new incarnation not quiescent"
		}
		// the new target may have seen the two synchronising calls and nothing else
		syncSeen := 0
		for _, s := range tgt2.seen() {
			events++
			if strings.HasPrefix(s, "call ping from") && syncSeen < 2 {
				syncSeen++
				continue
			}
			v.violate("stale-id-delivered", "target of the new incarnation received: "+s)
		}
		for i, h := range helpers2 {
			for _, s := range *h.got {
				events++
				v.violate("stale-id-delivered", fmt.Sprintf("helper %d of the new incarnation received: %s", i, s))
			}
		}
		if _, err := b2.ProcessInfo(tgt2.pid); err != nil {
			v.violate("stale-id-delivered", "target of the new incarnation is gone: "+err.Error())
		}
		for _, k := range []relKey{{"exit", oldPid}, {"down", oldPid}, {"exit", oldAlias}, {"down", oldAlias}} {
			if l, _ := p.obs.listed(k); l {
				v.violate("stale-id-relation-created", fmt.Sprintf("relation %v on a stale identifier is in the survivor's relation table", k))
			}
		}
	}
	events += int64(len(results))
	emit(idsReused && syncOK, events, map[string]any{"case": ic, "results": results, "ids_reused": idsReused, "old_pid": oldPid.String(), "new_pid": tgt2.pid.String(), "old_creation": oldCreation, "new_creation": b2.Creation()})
}
