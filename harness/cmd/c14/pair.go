package main

import (
	"errors"
	"fmt"
	"net"
	"strings"
	"sync"
	"sync/atomic"
	"time"

	"ergo.services/ergo/gen"

	"verif/harness/actors"
	"verif/harness/hk"
	"verif/harness/relay"
)

// ---------------------------------------------------------------------------
// operations of the scripted exchange

type opSpec struct {
	Name string // unique within a script
	Kind string // link | monitor | call | send | sendexit | respond
	Tgt  string // pid | name | alias | event | node
}

func (o opSpec) relation() bool { return o.Kind == "link" || o.Kind == "monitor" }

// fullScript is the exchange every fault point is enumerated over. The node
// relations come first (they put nothing on the wire), so every byte offset
// of the rest lies behind an established relation.
func fullScript() []opSpec {
	return []opSpec{
		{"linknode", "link", "node"},
		{"monitornode", "monitor", "node"},
		{"linkpid", "link", "pid"},
		{"monitorpid", "monitor", "pid"},
		{"linkname", "link", "name"},
		{"monitorname", "monitor", "name"},
		{"linkalias", "link", "alias"},
		{"monitoralias", "monitor", "alias"},
		{"linkevent", "link", "event"},
		{"monitorevent", "monitor", "event"},
		{"callpid", "call", "pid"},
		{"sendpid", "send", "pid"},
		{"callname", "call", "name"},
		{"callalias", "call", "alias"},
	}
}

type opCmd struct {
	Op      opSpec
	Target  any
	Timeout int
	Ref     gen.Ref // for respond
	// Important: the process option ImportantDelivery is switched on around the operation
	Important bool
	Done      chan opResult
}

type opResult struct {
	Err   error
	Value any
	Dur   time.Duration
}

// runCmd is executed by a probe inside its own callback
type runCmd struct {
	F    func(p *actors.Probe)
	Done chan struct{}
}

func runIn(node gen.Node, pid gen.PID, f func(p *actors.Probe)) error {
	c := runCmd{F: f, Done: make(chan struct{})}
	if err := node.Send(pid, c); err != nil {
		return err
	}
	select {
	case <-c.Done:
		return nil
	case <-time.After(10 * time.Second):
		return fmt.Errorf("watchdog: command not executed by %s", pid)
	}
}

// ---------------------------------------------------------------------------
// observer (survivor side): probe logging every exit/down message

type notif struct {
	Kind   string // exit | down
	Target any    // gen.PID | gen.ProcessID | gen.Alias | gen.Event | gen.Atom (node)
	Reason error  // nil for node targets
	L      int64  // logical clock
	From   gen.PID
}

func (n notif) String() string {
	return fmt.Sprintf("%s(%T %v reason=%v from=%s l=%d)", n.Kind, n.Target, n.Target, n.Reason, n.From, n.L)
}

type relKey struct {
	Kind   string // exit | down
	Target any
}

type observer struct {
	label string
	trap  bool
	pid   gen.PID
	inst  *actors.Inst
	node  *hk.HNode
	mu    sync.Mutex
	log   []notif
	other []string // unexpected messages
	// termination (non-trap observers are expected to terminate)
	term       atomic.Bool
	termReason error
	termL      int64
	// last request received (incarnation family: a reference minted by the old incarnation)
	lastFrom gen.PID
	lastRef  gen.Ref
	gotCall  atomic.Int32
	// re-arm family: called inside the handler of every exit/down message; results of the
	// requests it makes are appended to rearms
	onNotif func(p *actors.Probe, n notif)
	rearms  []rearmLog
}

type rearmLog struct {
	Op   string
	Key  relKey
	Err  error
	L    int64 // logical clock when the request returned
	OnL  int64 // logical clock of the notification that triggered it
	DurU int64 // microseconds
}

func (o *observer) rearmResults() []rearmLog {
	o.mu.Lock()
	defer o.mu.Unlock()
	return append([]rearmLog(nil), o.rearms...)
}

func (o *observer) notifs() []notif {
	o.mu.Lock()
	defer o.mu.Unlock()
	return append([]notif(nil), o.log...)
}

func (o *observer) others() []string {
	o.mu.Lock()
	defer o.mu.Unlock()
	return append([]string(nil), o.other...)
}

func (o *observer) add(p *actors.Probe, n notif) {
	n.L = hk.Tick()
	o.mu.Lock()
	o.log = append(o.log, n)
	o.mu.Unlock()
	if o.onNotif != nil {
		// re-arming watchers act from inside the handler of the notification
		o.onNotif(p, n)
	}
}

func (o *observer) count(k relKey) int {
	o.mu.Lock()
	defer o.mu.Unlock()
	c := 0
	for _, n := range o.log {
		if n.Kind == k.Kind && n.Target == k.Target {
			c++
		}
	}
	return c
}

// idle: nothing in flight towards or inside the observer process
func (o *observer) idle() bool {
	if o.inst.InCallback() || hk.LiveRunners(o.pid) > 0 {
		return false
	}
	info, err := o.node.ProcessInfo(o.pid)
	if err != nil {
		return true // gone
	}
	q := info.MailboxQueues
	return info.State == gen.ProcessStateSleep && q.Main+q.System+q.Urgent+q.Log == 0
}

// listed reports whether the relation is still in the relation table of the survivor
func (o *observer) listed(k relKey) (bool, error) {
	info, err := o.node.ProcessInfo(o.pid)
	if err != nil {
		return false, err
	}
	has := func(n int, at func(i int) any) bool {
		for i := 0; i < n; i++ {
			if at(i) == k.Target {
				return true
			}
		}
		return false
	}
	if k.Kind == "exit" {
		switch k.Target.(type) {
		case gen.PID:
			return has(len(info.LinksPID), func(i int) any { return info.LinksPID[i] }), nil
		case gen.ProcessID:
			return has(len(info.LinksProcessID), func(i int) any { return info.LinksProcessID[i] }), nil
		case gen.Alias:
			return has(len(info.LinksAlias), func(i int) any { return info.LinksAlias[i] }), nil
		case gen.Event:
			return has(len(info.LinksEvent), func(i int) any { return info.LinksEvent[i] }), nil
		case gen.Atom:
			return has(len(info.LinksNode), func(i int) any { return info.LinksNode[i] }), nil
		}
		return false, nil
	}
	switch k.Target.(type) {
	case gen.PID:
		return has(len(info.MonitorsPID), func(i int) any { return info.MonitorsPID[i] }), nil
	case gen.ProcessID:
		return has(len(info.MonitorsProcessID), func(i int) any { return info.MonitorsProcessID[i] }), nil
	case gen.Alias:
		return has(len(info.MonitorsAlias), func(i int) any { return info.MonitorsAlias[i] }), nil
	case gen.Event:
		return has(len(info.MonitorsEvent), func(i int) any { return info.MonitorsEvent[i] }), nil
	case gen.Atom:
		return has(len(info.MonitorsNode), func(i int) any { return info.MonitorsNode[i] }), nil
	}
	return false, nil
}

func execOp(p *actors.Probe, m opCmd) opResult {
	t0 := time.Now()
	var res opResult
	if m.Important {
		if err := p.SetImportantDelivery(true); err != nil {
			return opResult{Err: fmt.Errorf("SetImportantDelivery: %w", err)}
		}
		defer p.SetImportantDelivery(false)
	}
	switch m.Op.Kind {
	case "sendimportant":
		res.Err = p.SendImportant(m.Target, "hello-important")
	case "callimportant":
		res.Value, res.Err = p.CallImportant(m.Target, "ping-important")
	case "link":
		switch t := m.Target.(type) {
		case gen.Event:
			_, res.Err = p.LinkEvent(t)
		case gen.Atom:
			res.Err = p.LinkNode(t)
		default:
			res.Err = p.Link(t)
		}
	case "monitor":
		switch t := m.Target.(type) {
		case gen.Event:
			_, res.Err = p.MonitorEvent(t)
		case gen.Atom:
			res.Err = p.MonitorNode(t)
		default:
			res.Err = p.Monitor(t)
		}
	case "call":
		res.Value, res.Err = p.CallWithTimeout(m.Target, "ping", m.Timeout)
	case "send":
		res.Err = p.Send(m.Target, "hello")
	case "sendexit":
		res.Err = p.SendExit(m.Target.(gen.PID), errors.New("c14-stale-exit"))
	case "respond":
		res.Err = p.SendResponse(m.Target.(gen.PID), m.Ref, "c14-stale-response")
	case "responderr":
		res.Err = p.SendResponseError(m.Target.(gen.PID), m.Ref, errors.New("c14-stale-response-error"))
	}
	res.Dur = time.Since(t0)
	return res
}

func observerFactory(o *observer) gen.ProcessFactory {
	f, inst := actors.NewProbe(o.label, &actors.Hooks{
		Init: func(p *actors.Probe, args ...any) error {
			p.SetTrapExit(o.trap)
			return nil
		},
		Msg: func(p *actors.Probe, from gen.PID, msg any) error {
			switch m := msg.(type) {
			case opCmd:
				m.Done <- execOp(p, m)
			case runCmd:
				m.F(p)
				close(m.Done)
			case gen.MessageExitPID:
				o.add(p, notif{Kind: "exit", Target: m.PID, Reason: m.Reason, From: from})
			case gen.MessageExitProcessID:
				o.add(p, notif{Kind: "exit", Target: m.ProcessID, Reason: m.Reason, From: from})
			case gen.MessageExitAlias:
				o.add(p, notif{Kind: "exit", Target: m.Alias, Reason: m.Reason, From: from})
			case gen.MessageExitEvent:
				o.add(p, notif{Kind: "exit", Target: m.Event, Reason: m.Reason, From: from})
			case gen.MessageExitNode:
				o.add(p, notif{Kind: "exit", Target: m.Name, From: from})
			case gen.MessageDownPID:
				o.add(p, notif{Kind: "down", Target: m.PID, Reason: m.Reason, From: from})
			case gen.MessageDownProcessID:
				o.add(p, notif{Kind: "down", Target: m.ProcessID, Reason: m.Reason, From: from})
			case gen.MessageDownAlias:
				o.add(p, notif{Kind: "down", Target: m.Alias, Reason: m.Reason, From: from})
			case gen.MessageDownEvent:
				o.add(p, notif{Kind: "down", Target: m.Event, Reason: m.Reason, From: from})
			case gen.MessageDownNode:
				o.add(p, notif{Kind: "down", Target: m.Name, From: from})
			default:
				o.mu.Lock()
				o.other = append(o.other, fmt.Sprintf("%T %v from %s", msg, msg, from))
				o.mu.Unlock()
			}
			return nil
		},
		Call: func(p *actors.Probe, from gen.PID, ref gen.Ref, req any) (any, error) {
			o.mu.Lock()
			o.lastFrom, o.lastRef = from, ref
			o.mu.Unlock()
			o.gotCall.Add(1)
			return "pong-from-survivor", nil
		},
		Terminate: func(p *actors.Probe, reason error) {
			o.mu.Lock()
			o.termReason = reason
			o.termL = hk.Tick()
			o.mu.Unlock()
			o.term.Store(true)
		},
	})
	o.inst = inst
	return f
}

// ---------------------------------------------------------------------------
// target (victim side): one process owning a pid, a registered name, an alias and an event

const tgtName = gen.Atom("c14target")
const evName = gen.Atom("c14event")

type target struct {
	pid   gen.PID
	alias gen.Alias
	token gen.Ref
	inst  *actors.Inst
	node  gen.Atom
	// how the survivor calls the registered name and the event (differs under an atom mapping)
	nameA, eventA gen.Atom
	mu            sync.Mutex
	got           []string // regular messages and exit signals seen by the target
}

func (t *target) value(kind string) any {
	switch kind {
	case "pid":
		return t.pid
	case "name":
		return gen.ProcessID{Name: t.nameA, Node: t.node}
	case "alias":
		return t.alias
	case "event":
		return gen.Event{Name: t.eventA, Node: t.node}
	case "node":
		return t.node
	}
	return nil
}

func (t *target) seen() []string {
	t.mu.Lock()
	defer t.mu.Unlock()
	return append([]string(nil), t.got...)
}

type callOut struct {
	To      any
	Timeout int
	Done    chan opResult
}

// spawnTarget spawns the target process (registered name) and lets it create its alias and event
func spawnTarget(node *hk.HNode, label string) (*target, error) {
	t := &target{node: node.Name(), nameA: tgtName, eventA: evName}
	f, inst := actors.NewProbe(label, &actors.Hooks{
		Init: func(p *actors.Probe, args ...any) error {
			p.SetTrapExit(true) // a stale exit signal that got through is logged, not fatal
			return nil
		},
		Msg: func(p *actors.Probe, from gen.PID, msg any) error {
			switch m := msg.(type) {
			case error:
				return m
			case runCmd:
				m.F(p)
				close(m.Done)
			case callOut:
				v, err := p.CallWithTimeout(m.To, "ping-from-victim", m.Timeout)
				m.Done <- opResult{Value: v, Err: err}
			default:
				t.mu.Lock()
				t.got = append(t.got, fmt.Sprintf("msg %T %v from %s", msg, msg, from))
				t.mu.Unlock()
			}
			return nil
		},
		Call: func(p *actors.Probe, from gen.PID, ref gen.Ref, req any) (any, error) {
			t.mu.Lock()
			t.got = append(t.got, fmt.Sprintf("call %v from %s", req, from))
			t.mu.Unlock()
			return "pong", nil
		},
	})
	t.inst = inst
	pid, err := node.SpawnRegister(tgtName, f, gen.ProcessOptions{})
	if err != nil {
		return nil, err
	}
	t.pid = pid
	// alias and event can only be created by the running process itself
	var e1, e2 error
	if err := runIn(node, pid, func(p *actors.Probe) {
		t.alias, e1 = p.CreateAlias()
		t.token, e2 = p.RegisterEvent(evName, gen.EventOptions{})
	}); err != nil {
		return nil, err
	}
	if e1 != nil || e2 != nil {
		return nil, fmt.Errorf("target setup: alias %v event %v", e1, e2)
	}
	return t, nil
}

// ---------------------------------------------------------------------------
// fault controller driven from the relay callbacks

type faultCtl struct {
	r     atomic.Pointer[relay.Relay]
	armed atomic.Bool
	dir   string
	k     int64
	// when: "after"  = act right after exactly k bytes were forwarded in dir;
	//       "arrive" = act when the first byte beyond k arrives at the relay (before it is forwarded)
	when   string
	action func()
	fired  atomic.Bool
	firedL atomic.Int64
}

func (f *faultCtl) done(dir string) int64 {
	r := f.r.Load()
	if r == nil {
		return 0
	}
	if dir == "up" {
		return r.BytesUp.Load()
	}
	return r.BytesDown.Load()
}

func (f *faultCtl) fire() {
	if f.fired.Swap(true) {
		return
	}
	f.firedL.Store(hk.Tick())
	f.action()
}

func (f *faultCtl) chunk(dir string, avail int) int {
	if !f.armed.Load() || dir != f.dir || f.fired.Load() {
		return avail
	}
	d := f.done(dir)
	if d < f.k {
		if int64(avail) > f.k-d {
			return int(f.k - d)
		}
		return avail
	}
	// bytes beyond k are arriving
	f.fire()
	return avail
}

func (f *faultCtl) delay(dir string) time.Duration {
	if !f.armed.Load() || dir != f.dir || f.fired.Load() {
		return 0
	}
	if f.when == "after" && f.done(dir) >= f.k {
		f.fire()
	}
	return 0
}

// ---------------------------------------------------------------------------
// logger counting the re-join attempts the victim's acceptor refused

type warnCounter struct {
	rejected atomic.Int64
}

func (w *warnCounter) Log(m gen.MessageLog) {
	// refused re-join of a connection the victim does not have (anymore) / of a connection with another id
	if m.Level == gen.LogLevelWarning && strings.HasPrefix(m.Format, "unable to create new connection") {
		w.rejected.Add(1)
	}
	if m.Level == gen.LogLevelTrace && strings.HasPrefix(m.Format, "unable to join") {
		w.rejected.Add(1)
	}
}
func (w *warnCounter) Terminate() {}

// ---------------------------------------------------------------------------
// a node pair: survivor A, victim B, relay between them

type pair struct {
	A, B    *hk.HNode
	R       *relay.Relay
	spawner gen.PID // parent of the observers on A (so that their parent is not the node core)
	obs     *observer
	tgt     *target
	f       *faultCtl
	reg     uint16
	warnB   *warnCounter
	// dialer: "A" = survivor dialed the victim (relay in front of B), "B" = victim dialed the survivor (relay in front of A)
	dialer string
	label  string
	opt    pairOpt
	joins0 int64          // joinCount of the acceptor port right after the connection was established
	conn0  gen.RemoteNode // the survivor's connection with the victim as established by connect()
}

// lostOld: the survivor's connection established by connect() is not registered anymore
// (it may have been replaced by a newer one, e.g. dialed by the victim)
func (p *pair) lostOld() bool {
	if !p.A.IsAlive() {
		return true
	}
	cur, err := p.A.Network().Node(p.B.Name())
	return err != nil || cur != p.conn0
}

// rejoined: a further TCP link was joined on the acceptor of this pair's connection after it was established
func (p *pair) rejoined() bool { return joinCount(p.acceptorPort()) > p.joins0 }

// wire direction (relay terms) of frames travelling from A to B
func (p *pair) dirAB() string {
	if p.dialer == "B" {
		return "down"
	}
	return "up"
}

func (p *pair) dirBA() string {
	if p.dialer == "B" {
		return "up"
	}
	return "down"
}

// bytes forwarded so far from A to B / from B to A
func (p *pair) bytesAB() int64 {
	if p.dialer == "B" {
		return p.R.BytesDown.Load()
	}
	return p.R.BytesUp.Load()
}

func (p *pair) bytesBA() int64 {
	if p.dialer == "B" {
		return p.R.BytesUp.Load()
	}
	return p.R.BytesDown.Load()
}

// settleCounters waits until the relay counters stopped moving (only used to place fault offsets, never for a verdict)
func (p *pair) settleCounters() (int64, int64) {
	ab, ba := p.bytesAB(), p.bytesBA()
	same := 0
	for i := 0; i < 2000 && same < 4; i++ {
		time.Sleep(250 * time.Microsecond)
		ab2, ba2 := p.bytesAB(), p.bytesBA()
		if ab2 == ab && ba2 == ba {
			same++
		} else {
			same = 0
			ab, ba = ab2, ba2
		}
	}
	return ab, ba
}

var nameSeq atomic.Int64

// fixed-width node names keep the frames the same size in every run
func nodeName(prefix string) string {
	return fmt.Sprintf("c14%s%05d@localhost", prefix, nameSeq.Add(1))
}

func startVictim(name string, reg uint16) (*hk.HNode, *warnCounter, error) {
	return startVictimPool(name, reg, 1)
}

func startVictimPool(name string, reg uint16, pool int) (*hk.HNode, *warnCounter, error) {
	w := &warnCounter{}
	n, err := hk.StartNode(hk.NodeCfg{Name: name, Network: true, RegPort: reg, PoolSize: pool, Tweak: func(o *gen.NodeOptions) {
		o.Log.Level = gen.LogLevelTrace
		if len(o.Log.Loggers) < 2 {
			o.Log.Loggers = append(o.Log.Loggers, gen.Logger{Name: "c14warn", Logger: w})
		}
	}})
	return n, w, err
}

func newPair(reg uint16, label string, dialer string, f *faultCtl) (*pair, error) {
	return newPairWith(reg, label, dialer, f, true, "")
}

// newPairWith: full=false leaves spawning the victim's processes and connecting to the caller.
// skew: "same" = both nodes carry the same creation stamp (started in the same second),
// "diff" = the victim is started in a later second than the survivor, "" = as it comes
// pairOpt: optional features of a pair
type pairOpt struct {
	Pool     int  // TCP links per connection (default 1)
	MapNames bool // the survivor's side of the connection carries an atom mapping renaming the target's name and event
	Direct   bool // no relay: the dialer dials the acceptor directly (needed for pools > 1)
}

// names the survivor uses for the victim's registered name and event when the connection carries an atom mapping
const tgtNameA = gen.Atom("c14target_a")
const evNameA = gen.Atom("c14event_a")

func survivorMapping() map[gen.Atom]gen.Atom {
	return map[gen.Atom]gen.Atom{tgtNameA: tgtName, evNameA: evName}
}

func newPairWith(reg uint16, label string, dialer string, f *faultCtl, full bool, skew string, opts ...pairOpt) (*pair, error) {
	p := &pair{reg: reg, f: f, dialer: dialer, label: label}
	if len(opts) > 0 {
		p.opt = opts[0]
	}
	if p.opt.Pool == 0 {
		p.opt.Pool = 1
	}
	if p.f == nil {
		p.f = &faultCtl{}
	}
	if p.dialer == "" {
		p.dialer = "A"
	}
	var err error
	for attempt := 0; ; attempt++ {
		p.A, err = hk.StartNode(hk.NodeCfg{Name: nodeName("a"), Network: true, RegPort: reg, PoolSize: p.opt.Pool, Tweak: func(o *gen.NodeOptions) {
			if p.opt.MapNames && p.dialer == "B" {
				// the victim dials: the mapping of the survivor's side lives in its acceptor
				for i := range o.Network.Acceptors {
					o.Network.Acceptors[i].AtomMapping = survivorMapping()
				}
			}
		}})
		if err != nil {
			return nil, fmt.Errorf("start A: %w", err)
		}
		if skew == "diff" {
			for time.Now().Unix() <= p.A.Creation() {
				time.Sleep(10 * time.Millisecond)
			}
		}
		p.B, p.warnB, err = startVictimPool(nodeName("b"), reg, p.opt.Pool)
		if err != nil {
			p.A.StopForce()
			return nil, fmt.Errorf("start B: %w", err)
		}
		if skew == "same" && p.A.Creation() != p.B.Creation() && attempt < 5 {
			p.A.StopForce()
			p.B.StopForce()
			continue
		}
		break
	}
	if (skew == "same") != (p.A.Creation() == p.B.Creation()) && skew != "" {
		p.close()
		return nil, fmt.Errorf("creation stamps: wanted %s, got %d / %d", skew, p.A.Creation(), p.B.Creation())
	}
	sf, _ := actors.NewProbe(label+"/spawner", &actors.Hooks{
		Msg: func(pr *actors.Probe, from gen.PID, msg any) error {
			if m, ok := msg.(runCmd); ok {
				m.F(pr)
				close(m.Done)
			}
			return nil
		},
	})
	p.spawner, err = p.A.Spawn(sf, gen.ProcessOptions{})
	if err != nil {
		p.close()
		return nil, fmt.Errorf("spawn spawner: %w", err)
	}
	if p.obs, err = p.newObserver("obs", true); err != nil {
		p.close()
		return nil, err
	}
	if !full {
		return p, nil
	}
	if p.tgt, err = spawnTarget(p.B, label+"/tgt"); err != nil {
		p.close()
		return nil, fmt.Errorf("spawn target: %w", err)
	}
	if p.opt.MapNames {
		p.tgt.nameA, p.tgt.eventA = tgtNameA, evNameA
	}
	if err := p.connect(); err != nil {
		p.close()
		return nil, err
	}
	return p, nil
}

// newObserver spawns an observer as a child of the spawner process
func (p *pair) newObserver(name string, trap bool) (*observer, error) {
	o := &observer{label: p.label + "/" + name, trap: trap, node: p.A}
	f := observerFactory(o)
	var pid gen.PID
	var serr error
	if err := runIn(p.A, p.spawner, func(pr *actors.Probe) {
		pid, serr = pr.Spawn(f, gen.ProcessOptions{})
	}); err != nil {
		return nil, err
	}
	if serr != nil {
		return nil, fmt.Errorf("spawn observer: %w", serr)
	}
	o.pid = pid
	return o, nil
}

func (p *pair) connect() error {
	var err error
	from, to := p.A, p.B
	if p.dialer == "B" {
		from, to = p.B, p.A
	}
	port := to.Port
	if !p.opt.Direct {
		p.R, err = relay.Start(relay.Config{
			Target: fmt.Sprintf("127.0.0.1:%d", to.Port),
			Chunk:  p.f.chunk,
			Delay:  p.f.delay,
		})
		if err != nil {
			return fmt.Errorf("relay: %w", err)
		}
		p.f.r.Store(p.R)
		port = p.R.Port
	}
	route := gen.NetworkRoute{Route: gen.Route{Host: "127.0.0.1", Port: port}, Cookie: to.Cookie}
	if p.opt.MapNames && p.dialer == "A" {
		route.AtomMapping = survivorMapping()
	}
	if _, err := from.Network().GetNodeWithRoute(to.Name(), route); err != nil {
		return fmt.Errorf("connect: %w", err)
	}
	if !hk.WaitUntil(5*time.Second, func() bool { return connected(p.A, p.B.Name()) && connected(p.B, p.A.Name()) }) {
		return fmt.Errorf("connect: not registered on both sides")
	}
	p.joins0 = joinCount(p.acceptorPort())
	p.conn0, err = p.A.Network().Node(p.B.Name())
	if err != nil {
		return fmt.Errorf("connect: %w", err)
	}
	return nil
}

func (p *pair) close() {
	if p.R != nil {
		p.R.Close()
	}
	if p.A != nil {
		forgetSockets(p.A.Port)
	}
	if p.B != nil {
		forgetSockets(p.B.Port)
	}
	if p.B != nil {
		p.B.StopForce()
	}
	if p.A != nil {
		p.A.StopForce()
	}
}

// do runs one operation on the main observer; ok=false if the watchdog expired
func (p *pair) do(op opSpec) (opResult, bool) {
	return p.doOn(p.obs, op, p.tgt.value(op.Tgt), 1)
}

func (p *pair) doOn(o *observer, op opSpec, tgt any, timeout int) (opResult, bool) {
	return p.doCmd(o, opCmd{Op: op, Target: tgt, Timeout: timeout})
}

func (p *pair) doCmd(o *observer, c opCmd) (opResult, bool) {
	c.Done = make(chan opResult, 1)
	if err := p.A.Send(o.pid, c); err != nil {
		return opResult{Err: fmt.Errorf("harness send: %w", err)}, false
	}
	select {
	case r := <-c.Done:
		return r, true
	case <-time.After(25 * time.Second):
		return opResult{}, false
	}
}

// joins counts successful Join()s of TCP links into connections, per local port of the link:
// for an acceptor port p, joinCount(p) >= 2 means a re-dialed link was joined to a connection of that acceptor
var joinCounts sync.Map // port(int) -> *atomic.Int64

func installJoinObserver() {
	hk.Observe("conn.join", nil, func(point string, subject any) {
		c, ok := subject.(net.Conn)
		if !ok || c == nil {
			return
		}
		a, ok := c.LocalAddr().(*net.TCPAddr)
		if !ok {
			return
		}
		v, _ := joinCounts.LoadOrStore(a.Port, new(atomic.Int64))
		v.(*atomic.Int64).Add(1)
		joinedMu.Lock()
		joined[a.Port] = append(joined[a.Port], c)
		joinedMu.Unlock()
	})
}

// sockets joined to connections, per local port (the acceptor side of a pooled link has the acceptor's port)
var joinedMu sync.Mutex
var joined = map[int][]net.Conn{}

func joinedSockets(port uint16) []net.Conn {
	joinedMu.Lock()
	defer joinedMu.Unlock()
	return append([]net.Conn(nil), joined[int(port)]...)
}

func forgetSockets(port uint16) {
	joinedMu.Lock()
	delete(joined, int(port))
	joinedMu.Unlock()
}

func joinCount(port uint16) int64 {
	v, ok := joinCounts.Load(int(port))
	if !ok {
		return 0
	}
	return v.(*atomic.Int64).Load()
}

// acceptorPort is the port of the acceptor the relayed connection of this pair was accepted on
func (p *pair) acceptorPort() uint16 {
	if p.dialer == "B" {
		return p.A.Port
	}
	return p.B.Port
}

// connected reports whether node a has a connection with node b in its table
func connected(a *hk.HNode, b gen.Atom) bool {
	if a == nil || !a.IsAlive() {
		return false
	}
	_, err := a.Network().Node(b)
	return err == nil
}
