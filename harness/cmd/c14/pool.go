package main

import (
	"errors"
	"fmt"
	"strings"
	"time"

	"ergo.services/ergo/gen"

	"verif/harness/hk"
)

// ---------------------------------------------------------------------------
// pooled-link family: the survivor dials the victim with a pool of several
// TCP links; exactly one pooled link is closed and re-dialled by the dialing
// side; LATER the connection is dropped {RemoteNode.Disconnect on the
// survivor, NetworkStop on the survivor, StopForce of the victim, Disconnect
// on the victim}. Every relation the survivor's processes hold must be
// notified exactly once with ErrNoConnection and the victim must leave the
// survivor's connection table.

type poolCase struct {
	Dialer string // A = the survivor is the dialing side, B = the victim is
	Pool   int
	Cut    int    // which pooled link (in join order on the accepting side) is closed
	Side   string // which end of that link the harness closes: acceptor | none (no flap)
	Drop   string // disconnect | netstop | peerstop | peerdisconnect
	Rep    int
}

func (pc poolCase) id() string {
	return fmt.Sprintf("P/%s/pool%d/cut%d-%s/%s/%d", pc.Dialer, pc.Pool, pc.Cut, pc.Side, pc.Drop, pc.Rep)
}

func runPoolCase(reg uint16, pc poolCase) {
	if !hk.Want(pc.id()) {
		return
	}
	// a failing setup is retried, it is not a verdict
	for attempt := 0; attempt < 3; attempt++ {
		if !runPoolCaseOnce(reg, pc, attempt == 2) {
			return
		}
		setupRetries.Add(1)
	}
}

// runPoolCaseOnce returns true if the setup failed and the case should be retried
func runPoolCaseOnce(reg uint16, pc poolCase, last bool) (retry bool) {
	id := pc.id()
	v := &verdict{}
	var events int64
	detail := map[string]any{"case": pc}
	nontrivial := false
	finish := func() {
		if strings.HasPrefix(v.incon, "setup:") && len(v.viol) == 0 && !last {
			retry = true
			return
		}
		cs := hk.Case{ID: id, Scenario: "pool-redial", Key: fmt.Sprintf("P/%s/pool%d/cut%d-%s/%s", pc.Dialer, pc.Pool, pc.Cut, pc.Side, pc.Drop), Nontrivial: nontrivial && v.incon == "", Events: events, Detail: detail}
		detail["notes"] = v.notes
		switch {
		case len(v.viol) > 0:
			cs.Verdict = hk.Violated
			cs.Sig = v.sig()
			cs.What = strings.Join(v.viol, " | ")
		case v.incon != "":
			cs.Verdict = hk.Inconclusive
			cs.What = v.incon
		default:
			cs.Verdict = hk.Held
		}
		hk.Emit(cs)
	}
	var p *pair
	var err error
	for attempt := 0; attempt < 3; attempt++ {
		if p, err = newPairWith(reg, id, pc.Dialer, nil, true, "", pairOpt{Pool: pc.Pool, Direct: true}); err == nil {
			break
		}
	}
	if err != nil {
		v.incon = "setup: " + err.Error()
		finish()
		return
	}
	defer p.close()
	victim := p.B.Name()
	accPort := p.acceptorPort()
	// the whole pool must be up: the accepting side joined Pool links
	if !hk.WaitUntil(10*time.Second, func() bool { return len(joinedSockets(accPort)) >= pc.Pool }) {
		v.incon = fmt.Sprintf("setup: pool incomplete: %d of %d links joined on the accepting side", len(joinedSockets(accPort)), pc.Pool)
		finish()
		return
	}
	// relations: main observer (all kinds), bystander, plain linker
	by, err := p.newObserver("bystander", true)
	if err != nil {
		v.incon = "setup: " + err.Error()
		finish()
		return
	}
	plain, err := p.newObserver("plain", false)
	if err != nil {
		v.incon = "setup: " + err.Error()
		finish()
		return
	}
	type exp struct {
		o    *observer
		k    relKey
		name string
	}
	var exps []exp
	setup := func(o *observer, ops []opSpec) bool {
		for _, op := range ops {
			if !op.relation() {
				continue
			}
			tgt := p.tgt.value(op.Tgt)
			r, ok := p.doOn(o, op, tgt, 5)
			if !ok || r.Err != nil {
				v.incon = fmt.Sprintf("setup: %s %s: ok=%v err=%v", o.label, op.Name, ok, r.Err)
				return false
			}
			exps = append(exps, exp{o, keyOf(op, tgt), op.Kind + "-" + op.Tgt})
		}
		return true
	}
	if !setup(p.obs, fullScript()) || !setup(by, bystanderScript()) {
		finish()
		return
	}
	if r, ok := p.doOn(plain, opSpec{"plainlinkpid", "link", "pid"}, p.tgt.pid, 5); !ok || r.Err != nil {
		v.incon = fmt.Sprintf("setup: plain link: ok=%v err=%v", ok, r.Err)
		finish()
		return
	}

	// flap one pooled link
	rejoined := false
	if pc.Side != "none" {
		socks := joinedSockets(accPort)
		before := len(socks)
		socks[pc.Cut%pc.Pool].Close()
		rejoined = hk.WaitUntil(10*time.Second, func() bool { return len(joinedSockets(accPort)) > before })
		if !rejoined {
			v.incon = "setup: the closed pooled link was not re-dialled within 10 s"
			finish()
			return
		}
		// the connection must have survived the flap, on both sides, and still work
		if p.lostOld() || !connected(p.B, p.A.Name()) {
			v.incon = "setup: the connection did not survive the flap of one pooled link"
			finish()
			return
		}
		okCalls := 0
		for i := 0; i < 2*pc.Pool; i++ {
			if r, ok := p.doOn(p.obs, syncOp, p.tgt.pid, 2); ok && r.Err == nil {
				okCalls++
			}
		}
		detail["round_trips_after_flap"] = fmt.Sprintf("%d of %d", okCalls, 2*pc.Pool)
		if okCalls == 0 {
			v.incon = "setup: no round trip works after the flap"
			finish()
			return
		}
		for _, o := range []*observer{p.obs, by} {
			if n := len(o.notifs()); n > 0 {
				v.violate("notification-while-connected", fmt.Sprintf("%s got %d notifications although only one of %d pooled links flapped: %v", o.label, n, pc.Pool, o.notifs()))
			}
		}
	}
	nontrivial = rejoined

	// drop the connection
	lDrop := hk.Tick()
	rejected0 := p.warnB.rejected.Load()
	what := ""
	switch pc.Drop {
	case "disconnect":
		rn, err := p.A.Network().Node(victim)
		if err != nil {
			v.incon = "setup: " + err.Error()
			finish()
			return
		}
		rn.Disconnect()
		what = "the survivor called RemoteNode.Disconnect()"
	case "netstop":
		p.A.NetworkStop()
		what = "the survivor called NetworkStop()"
	case "peerstop":
		p.B.StopForce()
		what = "the victim was stopped (StopForce)"
	case "peerdisconnect":
		rn, err := p.B.Network().Node(p.A.Name())
		if err != nil {
			v.incon = "setup: " + err.Error()
			finish()
			return
		}
		rn.Disconnect()
		what = "the victim called RemoteNode.Disconnect()"
	}
	gone := func() bool {
		if pc.Drop == "netstop" {
			// the network stack of the survivor is down: ask the connection table through Nodes()
			defer func() { recover() }()
		}
		return p.lostOld()
	}
	all := []*observer{p.obs, by}
	idle := func() bool {
		for _, o := range all {
			if !o.idle() {
				return false
			}
		}
		return true
	}
	missing := func() []string {
		var m []string
		for _, e := range exps {
			if e.o.count(e.k) == 0 && !e.o.term.Load() {
				listed, _ := e.o.listed(e.k)
				m = append(m, fmt.Sprintf("%s %s on %v (still in the relation table: %v)", e.o.label, e.name, e.k.Target, listed))
			}
		}
		return m
	}
	// the connection entry must go away; stuck state = entry still there, everything idle, for 10 s after the drop call returned
	var stuckSince time.Time
	deadline := time.Now().Add(40 * time.Second)
	for !gone() {
		if idle() {
			if stuckSince.IsZero() {
				stuckSince = time.Now()
			} else if time.Since(stuckSince) > 10*time.Second {
				if n := p.warnB.rejected.Load() - rejected0; pc.Dialer == "A" && pc.Drop == "peerdisconnect" && n >= 10 {
					// the known re-join loop of the dialing side: the victim is alive and refuses the re-joins of the connection it dropped
					v.violate(sigRejoinLoop, fmt.Sprintf("%s and stays alive; the survivor (dialing side, pool of %d) keeps its connection entry and re-dials the victim's acceptor in a loop: %d re-join handshakes refused so far, no node-down, %d relations unnotified", what, pc.Pool, n, len(missing())))
					break
				}
				v.violate("connection-entry-survives-drop-after-pool-redial", fmt.Sprintf("%s (pool of %d links, link %d had been closed and re-dialled before: %v); 10 s later the survivor still lists the connection with the victim (Nodes: %v) and %d relations are unnotified: %s", what, pc.Pool, pc.Cut, rejoined, nodesOf(p.A), len(missing()), strings.Join(missing(), "; ")))
				break
			}
		} else {
			stuckSince = time.Time{}
		}
		if time.Now().After(deadline) {
			v.incon = "watchdog: connection entry still present, no stable state"
			break
		}
		time.Sleep(2 * time.Millisecond)
	}
	if len(v.viol) == 0 && v.incon == "" {
		// notifications: exactly one each; stuck state as elsewhere
		stuckSince = time.Time{}
		for {
			m := missing()
			if len(m) == 0 {
				break
			}
			if idle() && (pc.Drop == "netstop" || !connected(p.A, victim)) {
				if stuckSince.IsZero() {
					stuckSince = time.Now()
				} else if time.Since(stuckSince) > 5*time.Second {
					v.violate("nodedown-notification-missing-after-pool-redial", fmt.Sprintf("%s; the survivor dropped the connection entry, observers idle with empty mailboxes, yet %d relations were never notified: %s", what, len(m), strings.Join(m, "; ")))
					break
				}
			} else {
				stuckSince = time.Time{}
			}
			if time.Now().After(deadline) {
				v.incon = fmt.Sprintf("watchdog: %d relations unnotified, no stable state", len(m))
				break
			}
			time.Sleep(2 * time.Millisecond)
		}
	}
	// final: stop the victim; nothing more may arrive
	lStop := hk.Tick()
	p.B.StopForce()
	hk.WaitUntil(5*time.Second, idle)
	for _, o := range all {
		seen := map[relKey]int{}
		for _, n := range o.notifs() {
			events++
			k := relKey{n.Kind, n.Target}
			seen[k]++
			known := false
			for _, e := range exps {
				if e.o == o && e.k == k {
					known = true
				}
			}
			if !known {
				v.violate("notification-without-relation:"+n.Kind, fmt.Sprintf("%s got %s", o.label, n))
				continue
			}
			if _, isNode := n.Target.(gen.Atom); isNode {
				continue
			}
			t := reasonText(n.Reason)
			afterStop := n.L > lStop || (pc.Drop == "peerstop" && n.L > lDrop)
			if !errors.Is(n.Reason, gen.ErrNoConnection) && !(afterStop && t == gen.TerminateReasonKill.Error()) {
				v.violate("wrong-reason:pool", fmt.Sprintf("%s got %s; expected gen.ErrNoConnection", o.label, n))
			}
		}
		for k, c := range seen {
			if c > 1 {
				v.violate("duplicate-notification:pool", fmt.Sprintf("%s got %d %s messages for %v", o.label, c, k.Kind, k.Target))
			}
		}
	}
	if len(v.viol) == 0 && v.incon == "" {
		hk.WaitUntil(5*time.Second, func() bool { return plain.term.Load() })
		if !plain.term.Load() {
			v.violate("plain-linker-survived", "process linked (no trap) to the victim's pid is still alive after the connection was dropped")
		}
	}
	finish()
	return
}

func nodesOf(n *hk.HNode) (r []gen.Atom) {
	defer func() { recover() }()
	return n.Network().Nodes()
}
