package main

import (
	"errors"
	"fmt"
	"sort"
	"strings"
	"sync/atomic"
	"time"

	"ergo.services/ergo/gen"

	"verif/harness/hk"
)

// ---------------------------------------------------------------------------
// profile: byte ranges of every operation of the script on the wire, relative
// to the counters measured after the synchronising call

type opProfile struct {
	Name      string
	ReqStart  int64 // A->B bytes before the request
	ReqLen    int64
	RespStart int64 // B->A bytes before the response
	RespLen   int64
}

type profile struct {
	Dialer string
	Ops    []opProfile
}

var syncOp = opSpec{"sync", "call", "pid"}

// prepare brings a fresh pair to the start of the scripted exchange: bystander
// relations, synchronising round trip, settled counters
func (p *pair) prepare() (by, plain *observer, baseAB, baseBA int64, err error) {
	by, err = p.newObserver("bystander", true)
	if err != nil {
		return
	}
	plain, err = p.newObserver("plain", false)
	if err != nil {
		return
	}
	for _, op := range bystanderScript() {
		r, ok := p.doOn(by, op, p.tgt.value(op.Tgt), 5)
		if !ok || r.Err != nil {
			err = fmt.Errorf("setup: bystander %s: ok=%v err=%v", op.Name, ok, r.Err)
			return
		}
	}
	r, ok := p.doOn(plain, opSpec{"plainlinkpid", "link", "pid"}, p.tgt.pid, 5)
	if !ok || r.Err != nil {
		err = fmt.Errorf("setup: plain link: ok=%v err=%v", ok, r.Err)
		return
	}
	r, ok = p.doOn(p.obs, syncOp, p.tgt.pid, 5)
	if !ok || r.Err != nil {
		err = fmt.Errorf("setup: sync call: ok=%v err=%v", ok, r.Err)
		return
	}
	baseAB, baseBA = p.settleCounters()
	return
}

// relations the bystander (a second trap-exit process of the survivor) holds before the exchange starts
func bystanderScript() []opSpec {
	return []opSpec{
		{"by-linknode", "link", "node"},
		{"by-monitornode", "monitor", "node"},
		{"by-linkpid", "link", "pid"},
		{"by-monitoralias", "monitor", "alias"},
		{"by-monitorevent", "monitor", "event"},
		{"by-linkname", "link", "name"},
	}
}

func takeProfile(reg uint16, dialer string) (*profile, error) {
	p, err := newPair(reg, "profile/"+dialer, dialer, nil)
	if err != nil {
		return nil, err
	}
	defer p.close()
	_, _, baseAB, baseBA, err := p.prepare()
	if err != nil {
		return nil, err
	}
	pr := &profile{Dialer: dialer}
	ab, ba := baseAB, baseBA
	for _, op := range fullScript() {
		r, ok := p.do(op)
		if !ok || r.Err != nil {
			return nil, fmt.Errorf("profile: %s: ok=%v err=%v", op.Name, ok, r.Err)
		}
		if op.Kind == "send" {
			// fire-and-forget: wait until the frame passed the relay
			hk.WaitUntil(2*time.Second, func() bool { return p.bytesAB() > ab })
		}
		ab2, ba2 := p.settleCounters()
		pr.Ops = append(pr.Ops, opProfile{Name: op.Name, ReqStart: ab - baseAB, ReqLen: ab2 - ab, RespStart: ba - baseBA, RespLen: ba2 - ba})
		ab, ba = ab2, ba2
	}
	return pr, nil
}

// ---------------------------------------------------------------------------
// fault cases

type faultCase struct {
	Dialer string // A | B
	Kind   string // cut | stopforce | stop | killtarget | customexit
	Op     int    // index into fullScript
	// Pos: between  = injected by the harness before the operation starts
	//      req-lost = when the first byte of the request reaches the relay (not forwarded)
	//      req-N    = after N bytes of the request were forwarded
	//      req-done = right after the last byte of the request was forwarded
	//      resp-lost / resp-N / resp-done likewise for the response
	Pos string
	N   int64
	// Skew (remote-termination kinds only): same = both nodes have the same creation stamp, diff = they differ
	Skew string
	// Map: the connection carries an atom mapping on the survivor's side that renames the victim's
	// registered name and event (the survivor says c14target_a / c14event_a)
	Map bool
}

func (fc faultCase) id() string {
	k := fc.Kind
	if fc.Skew != "" {
		k += "-" + fc.Skew
	}
	if fc.Map {
		k += "-atommap"
	}
	return fmt.Sprintf("F/%s/%s/%s/%s", fc.Dialer, k, fullScript()[fc.Op].Name, fc.Pos)
}

var faultKinds = []string{"cut", "stopforce", "stop", "killtarget", "customexit"}

// enumerate all fault points of one profile; mids = how many mid-frame offsets per frame (0 = the middle only, -1 = every offset)
func enumerate(pr *profile, everyByte bool) []faultCase {
	var out []faultCase
	script := fullScript()
	for ki, kind := range faultKinds {
		for i, op := range script {
			if i < 2 {
				continue // the two node relations always precede the fault
			}
			_ = ki
			out = append(out, faultCase{Dialer: pr.Dialer, Kind: kind, Op: i, Pos: "between"})
			pp := pr.Ops[i]
			if pp.ReqLen > 0 {
				out = append(out, faultCase{Dialer: pr.Dialer, Kind: kind, Op: i, Pos: "req-lost"})
				for _, n := range mids(pp.ReqLen, everyByte && (kind == "cut" || kind == "stopforce")) {
					out = append(out, faultCase{Dialer: pr.Dialer, Kind: kind, Op: i, Pos: fmt.Sprintf("req-%d", n), N: n})
				}
				out = append(out, faultCase{Dialer: pr.Dialer, Kind: kind, Op: i, Pos: "req-done"})
			}
			if pp.RespLen > 0 && op.Kind != "send" {
				out = append(out, faultCase{Dialer: pr.Dialer, Kind: kind, Op: i, Pos: "resp-lost"})
				for _, n := range mids(pp.RespLen, everyByte && (kind == "cut" || kind == "stopforce")) {
					out = append(out, faultCase{Dialer: pr.Dialer, Kind: kind, Op: i, Pos: fmt.Sprintf("resp-%d", n), N: n})
				}
				out = append(out, faultCase{Dialer: pr.Dialer, Kind: kind, Op: i, Pos: "resp-done"})
			}
		}
	}
	// remote termination: the creation stamps of the two nodes are part of the case
	n := 0
	for i := range out {
		if out[i].Kind == "killtarget" || out[i].Kind == "customexit" {
			out[i].Skew = []string{"same", "diff"}[n%2]
			if everyByte {
				// thorough: both
				dup := out[i]
				dup.Skew = []string{"diff", "same"}[n%2]
				out = append(out, dup)
			}
			n++
		}
	}
	// remote termination over a connection with an atom mapping (same creation stamps)
	base := len(out)
	for i := 0; i < base; i++ {
		if (out[i].Kind == "killtarget" || out[i].Kind == "customexit") && out[i].Skew == "same" {
			m := out[i]
			m.Map = true
			out = append(out, m)
		}
	}
	return out
}

// mappedCore: the atom-mapping cases every quick run contains: all relations established, then the target terminates
func mappedCore(pr *profile) []faultCase {
	var out []faultCase
	script := fullScript()
	for _, kind := range []string{"killtarget", "customexit"} {
		for i, op := range script {
			if op.Name == "callpid" || op.Name == "linkalias" {
				out = append(out, faultCase{Dialer: pr.Dialer, Kind: kind, Op: i, Pos: "between", Skew: "same", Map: true})
			}
		}
	}
	return out
}

func mids(l int64, everyByte bool) []int64 {
	if l < 2 {
		return nil
	}
	if !everyByte {
		return []int64{l / 2}
	}
	// header boundary (8 bytes), then every 5th offset
	var r []int64
	seen := map[int64]bool{}
	add := func(n int64) {
		if n > 0 && n < l && !seen[n] {
			seen[n] = true
			r = append(r, n)
		}
	}
	add(1)
	add(7)
	add(8)
	add(9)
	for n := int64(12); n < l; n += 5 {
		add(n)
	}
	add(l - 1)
	sort.Slice(r, func(i, j int) bool { return r[i] < r[j] })
	return r
}

// ---------------------------------------------------------------------------
// expectations

type relExp struct {
	Obs     *observer
	Key     relKey
	Op      string // operation that created it
	RelKind string // link | monitor
	TgtKind string
	Pre     bool // established (request returned nil) before the fault fired
}

func (e *relExp) name() string { return e.RelKind + "-" + e.TgtKind }

func keyOf(op opSpec, tgt any) relKey {
	k := "exit"
	if op.Kind == "monitor" {
		k = "down"
	}
	return relKey{Kind: k, Target: tgt}
}

type verdict struct {
	viol  []string
	sigs  []string
	incon string
	notes []string
}

func (v *verdict) violate(sig, text string) {
	v.sigs = append(v.sigs, sig)
	v.viol = append(v.viol, sig+": "+text)
}

const sigRejoinLoop = "link-cut-dialer-rejoin-loop-no-nodedown"
const sigTermCreation = "remote-termination-of-pid-or-alias-not-propagated-when-creations-differ"
const sigLateAdd = "inflight-relation-added-after-nodedown-cleanup"

// pick the signature of the case: the re-join loop is reported only if nothing more specific was seen
func (v *verdict) sig() string {
	for _, s := range v.sigs {
		if s != sigRejoinLoop {
			return s
		}
	}
	if len(v.sigs) > 0 {
		return v.sigs[0]
	}
	return ""
}

type opLog struct {
	Name        string
	Err         string
	DurMs       int64
	FiredBefore bool
	FiredAfter  bool
	AB, BA      int64
}

type caseCtx struct {
	p        *pair
	fc       faultCase
	v        *verdict
	exps     []*relExp
	obsAll   []*observer
	plain    *observer
	lFault   atomic.Int64 // logical clock when the fault was injected
	lStop    atomic.Int64 // logical clock when the victim node was stopped first (fault or final)
	remote   string       // reason text the target terminates with in killtarget/customexit cases
	reported map[*relExp]bool
}

// settle waits until every expectation in exps is met, or a stable stuck
// state is witnessed. needConn: the expectations must be met while the
// connection is still up (remote termination); otherwise they must be met
// once the survivor has no connection with the victim.
func (c *caseCtx) settle(exps []*relExp, needConn bool, what string) {
	var stuckSince time.Time
	deadline := time.Now().Add(30 * time.Second)
	for {
		var missing []*relExp
		for _, e := range exps {
			if e.Obs.count(e.Key) >= 1 || e.Obs.term.Load() || c.reported[e] {
				continue
			}
			missing = append(missing, e)
		}
		if len(missing) == 0 {
			return
		}
		stuck := true
		for _, o := range c.obsAll {
			if !o.idle() {
				stuck = false
			}
		}
		conn := connected(c.p.A, c.p.B.Name())
		if needConn {
			if !conn {
				// the connection went away: the expectation can no longer be checked in this form
				c.v.notes = append(c.v.notes, what+": connection lost before the remote termination was observed")
				return
			}
			// stuck = the target is gone on the victim, the connection is up, nothing is in flight on the survivor
			if _, err := c.p.B.ProcessInfo(c.p.tgt.pid); err == nil {
				stuck = false
			}
		} else if conn {
			stuck = false
		}
		if !stuck {
			stuckSince = time.Time{}
		} else if stuckSince.IsZero() {
			stuckSince = time.Now()
		} else if time.Since(stuckSince) > 5*time.Second {
			for _, e := range missing {
				listed, _ := e.Obs.listed(e.Key)
				c.reported[e] = true
				switch {
				case needConn && c.p.A.Creation() != c.p.B.Creation() && (e.TgtKind == "pid" || e.TgtKind == "alias"):
					c.v.violate(sigTermCreation, fmt.Sprintf("%s: the victim's target terminated (%s), connection up, creation stamps of the nodes differ (%d / %d): the %s relation of %s on %v (op %s) was not notified and stays in the relation table (%v); relations on the name and the event of the same process were notified", what, c.remote, c.p.A.Creation(), c.p.B.Creation(), e.RelKind, e.Obs.label, e.Key.Target, e.Op, listed))
				case needConn:
					c.v.violate("remote-termination-not-propagated:"+e.name(), fmt.Sprintf("%s: target terminated on the victim, connection up, %s of %s (op %s) not notified; still in the relation table: %v", what, e.Key.Kind, e.Obs.label, e.Op, listed))
				case listed && !e.Pre:
					c.v.violate(sigLateAdd, fmt.Sprintf("%s: the %s request of %s on %v (op %s) was in flight when the connection went down and returned nil; the relation was put into the relation table after the node-down cleanup had run: survivor has no connection with the victim, observer idle with empty mailbox, relation still in the table, never notified", what, e.RelKind, e.Obs.label, e.Key.Target, e.Op))
				case listed:
					c.v.violate("relation-leaked-after-nodedown:"+e.name(), fmt.Sprintf("%s: survivor has no connection with the victim, observer idle with empty mailbox, yet %s relation of %s on %v (op %s, request returned nil) is still in the relation table and was never notified", what, e.RelKind, e.Obs.label, e.Key.Target, e.Op))
				default:
					c.v.violate("nodedown-notification-lost:"+e.name(), fmt.Sprintf("%s: %s relation of %s on %v (op %s) was drained from the relation table on node down but no %s message reached the process", what, e.RelKind, e.Obs.label, e.Key.Target, e.Op, e.Key.Kind))
				}
			}
			return
		}
		if time.Now().After(deadline) {
			if c.v.incon == "" {
				c.v.incon = fmt.Sprintf("watchdog: %s: %d expectations unmet, no stable state (connected=%v)", what, len(missing), conn)
			}
			return
		}
		time.Sleep(2 * time.Millisecond)
	}
}

func reasonText(err error) string {
	if err == nil {
		return ""
	}
	return err.Error()
}

// reasonOK decides whether the reason of a notification is one the property allows
func (c *caseCtx) reasonOK(e *relExp, n notif) (bool, string) {
	if e.TgtKind == "node" {
		return true, ""
	}
	remoteKinds := c.fc.Kind == "killtarget" || c.fc.Kind == "customexit"
	if remoteKinds && e.Pre {
		// terminated while connected: must carry the remote reason
		if reasonText(n.Reason) == c.remote {
			return true, ""
		}
		return false, fmt.Sprintf("expected remote reason %q", c.remote)
	}
	if errors.Is(n.Reason, gen.ErrNoConnection) {
		return true, ""
	}
	t := reasonText(n.Reason)
	if lf := c.lFault.Load(); remoteKinds && lf > 0 && n.L > lf && t == c.remote {
		return true, ""
	}
	if ls := c.lStop.Load(); ls > 0 && n.L > ls && (t == gen.TerminateReasonKill.Error() || t == gen.TerminateReasonShutdown.Error()) {
		return true, "" // the victim's processes were terminated by the node stop while the connection was still up
	}
	return false, "expected gen.ErrNoConnection"
}

// final checks at the end of the case: exactly once, reasons, nothing unexpected
func (c *caseCtx) checkLogs() int64 {
	var events int64
	for _, o := range c.obsAll {
		ns := o.notifs()
		events += int64(len(ns))
		for _, n := range ns {
			var exp *relExp
			for _, e := range c.exps {
				if e.Obs == o && e.Key.Kind == n.Kind && e.Key.Target == n.Target {
					exp = e
				}
			}
			if exp == nil {
				c.v.violate("notification-without-relation:"+n.Kind, fmt.Sprintf("%s got %s although it holds no such relation (request failed or was never made)", o.label, n))
				continue
			}
			if c.reported[exp] {
				continue // already reported as not propagated; the late no-connection notification is its consequence
			}
			if ok, want := c.reasonOK(exp, n); !ok {
				c.v.violate("wrong-reason:"+exp.name(), fmt.Sprintf("%s got %s; %s", o.label, n, want))
			}
		}
		for _, e := range c.exps {
			if e.Obs != o {
				continue
			}
			if cnt := o.count(e.Key); cnt > 1 {
				c.v.violate("duplicate-notification:"+e.name(), fmt.Sprintf("%s got %d %s messages for %v (op %s)", o.label, cnt, e.Key.Kind, e.Key.Target, e.Op))
			}
		}
		if len(o.others()) > 0 {
			c.v.notes = append(c.v.notes, fmt.Sprintf("%s other messages: %v", o.label, o.others()))
		}
	}
	return events
}

func runFaultCase(reg uint16, fc faultCase, pr *profile) {
	id := fc.id()
	if !hk.Want(id) {
		return
	}
	v := &verdict{}
	script := fullScript()
	// setup (fresh pair, bystander relations, synchronising round trip); a failing setup is retried, it is not a verdict
	var f *faultCtl
	var p *pair
	var by, plain *observer
	var baseAB, baseBA int64
	var err error
	for attempt := 0; attempt < 3; attempt++ {
		f = &faultCtl{}
		p, err = newPairWith(reg, id, fc.Dialer, f, true, fc.Skew, pairOpt{MapNames: fc.Map})
		if err != nil {
			continue
		}
		by, plain, baseAB, baseBA, err = p.prepare()
		if err == nil {
			break
		}
		setupRetries.Add(1)
		p.close()
	}
	if err != nil {
		hk.Emit(hk.Case{ID: id, Scenario: "fault-" + fc.Kind, Verdict: hk.Inconclusive, What: "setup: " + err.Error(), Key: id})
		return
	}
	defer p.close()
	c := &caseCtx{p: p, fc: fc, v: v, reported: map[*relExp]bool{}}
	c.obsAll = []*observer{p.obs, by}
	c.plain = plain
	for _, op := range bystanderScript() {
		c.exps = append(c.exps, &relExp{Obs: by, Key: keyOf(op, p.tgt.value(op.Tgt)), Op: op.Name, RelKind: op.Kind, TgtKind: op.Tgt, Pre: true})
	}

	// the fault
	switch fc.Kind {
	case "killtarget":
		c.remote = gen.TerminateReasonKill.Error()
	case "customexit":
		c.remote = "c14-custom-reason"
	}
	rejected0 := int64(0)
	inject := func() {
		c.lFault.Store(hk.Tick())
		rejected0 = p.warnB.rejected.Load()
		switch fc.Kind {
		case "cut":
			p.R.CutAll()
		case "stopforce":
			c.lStop.CompareAndSwap(0, c.lFault.Load())
			p.B.StopForce()
		case "stop":
			c.lStop.CompareAndSwap(0, c.lFault.Load())
			p.B.Stop()
		case "killtarget":
			p.B.Kill(p.tgt.pid)
		case "customexit":
			p.B.Send(p.tgt.pid, errors.New(c.remote))
		}
	}
	f.action = inject
	pp := pr.Ops[fc.Op]
	switch {
	case fc.Pos == "between":
	case strings.HasPrefix(fc.Pos, "req-"):
		f.dir = p.dirAB()
		f.k = baseAB + pp.ReqStart
		f.when = "after"
		switch fc.Pos {
		case "req-lost":
			f.when = "arrive"
		case "req-done":
			f.k += pp.ReqLen
		default:
			f.k += fc.N
		}
		f.armed.Store(true)
	case strings.HasPrefix(fc.Pos, "resp-"):
		f.dir = p.dirBA()
		f.k = baseBA + pp.RespStart
		f.when = "after"
		switch fc.Pos {
		case "resp-lost":
			f.when = "arrive"
		case "resp-done":
			f.k += pp.RespLen
		default:
			f.k += fc.N
		}
		f.armed.Store(true)
	}

	// the exchange
	var ops []opLog
	completedBefore := 0 // relation requests that returned nil before the fault fired
	inflight := ""       // operation during which (or right before which) the fault fired
	scriptDone := true
	for i, op := range script {
		if fc.Pos == "between" && i == fc.Op {
			f.fire()
		}
		firedBefore := f.fired.Load()
		tgt := p.tgt.value(op.Tgt)
		// control timer of the harness with the nominal timeout of the request: its lateness measures
		// how late timers fire in this process right now (CPU starvation by parallel cases)
		nominal := time.Duration(0)
		switch op.Kind {
		case "call":
			nominal = time.Second
		case "link", "monitor":
			nominal = time.Duration(gen.DefaultRequestTimeout) * time.Second
		}
		var ctlLate atomic.Int64
		var ctlFired atomic.Bool
		tStart := time.Now()
		var ctl *time.Timer
		if nominal > 0 {
			ctl = time.AfterFunc(nominal, func() {
				ctlLate.Store(int64(time.Since(tStart) - nominal))
				ctlFired.Store(true)
			})
		}
		r, ok := p.do(op)
		if ctl != nil {
			ctl.Stop()
		}
		firedAfter := f.fired.Load()
		ab, ba := p.bytesAB(), p.bytesBA()
		ops = append(ops, opLog{Name: op.Name, Err: reasonText(r.Err), DurMs: r.Dur.Milliseconds(), FiredBefore: firedBefore, FiredAfter: firedAfter, AB: ab - baseAB, BA: ba - baseBA})
		if !ok {
			v.incon = fmt.Sprintf("watchdog: operation %s did not return within 25 s (fired=%v)", op.Name, firedAfter)
			scriptDone = false
			break
		}
		if op.relation() && r.Err == nil {
			c.exps = append(c.exps, &relExp{Obs: p.obs, Key: keyOf(op, tgt), Op: op.Name, RelKind: op.Kind, TgtKind: op.Tgt, Pre: !firedAfter})
			if !firedAfter {
				completedBefore++
			}
		}
		if r.Err != nil {
			// a failing request must fail within its timeout (+1 s tolerance for scheduling)
			limit := time.Duration(0)
			switch op.Kind {
			case "call":
				limit = 2 * time.Second
			case "link", "monitor":
				limit = time.Duration(gen.DefaultRequestTimeout+1) * time.Second
			}
			if firedBefore && limit > 0 {
				// the request started after the fault: it may first have tried to re-establish the connection
				// (dial timeout 3 s, handshake deadlines 1 s per message) before its own timeout began to run
				limit += 6 * time.Second
			}
			if limit > 0 && r.Dur > limit {
				late := time.Duration(ctlLate.Load())
				if !ctlFired.Load() && nominal > 0 {
					// the control timer is due but its callback has not even run yet: at least this late
					late = time.Since(tStart) - nominal
				}
				if late > 300*time.Millisecond {
					v.notes = append(v.notes, fmt.Sprintf("%s failed after %v (> %v), but the harness' own %v timer fired %v late: process starved, not judged", op.Name, r.Dur, limit, nominal, late))
					lateUnderLoad.Add(1)
				} else {
					v.violate("request-hang:"+op.Kind, fmt.Sprintf("%s failed with %q only after %v (timeout + 1 s = %v; control timer lateness %v)", op.Name, r.Err, r.Dur, limit, late))
				}
			}
			if !firedAfter {
				v.notes = append(v.notes, fmt.Sprintf("%s failed before the fault: %v", op.Name, r.Err))
				if errors.Is(r.Err, gen.ErrTimeout) && ab-baseAB >= pp0(pr, i).ReqStart+pp0(pr, i).ReqLen && ba-baseBA >= pp0(pr, i).RespStart+pp0(pr, i).RespLen {
					// request and response both passed the relay, yet the requester timed out
					droppedResponses.Add(1)
				}
			}
		}
		if firedAfter {
			inflight = op.Name
			scriptDone = i == len(script)-1 && !firedBefore
			break
		}
	}
	fired := f.fired.Load()
	if !fired {
		// the exchange ended before the fault point was reached (profile mismatch): inject now, trivially
		f.fire()
		v.notes = append(v.notes, "fault point not reached during the exchange; injected after it")
	}
	nontrivial := fired && completedBefore >= 2 && inflight != "" && v.incon == ""
	_ = scriptDone

	connLoss := fc.Kind == "cut" || fc.Kind == "stopforce" || fc.Kind == "stop"
	loop := false
	survived := false
	if v.incon == "" {
		if connLoss {
			// the survivor must notice the loss
			got := hk.WaitUntil(20*time.Second, func() bool {
				if p.lostOld() {
					return true
				}
				if fc.Kind == "cut" && p.B.IsAlive() {
					if fc.Dialer == "A" && p.warnB.rejected.Load()-rejected0 >= 10 {
						loop = true
						return true
					}
					if p.rejoined() && connected(p.B, p.A.Name()) {
						// the dialing side re-joined a fresh TCP link before the accepting side gave the connection up:
						// both nodes still consider themselves connected, the connection was not lost
						survived = true
						return true
					}
				}
				return false
			})
			if !got && fc.Kind != "cut" && hk.WaitUntil(20*time.Second, func() bool { return !p.B.IsAlive() }) && connected(p.A, p.B.Name()) {
				// stuck state: the victim node has stopped (all its sockets are closed), yet the survivor keeps the connection entry
				v.violate("connection-entry-survives-victim-stop", fmt.Sprintf("victim stopped (%s) more than 20 s ago, the survivor still lists a connection with it; %d relations unnotified", fc.Kind, len(c.exps)))
				got = true
			}
			if !got {
				v.incon = fmt.Sprintf("watchdog: the survivor still holds the connection 20 s after the fault (victim alive=%v, victim holds connection=%v, refused re-joins=%d, relay accepted=%d)", p.B.IsAlive(), connected(p.B, p.A.Name()), p.warnB.rejected.Load()-rejected0, p.R.Accepted.Load())
			}
			if loop {
				v.violate(sigRejoinLoop, fmt.Sprintf("relayed link cut, victim alive and refuses to re-join the connection it has dropped; the survivor (dialing side) keeps its connection entry and re-dials the victim's acceptor in a loop: %d re-join handshakes were refused by the victim so far, no node-down on the survivor, %d relations unnotified", p.warnB.rejected.Load()-rejected0, len(c.exps)))
				// help the survivor out of the loop so that the rest of the oracle still applies
				c.lStop.CompareAndSwap(0, hk.Tick())
				p.B.StopForce()
				if !hk.WaitUntil(20*time.Second, func() bool { return !connected(p.A, p.B.Name()) }) {
					v.incon = "watchdog: the survivor still holds the connection 20 s after the victim was stopped"
				}
			}
			if survived {
				v.notes = append(v.notes, "the cut link was replaced by a re-dialed one before either side dropped the connection: no connection loss")
				healed.Add(1)
				if r, ok := p.doOn(p.obs, syncOp, p.tgt.pid, 1); !ok || r.Err != nil {
					// not part of this property: recorded only
					healedOneWay.Add(1)
					v.notes = append(v.notes, fmt.Sprintf("round trip over the re-joined link fails: %v", r.Err))
				}
			} else if v.incon == "" {
				c.settle(c.exps, false, "after the fault")
			}
		} else {
			// remote termination while connected: relations established before it carry the remote reason
			var pre []*relExp
			for _, e := range c.exps {
				if e.Pre && e.TgtKind != "node" {
					pre = append(pre, e)
				}
			}
			c.settle(pre, true, "after the remote termination")
		}
	}
	// final: stop the victim for good; everything left must be notified exactly once
	if v.incon == "" {
		if fc.Kind == "stop" || fc.Kind == "stopforce" {
			// the fault itself stops the victim (possibly still in progress on the relay goroutine)
			hk.WaitUntil(20*time.Second, func() bool { return !p.B.IsAlive() })
		}
		if p.B.IsAlive() {
			c.lStop.CompareAndSwap(0, hk.Tick())
			p.B.StopForce()
		}
		if !hk.WaitUntil(20*time.Second, func() bool { return !connected(p.A, p.B.Name()) }) {
			if !p.B.IsAlive() {
				if !hasSig(v, "connection-entry-survives-victim-stop") {
					v.violate("connection-entry-survives-victim-stop", fmt.Sprintf("victim stopped more than 20 s ago, the survivor still lists a connection with it; %d relations unnotified", len(c.exps)))
				}
			} else {
				v.incon = "watchdog: the survivor still holds the connection 20 s after the victim was stopped"
			}
		} else {
			c.settle(c.exps, false, "after the final stop of the victim")
		}
	}
	var events int64
	if v.incon == "" {
		events = c.checkLogs()
		// the plain (non-trapping) linker must have been terminated by the exit signal
		hk.WaitUntil(10*time.Second, func() bool { return plain.term.Load() })
		if !plain.term.Load() {
			if _, err := p.A.ProcessInfo(plain.pid); err == nil && plain.idle() && !connected(p.A, p.B.Name()) {
				listed, _ := plain.listed(relKey{Kind: "exit", Target: p.tgt.pid})
				v.violate("plain-linker-survived", fmt.Sprintf("process linked (no trap) to the victim's pid is still alive and idle although the survivor has no connection with the victim (link still in the table: %v)", listed))
			}
		} else {
			events++
			plain.mu.Lock()
			tr, tl := plain.termReason, plain.termL
			plain.mu.Unlock()
			t := reasonText(tr)
			ok := errors.Is(tr, gen.ErrNoConnection) || strings.HasSuffix(t, gen.ErrNoConnection.Error())
			if !ok && c.remote != "" && strings.HasSuffix(t, c.remote) {
				ok = true
			}
			if ls := c.lStop.Load(); !ok && ls > 0 && tl > ls && (strings.HasSuffix(t, "kill") || strings.HasSuffix(t, "shutdown")) {
				ok = true
			}
			if !ok {
				v.violate("wrong-reason:plain-linker", fmt.Sprintf("plain linker terminated with %q", t))
			}
		}
	}
	events += int64(len(ops))

	key := fmt.Sprintf("%s/%s/%s/%s", fc.Dialer, fc.Kind, script[fc.Op].Name, posClass(fc.Pos))
	if fc.Map {
		key += "/atommap"
	}
	cs := hk.Case{ID: id, Scenario: "fault-" + fc.Kind, Key: key, Nontrivial: nontrivial, Events: events}
	detail := map[string]any{"fault": fc, "ops": ops, "fired": fired, "inflight": inflight, "relations_before_fault": completedBefore, "expectations": len(c.exps), "rejoin_loop": loop, "survived_by_rejoin": survived, "notes": v.notes}
	var logs []string
	for _, o := range c.obsAll {
		for _, n := range o.notifs() {
			logs = append(logs, o.label+": "+n.String())
		}
	}
	switch {
	case len(v.viol) > 0:
		cs.Verdict = hk.Violated
		cs.Sig = v.sig()
		cs.What = strings.Join(v.viol, " | ")
		detail["notifications"] = logs
	case v.incon != "":
		cs.Verdict = hk.Inconclusive
		cs.What = v.incon
		detail["notifications"] = logs
	default:
		cs.Verdict = hk.Held
	}
	cs.Detail = detail
	hk.Emit(cs)
}

func hasSig(v *verdict, sig string) bool {
	for _, s := range v.sigs {
		if s == sig {
			return true
		}
	}
	return false
}

func pp0(pr *profile, i int) opProfile { return pr.Ops[i] }

var setupRetries, droppedResponses, healed, healedOneWay, lateUnderLoad atomic.Int64

func posClass(pos string) string {
	switch pos {
	case "between", "req-lost", "req-done", "resp-lost", "resp-done":
		return pos
	}
	if strings.HasPrefix(pos, "req-") {
		return "req-mid"
	}
	return "resp-mid"
}
