// C14 — remote failure detection: node down, remote termination, incarnations.
//
// Survivor node A and victim node B live in this OS process and are connected
// through the harness relay (single TCP link). A scripted exchange (link and
// monitor on pid / name / alias / event / node, Call, Send) is first run
// without a fault to learn the byte ranges of every frame; then it is re-run
// with a fault {cut the link, B.StopForce(), B.Stop(), kill the target, target
// exits with a custom reason} injected at every frame boundary and inside the
// frames, in both dial orientations. Observers on A log every exit / down
// message; the oracle demands exactly one per established relation with the
// right reason, bounded failure of requests in flight, and refusal of
// identifiers of an earlier incarnation after a restart under the same name.
package main

import (
	"fmt"
	"os"
	"runtime"
	"sync"
	"time"

	"verif/harness/hk"
)

func main() {
	hk.InstallHook()
	installJoinObserver()
	if os.Getenv("C14_EXP") != "" {
		experiment()
		return
	}
	t0 := time.Now()
	hk.Rule("fault cases: the 14-step exchange (LinkNode, MonitorNode, Link/Monitor on pid, registered name, alias, event, Call pid, Send pid, Call name, Call alias) is profiled without a fault; a case = dial orientation {survivor dialed, victim dialed} x fault {cut relayed link, StopForce, Stop, kill target, target exits with custom reason} x step x position {injected by the harness before the step; when the first request byte reaches the relay; after n request bytes; right after the last request byte; likewise for the response}; quick = every 5th case of the enumeration (offset by the seed) with one mid-frame offset per frame, thorough = all cases with many mid-frame offsets. A case is non-trivial iff the fault really fired while a step of the exchange was in flight or about to start and at least two relation requests had returned nil before (measured from the relay counters and the request results). distinct = orientation x fault x step x position class. incarnation cases: orientation of the reconnect x Stop/StopForce x direct/relayed, non-trivial iff the new incarnation reused the numeric process id of the old one and a call to it succeeded.")
	hk.Assume("one TCP link per connection (pool size 1), so cutting the relayed link is the loss of the connection")
	hk.Assume("a process whose exit signal is not trappable (parent is the node core) counts as notified when it is terminated with the reason; observers are therefore children of an ordinary process")
	hk.Assume("stuck-state witness: survivor has no connection entry for the victim, observer Sleep with empty mailbox and no runner, unchanged for 5 s => the missing notification will never come (node-down fan-out is a non-blocking in-memory loop)")
	reg := hk.FreePort()
	// a long-lived node keeps the registrar of this process alive
	regNode, err := hk.StartNode(hk.NodeCfg{Name: nodeName("r"), Network: true, RegPort: reg, PoolSize: 1})
	if err != nil {
		fmt.Fprintln(os.Stderr, "start registrar node:", err)
		os.Exit(3)
	}
	defer regNode.StopForce()

	profiles := map[string]*profile{}
	for _, d := range []string{"A", "B"} {
		pr, err := takeProfile(reg, d)
		if err != nil {
			// retry once: profiling is setup, not a verdict
			pr, err = takeProfile(reg, d)
		}
		if err != nil {
			fmt.Fprintln(os.Stderr, "profile:", err)
			hk.Emit(hk.Case{ID: "profile/" + d, Scenario: "profile", Verdict: hk.Inconclusive, What: "profile run failed: " + err.Error()})
			continue
		}
		profiles[d] = pr
		hk.Sample(map[string]any{"profile": pr})
	}

	var jobs []func()
	nFault := 0
	for _, d := range []string{"A", "B"} {
		pr := profiles[d]
		if pr == nil {
			continue
		}
		all := enumerate(pr, hk.Thorough())
		for i, fc := range all {
			if !hk.Thorough() && (int64(i)+hk.Seed())%5 != 0 && hk.Only() == "" {
				continue
			}
			fc := fc
			nFault++
			jobs = append(jobs, func() { runFaultCase(reg, fc, pr) })
		}
	}
	hk.Stat("fault_cases_enumerated", int64(nFault))
	var incs []incCase
	for rep := 0; rep < hk.Pick(1, 3); rep++ {
		for _, d := range []string{"A", "B"} {
			for _, st := range []string{"stopforce", "stop"} {
				incs = append(incs, incCase{Dialer: d, Stop: st, Via: "direct", Rep: rep})
				if hk.Thorough() || (st == "stopforce") == (d == "A") {
					incs = append(incs, incCase{Dialer: d, Stop: st, Via: "relay", Rep: rep})
				}
			}
		}
	}
	for rep := 0; rep < hk.Pick(1, 3); rep++ {
		incs = append(incs, incCase{Dialer: "A", Stop: "stopforce", Via: "auto", Rep: rep})
		incs = append(incs, incCase{Dialer: "A", Stop: "stop", Via: "auto", Rep: rep})
	}
	for _, ic := range incs {
		ic := ic
		jobs = append(jobs, func() { runIncarnationCase(reg, ic) })
	}

	workers := hk.Pick(8, 12)
	if n := runtime.NumCPU(); n < workers {
		workers = n
	}
	ch := make(chan func())
	var wg sync.WaitGroup
	for w := 0; w < workers; w++ {
		wg.Add(1)
		go func() {
			defer wg.Done()
			for j := range ch {
				j()
			}
		}()
	}
	for _, j := range jobs {
		ch <- j
	}
	close(ch)
	wg.Wait()
	hk.Stat("setup_retries", setupRetries.Load())
	hk.Stat("cut_healed_by_rejoin", healed.Load())
	hk.Stat("cut_healed_by_rejoin_but_round_trip_fails", healedOneWay.Load())
	hk.Stat("responses_dropped_before_wait_observed", droppedResponses.Load())
	hk.Stat("fault_cases_scheduled", int64(nFault))
	hk.Stat("incarnation_cases_scheduled", int64(len(incs)))
	hk.Note("wall_seconds", int(time.Since(t0).Seconds()))
	os.Stdout.Sync()
	os.Exit(0)
}

func experiment() {
	reg := hk.FreePort()
	if os.Getenv("C14_EXP") == "first" {
		var wg sync.WaitGroup
		for w := 0; w < 8; w++ {
			wg.Add(1)
			go func(w int) {
				defer wg.Done()
				for i := 0; i < 40; i++ {
					d := []string{"A", "B"}[i%2]
					p, err := newPair(reg, "x", d, nil)
					if err != nil {
						fmt.Println("pair:", err)
						continue
					}
					ab0, ba0 := p.bytesAB(), p.bytesBA()
					r, ok := p.doOn(p.obs, opSpec{"l", "link", "pid"}, p.tgt.pid, 5)
					if r.Err != nil || !ok {
						time.Sleep(100 * time.Millisecond)
						fmt.Printf("w%d i%d dialer=%s FIRST LINK err=%v dur=%v ab %d->%d ba %d->%d tgt events=%v\n", w, i, d, r.Err, r.Dur, ab0, p.bytesAB(), ba0, p.bytesBA(), p.tgt.inst.Events())
						info, e := p.B.ProcessInfo(p.tgt.pid)
						fmt.Printf("   B target info err=%v state=%v; A obs links %v\n", e, info.State, func() any { i, _ := p.A.ProcessInfo(p.obs.pid); return i.LinksPID }())
					}
					p.close()
				}
			}(w)
		}
		wg.Wait()
		return
	}
	p, err := newPair(reg, "x", os.Getenv("C14_DIALER"), nil)
	if err != nil {
		fmt.Println("pair:", err)
		return
	}
	fmt.Println("connected; bytes ab/ba", p.bytesAB(), p.bytesBA())
	for _, op := range fullScript() {
		res, ok := p.do(op)
		fmt.Printf("op %-14s ok=%v err=%v dur=%v ab=%d ba=%d\n", op.Name, ok, res.Err, res.Dur, p.bytesAB(), p.bytesBA())
	}
	time.Sleep(300 * time.Millisecond)
	switch os.Getenv("C14_EXP") {
	case "cut":
		p.R.CutAll()
	case "stopforce":
		p.B.StopForce()
	case "stop":
		p.B.Stop()
	case "kill":
		p.B.Kill(p.tgt.pid)
	case "custom":
		p.B.Send(p.tgt.pid, fmt.Errorf("custom-c14"))
	}
	for i := 0; i < 30; i++ {
		time.Sleep(100 * time.Millisecond)
		fmt.Printf("t=%d A->B %v  B->A %v notifs=%d accepted=%d rejected=%d\n", i, connected(p.A, p.B.Name()), connected(p.B, p.A.Name()), len(p.obs.notifs()), p.R.Accepted.Load(), p.warnB.rejected.Load())
	}
	for _, n := range p.obs.notifs() {
		fmt.Printf("  %s\n", n)
	}
}
