// C14 — remote failure detection: node down, remote termination, incarnations.
//
// Survivor node A and victim node B live in this OS process and are connected
// through the harness relay (single TCP link). A scripted exchange (link and
// monitor on pid / name / alias / event / node, Call, Send) is first run
// without a fault to learn the byte ranges of every frame; then it is re-run
// with a fault {cut the link, B.StopForce(), B.Stop(), kill the target, target
// exits with a custom reason} injected at every frame boundary and inside the
// frames, in both dial orientations. Observers on A log every exit / down
// message; the oracle demands exactly one per established relation with the
// right reason, bounded failure of requests in flight, and refusal of
// identifiers of an earlier incarnation after a restart under the same name.
package main

import (
	"bufio"
	"fmt"
	"os"
	"os/exec"
	"runtime"
	"sync"
	"time"

	"verif/harness/hk"
)

// Every node started in an OS process adds its name to the process-global atom
// cache of net/edf, and the whole cache travels in every handshake (64 KiB
// limit): one process can host only some 2000 node names. The thorough tier
// therefore shards its cases over child processes (re-exec of this binary).
const shardsThorough = 6

func coordinator(t0 time.Time) {
	bin := os.Getenv("VERIF_BIN")
	if bin == "" {
		bin = os.Args[0]
	}
	var outMu sync.Mutex
	var wg sync.WaitGroup
	for i := 0; i < shardsThorough; i++ {
		wg.Add(1)
		go func(i int) {
			defer wg.Done()
			cmd := exec.Command(bin)
			cmd.Env = append(os.Environ(), fmt.Sprintf("C14_SHARD=%d/%d", i, shardsThorough))
			cmd.Stderr = os.Stderr
			out, err := cmd.StdoutPipe()
			if err == nil {
				err = cmd.Start()
			}
			if err != nil {
				hk.Emit(hk.Case{ID: fmt.Sprintf("shard/%d", i), Scenario: "shard", Verdict: hk.Inconclusive, What: "cannot start shard: " + err.Error()})
				return
			}
			sc := bufio.NewScanner(out)
			sc.Buffer(make([]byte, 1<<20), 64<<20)
			for sc.Scan() {
				outMu.Lock()
				os.Stdout.Write(append(sc.Bytes(), '\n'))
				outMu.Unlock()
			}
			if err := cmd.Wait(); err != nil {
				hk.Emit(hk.Case{ID: fmt.Sprintf("shard/%d", i), Scenario: "shard", Verdict: hk.Inconclusive, What: "shard process failed: " + err.Error()})
			}
		}(i)
	}
	wg.Wait()
	hk.Note("wall_seconds", int(time.Since(t0).Seconds()))
	os.Stdout.Sync()
	os.Exit(0)
}

func main() {
	hk.InstallHook()
	installJoinObserver()
	t0 := time.Now()
	shard, shards := 0, 1
	if v := os.Getenv("C14_SHARD"); v != "" {
		fmt.Sscanf(v, "%d/%d", &shard, &shards)
	}
	if shards > 1 {
		// child process: rule and assumptions are stated by the coordinator
		runShard(t0, shard, shards)
		return
	}
	hk.Rule("fault cases: the 14-step exchange (LinkNode, MonitorNode, Link/Monitor on pid, registered name, alias, event, Call pid, Send pid, Call name, Call alias) is profiled without a fault; a case = dial orientation {survivor dialed, victim dialed} x fault {cut relayed link, StopForce, Stop, kill target, target exits with custom reason} x step x position {injected by the harness before the step; when the first request byte reaches the relay; after n request bytes; right after the last request byte; likewise for the response}; quick = every 5th case of the enumeration (offset by the seed) with one mid-frame offset per frame, thorough = all cases with many mid-frame offsets. A case is non-trivial iff the fault really fired while a step of the exchange was in flight or about to start and at least two relation requests had returned nil before (measured from the relay counters and the request results). distinct = orientation x fault x step x position class. re-arm cases: dial orientation x {StopForce, Stop, cut+StopForce} x number of watchers; every watcher holds LinkNode (plus links on pid/name/alias/event) and re-arms (LinkNode/MonitorNode/Link/Monitor) from inside its MessageExitNode handler while the node-down fan-out is parked at the wake-up of the only MonitorNode holder (yield point proc.run.wake); non-trivial iff at least one re-arm request returned while the fan-out was parked. pooled-link cases: dial orientation x pool size {2,3} x which pooled link is closed (its accepting-side socket, taken from the conn.join yield point) and re-dialled x how the connection is dropped afterwards {survivor Disconnect, survivor NetworkStop, victim StopForce, victim Disconnect}; non-trivial iff the closed link was really re-joined (join count of the acceptor grew) while the connection stayed registered on both sides. atom-mapping cases: remote termination over a connection whose survivor side renames the victim's registered name and event. incarnation cases: orientation of the reconnect x Stop/StopForce x direct/relayed, non-trivial iff the new incarnation reused the numeric process id of the old one and a call to it succeeded.")
	hk.Assume("one TCP link per connection (pool size 1), so cutting the relayed link is the loss of the connection")
	hk.Assume("a process whose exit signal is not trappable (parent is the node core) counts as notified when it is terminated with the reason; observers are therefore children of an ordinary process")
	hk.Assume("stuck-state witness: survivor has no connection entry for the victim, observer Sleep with empty mailbox and no runner, unchanged for 5 s => the missing notification will never come (node-down fan-out is a non-blocking in-memory loop)")
	if hk.Thorough() && hk.Only() == "" && shards == 1 {
		coordinator(t0)
		return
	}
	runShard(t0, shard, shards)
}

func runShard(t0 time.Time, shard, shards int) {
	reg := hk.FreePort()
	// a long-lived node keeps the registrar of this process alive
	regNode, err := hk.StartNode(hk.NodeCfg{Name: nodeName("r"), Network: true, RegPort: reg, PoolSize: 1})
	if err != nil {
		fmt.Fprintln(os.Stderr, "start registrar node:", err)
		os.Exit(3)
	}
	defer regNode.StopForce()

	profiles := map[string]*profile{}
	for _, d := range []string{"A", "B"} {
		// profiling is setup, not a verdict: retry (the handshake has a 1 s deadline and several shards start at once)
		var pr *profile
		var err error
		for attempt := 0; attempt < 6; attempt++ {
			if pr, err = takeProfile(reg, d); err == nil {
				break
			}
			time.Sleep(500 * time.Millisecond)
		}
		if err != nil {
			fmt.Fprintln(os.Stderr, "profile:", err)
			hk.Emit(hk.Case{ID: "profile/" + d, Scenario: "profile", Verdict: hk.Inconclusive, What: "profile run failed: " + err.Error()})
			continue
		}
		profiles[d] = pr
		if shard == 0 {
			hk.Sample(map[string]any{"profile": pr})
		}
	}

	var jobs []func()
	nFault := 0
	for _, d := range []string{"A", "B"} {
		pr := profiles[d]
		if pr == nil {
			continue
		}
		all := enumerate(pr, hk.Thorough())
		var sel []faultCase
		have := map[string]bool{}
		for i, fc := range all {
			if !hk.Thorough() && (int64(i)+hk.Seed())%5 != 0 && hk.Only() == "" {
				continue
			}
			sel = append(sel, fc)
			have[fc.id()] = true
		}
		// the atom-mapping core cases are part of every run
		for _, fc := range mappedCore(pr) {
			if !have[fc.id()] {
				sel = append(sel, fc)
				have[fc.id()] = true
			}
		}
		for _, fc := range sel {
			fc := fc
			nFault++
			jobs = append(jobs, func() { runFaultCase(reg, fc, pr) })
		}
	}
	var incs []incCase
	for rep := 0; rep < hk.Pick(1, 3); rep++ {
		for _, d := range []string{"A", "B"} {
			for _, st := range []string{"stopforce", "stop"} {
				incs = append(incs, incCase{Dialer: d, Stop: st, Via: "direct", Rep: rep})
				if hk.Thorough() || (st == "stopforce") == (d == "A") {
					incs = append(incs, incCase{Dialer: d, Stop: st, Via: "relay", Rep: rep})
				}
			}
		}
	}
	for rep := 0; rep < hk.Pick(1, 3); rep++ {
		incs = append(incs, incCase{Dialer: "A", Stop: "stopforce", Via: "auto", Rep: rep})
		incs = append(incs, incCase{Dialer: "A", Stop: "stop", Via: "auto", Rep: rep})
	}
	var rearms []rearmCase
	for rep := 0; rep < hk.Pick(1, 3); rep++ {
		for _, d := range []string{"A", "B"} {
			for _, st := range []string{"stopforce", "stop", "cut+stopforce"} {
				for _, w := range []int{4, 12, 32} {
					if !hk.Thorough() && w != 12 && !(w == 32 && st == "stopforce") {
						continue
					}
					rearms = append(rearms, rearmCase{Dialer: d, Stop: st, Watchers: w, Rep: rep})
				}
			}
		}
	}
	for _, rc := range rearms {
		rc := rc
		jobs = append(jobs, func() { runRearmCase(reg, rc) })
	}
	var pools []poolCase
	for rep := 0; rep < hk.Pick(1, 2); rep++ {
		for _, d := range []string{"A", "B"} {
			for _, pool := range []int{2, 3} {
				for _, drop := range []string{"disconnect", "netstop", "peerstop", "peerdisconnect"} {
					for cut := 0; cut < pool; cut++ {
						if !hk.Thorough() && (cut+pool+len(drop)+int(hk.Seed()))%2 != 0 && !(d == "A" && pool == 3 && drop == "disconnect") {
							continue
						}
						pools = append(pools, poolCase{Dialer: d, Pool: pool, Cut: cut, Side: "acceptor", Drop: drop, Rep: rep})
					}
				}
				// no flap at all: plain drop of a pooled connection
				pools = append(pools, poolCase{Dialer: d, Pool: pool, Cut: 0, Side: "none", Drop: "disconnect", Rep: rep})
			}
		}
	}
	for _, pc := range pools {
		pc := pc
		jobs = append(jobs, func() { runPoolCase(reg, pc) })
	}
	for _, ic := range incs {
		ic := ic
		jobs = append(jobs, func() { runIncarnationCase(reg, ic) })
	}

	if shards > 1 {
		var mine []func()
		for i, j := range jobs {
			if i%shards == shard {
				mine = append(mine, j)
			}
		}
		jobs = mine
	}
	workers := hk.Pick(8, 2)
	if n := runtime.NumCPU(); n < workers {
		workers = n
	}
	ch := make(chan func())
	var wg sync.WaitGroup
	for w := 0; w < workers; w++ {
		wg.Add(1)
		go func() {
			defer wg.Done()
			for j := range ch {
				j()
			}
		}()
	}
	for _, j := range jobs {
		ch <- j
	}
	close(ch)
	wg.Wait()
	hk.Stat("setup_retries", setupRetries.Load())
	hk.Stat("cut_healed_by_rejoin", healed.Load())
	hk.Stat("cut_healed_by_rejoin_but_round_trip_fails", healedOneWay.Load())
	hk.Stat("responses_dropped_before_wait_observed", droppedResponses.Load())
	hk.Stat("late_requests_not_judged_process_starved", lateUnderLoad.Load())
	if shard == 0 {
		hk.Stat("fault_cases_scheduled", int64(nFault))
		hk.Stat("incarnation_cases_scheduled", int64(len(incs)))
		hk.Stat("rearm_cases_scheduled", int64(len(rearms)))
		hk.Stat("pool_cases_scheduled", int64(len(pools)))
	}
	if shards == 1 {
		hk.Note("wall_seconds", int(time.Since(t0).Seconds()))
	}
	os.Stdout.Sync()
	os.Exit(0)
}
