package main

import (
	"errors"
	"fmt"
	"strings"
	"time"

	"ergo.services/ergo/gen"

	"verif/harness/actors"
	"verif/harness/hk"
)

// ---------------------------------------------------------------------------
// re-arm family: many watchers on the survivor hold LinkNode (and links on the
// victim's pid / name / alias / event); a gatekeeper holds the only
// MonitorNode. The victim is stopped. The node-down fan-out sends all exit
// messages first and is then parked (yield point proc.run.wake of the
// gatekeeper) while it is still inside RouteNodeDown. Every watcher re-arms
// from inside its exit handler (LinkNode / MonitorNode / Link / Monitor on
// the victim's identifiers). The peer is really gone, so no reconnect can
// succeed: a re-arm request either fails, or - if it returns nil - its
// relation must be notified exactly once like any other.

type rearmCase struct {
	Dialer   string // A | B
	Stop     string // stopforce | stop | cut+stopforce
	Watchers int
	Rep      int
}

func (rc rearmCase) id() string {
	return fmt.Sprintf("R/%s/%s/w%d/%d", rc.Dialer, rc.Stop, rc.Watchers, rc.Rep)
}

// what watcher i re-arms with (all start with the node itself: it needs no frame on the wire)
func rearmOps(i int) []opSpec {
	all := [][]opSpec{
		{{"re-linknode", "link", "node"}},
		{{"re-monitornode", "monitor", "node"}},
		{{"re-linknode", "link", "node"}, {"re-monitornode", "monitor", "node"}},
		{{"re-monitornode", "monitor", "node"}, {"re-monitorpid", "monitor", "pid"}},
		{{"re-linknode", "link", "node"}, {"re-linkalias", "link", "alias"}},
		{{"re-monitornode", "monitor", "node"}, {"re-monitorname", "monitor", "name"}, {"re-monitorevent", "monitor", "event"}},
	}
	return all[i%len(all)]
}

// initial relations of watcher i besides LinkNode
func watcherInitial(i int) []opSpec {
	all := [][]opSpec{
		nil,
		{{"w-linkpid", "link", "pid"}},
		{{"w-linkalias", "link", "alias"}},
		{{"w-linkname", "link", "name"}, {"w-linkevent", "link", "event"}},
	}
	return all[i%len(all)]
}

const sigRearm = "relation-accepted-inside-nodedown-handler-never-notified"

func runRearmCase(reg uint16, rc rearmCase) {
	id := rc.id()
	if !hk.Want(id) {
		return
	}
	v := &verdict{}
	var events int64
	detail := map[string]any{"case": rc}
	nontrivial := false
	finish := func() {
		cs := hk.Case{ID: id, Scenario: "rearm", Key: fmt.Sprintf("R/%s/%s/w%d", rc.Dialer, rc.Stop, rc.Watchers), Nontrivial: nontrivial && v.incon == "", Events: events, Detail: detail}
		detail["notes"] = v.notes
		switch {
		case len(v.viol) > 0:
			cs.Verdict = hk.Violated
			cs.Sig = v.sig()
			cs.What = strings.Join(v.viol, " | ")
			if len(cs.What) > 4000 {
				cs.What = cs.What[:4000] + " ..."
			}
		case v.incon != "":
			cs.Verdict = hk.Inconclusive
			cs.What = v.incon
		default:
			cs.Verdict = hk.Held
		}
		hk.Emit(cs)
	}
	var p *pair
	var err error
	for attempt := 0; attempt < 3; attempt++ {
		if p, err = newPair(reg, id, rc.Dialer, nil); err == nil {
			break
		}
	}
	if err != nil {
		v.incon = "setup: " + err.Error()
		finish()
		return
	}
	defer p.close()
	victim := p.B.Name()

	// expected number of notifications per watcher and relation = number of requests that returned nil
	type wstate struct {
		o        *observer
		expected map[relKey]int
		names    map[relKey]string
	}
	var ws []*wstate
	setupFail := func(what string, r opResult, ok bool) {
		v.incon = fmt.Sprintf("setup: %s: ok=%v err=%v", what, ok, r.Err)
	}
	for i := 0; i < rc.Watchers && v.incon == ""; i++ {
		o, err := p.newObserver(fmt.Sprintf("watcher%d", i), true)
		if err != nil {
			v.incon = "setup: " + err.Error()
			break
		}
		w := &wstate{o: o, expected: map[relKey]int{}, names: map[relKey]string{}}
		ws = append(ws, w)
		initial := append([]opSpec{{"w-linknode", "link", "node"}}, watcherInitial(i)...)
		for _, op := range initial {
			tgt := p.tgt.value(op.Tgt)
			r, ok := p.doOn(o, op, tgt, 5)
			if !ok || r.Err != nil {
				setupFail(fmt.Sprintf("watcher %d %s", i, op.Name), r, ok)
				break
			}
			k := keyOf(op, tgt)
			w.expected[k]++
			w.names[k] = op.Kind + "-" + op.Tgt
		}
		ops := rearmOps(i)
		budget := 3 // a watcher re-arms at most three times
		o.onNotif = func(pr *actors.Probe, n notif) {
			if _, isNode := n.Target.(gen.Atom); !isNode {
				return
			}
			if budget == 0 {
				return
			}
			budget--
			for _, op := range ops {
				tgt := p.tgt.value(op.Tgt)
				r := execOp(pr, opCmd{Op: op, Target: tgt, Timeout: 1})
				o.mu.Lock()
				o.rearms = append(o.rearms, rearmLog{Op: op.Name, Key: keyOf(op, tgt), Err: r.Err, L: hk.Tick(), OnL: n.L, DurU: r.Dur.Microseconds()})
				o.mu.Unlock()
			}
		}
	}
	// the gatekeeper holds the only monitor on the node: the fan-out reaches it after all exit messages
	var gk *observer
	if v.incon == "" {
		gk, err = p.newObserver("gatekeeper", true)
		if err != nil {
			v.incon = "setup: " + err.Error()
		} else if r, ok := p.doOn(gk, opSpec{"gk-monitornode", "monitor", "node"}, victim, 5); !ok || r.Err != nil {
			setupFail("gatekeeper monitornode", r, ok)
		}
	}
	if v.incon != "" {
		finish()
		return
	}
	hk.WaitUntil(5*time.Second, func() bool { return gk.idle() })

	// park the goroutine that wakes the gatekeeper: from now on only the node-down fan-out sends to it
	gate := hk.Park("proc.run.wake", hk.Eq(gk.pid), false).SetMaxWait(15 * time.Second)
	lStop := hk.Tick()
	if rc.Stop == "stop" {
		p.B.Stop()
	} else {
		p.B.StopForce()
	}
	if rc.Stop == "cut+stopforce" {
		// the peer is gone, then the relay drops its sockets as well (not concurrently: a re-dial of the
		// victim racing its own stop can leave a served socket behind in this shared OS process)
		p.R.CutAll()
	}
	arrived := gate.WaitArrived(20 * time.Second)
	lArrived := hk.Tick()
	inWindow := 0
	if arrived {
		// all exit messages of the node-down are out; let every watcher finish its handler while the fan-out is parked
		hk.WaitUntil(12*time.Second, func() bool {
			for _, w := range ws {
				if w.o.count(relKey{"exit", victim}) == 0 || !w.o.idle() {
					return false
				}
			}
			return true
		})
	}
	lRelease := hk.Tick()
	gate.Release()
	if !arrived {
		v.incon = "gate: the node-down fan-out never reached the gatekeeper"
		finish()
		return
	}
	if gate.TimedOut() {
		v.notes = append(v.notes, "gate released by its deadline")
	}
	if !hk.WaitUntil(20*time.Second, func() bool { return !connected(p.A, victim) }) {
		v.incon = "watchdog: the survivor still holds the connection 20 s after the victim was stopped"
		finish()
		return
	}
	// quiescence or stuck state
	all := append([]*observer{gk}, func() []*observer {
		var r []*observer
		for _, w := range ws {
			r = append(r, w.o)
		}
		return r
	}()...)
	unmet := func() []string {
		var m []string
		if gk.count(relKey{"down", victim}) == 0 {
			listed, _ := gk.listed(relKey{"down", victim})
			m = append(m, fmt.Sprintf("%s: down on %v: 1 request returned nil, 0 notifications (relation still in the table: %v)", gk.label, victim, listed))
		}
		for _, w := range ws {
			exp := map[relKey]int{}
			for k, n := range w.expected {
				exp[k] = n
			}
			for _, rl := range w.o.rearmResults() {
				if rl.Err == nil {
					exp[rl.Key]++
				}
			}
			for k, n := range exp {
				if c := w.o.count(k); c < n {
					listed, _ := w.o.listed(k)
					m = append(m, fmt.Sprintf("%s: %s on %v: %d requests returned nil, %d notifications (relation still in the table: %v)", w.o.label, k.Kind, k.Target, n, c, listed))
				}
			}
		}
		return m
	}
	var stuckSince time.Time
	deadline := time.Now().Add(40 * time.Second)
	for {
		m := unmet()
		if len(m) == 0 {
			break
		}
		stuck := !connected(p.A, victim) && !p.B.IsAlive()
		for _, o := range all {
			if !o.idle() {
				stuck = false
			}
		}
		if !stuck {
			stuckSince = time.Time{}
		} else if stuckSince.IsZero() {
			stuckSince = time.Now()
		} else if time.Since(stuckSince) > 5*time.Second {
			v.violate(sigRearm, fmt.Sprintf("victim stopped, survivor has no connection with it, all watchers idle with empty mailboxes, yet %d relations whose request returned nil were never notified: %s", len(m), strings.Join(m, "; ")))
			break
		}
		if time.Now().After(deadline) {
			v.incon = fmt.Sprintf("watchdog: %d expectations unmet, no stable state", len(m))
			break
		}
		time.Sleep(2 * time.Millisecond)
	}
	// exactly once, reasons, nothing for failed requests
	type rsum struct {
		Watcher string
		Op      string
		Err     string
		InGate  bool
	}
	var rs []rsum
	for _, w := range ws {
		exp := map[relKey]int{}
		for k, n := range w.expected {
			exp[k] = n
		}
		for _, rl := range w.o.rearmResults() {
			events++
			in := rl.L > lArrived && rl.L < lRelease
			if in {
				inWindow++
			}
			rs = append(rs, rsum{w.o.label, rl.Op, reasonText(rl.Err), in})
			if rl.Err == nil {
				exp[rl.Key]++
			}
		}
		seen := map[relKey]int{}
		for _, n := range w.o.notifs() {
			events++
			k := relKey{n.Kind, n.Target}
			seen[k]++
			if exp[k] == 0 {
				v.violate("notification-without-relation:"+n.Kind, fmt.Sprintf("%s got %s although no such request of it returned nil", w.o.label, n))
				continue
			}
			if _, isNode := n.Target.(gen.Atom); isNode {
				continue
			}
			t := reasonText(n.Reason)
			if !errors.Is(n.Reason, gen.ErrNoConnection) && !(n.L > lStop && (t == gen.TerminateReasonKill.Error() || t == gen.TerminateReasonShutdown.Error())) {
				v.violate("wrong-reason:rearm", fmt.Sprintf("%s got %s; expected gen.ErrNoConnection", w.o.label, n))
			}
		}
		for k, c := range seen {
			if exp[k] > 0 && c > exp[k] {
				v.violate("duplicate-notification:rearm", fmt.Sprintf("%s got %d %s messages for %v, %d requests had returned nil", w.o.label, c, k.Kind, k.Target, exp[k]))
			}
		}
	}
	if c := gk.count(relKey{"down", victim}); c > 1 {
		v.violate("gatekeeper-notifications", fmt.Sprintf("gatekeeper got %d down messages for the node", c))
	}
	events += int64(len(gk.notifs()))
	nontrivial = arrived && inWindow > 0
	if len(rs) > 40 {
		rs = rs[:40]
	}
	detail["rearm_requests_while_fanout_parked"] = inWindow
	detail["rearm_results_sample"] = rs
	finish()
}
