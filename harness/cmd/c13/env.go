package main

import (
	"fmt"
	"net"
	"sync"
	"sync/atomic"
	"time"

	"ergo.services/ergo/gen"
	"ergo.services/ergo/lib"

	"verif/harness/actors"
	"verif/harness/hk"
)

// link is one end of one pooled TCP link as seen at the conn.join hook
type link struct {
	conn     net.Conn
	node     byte // 'A' or 'B': the node this end belongs to
	accepted bool // this end was accepted (not dialled)
	local    string
	remote   string
	joinTick int64
	frames   atomic.Int64 // frames read from this end (recv.frame)
	closedBy atomic.Bool  // closed by the harness
}

type qinfo struct {
	q      lib.QueueMPSC
	pushes atomic.Int64
}

// registry of links and receive queues, filled by the hook observers
var reg struct {
	mu     sync.RWMutex
	aPort  int
	bPort  int
	byConn map[net.Conn]*link
	list   []*link
	queues map[lib.QueueMPSC]*qinfo
	qlist  []*qinfo
}

func regReset(aPort, bPort uint16) {
	reg.mu.Lock()
	reg.aPort, reg.bPort = int(aPort), int(bPort)
	reg.byConn = map[net.Conn]*link{}
	reg.list = nil
	reg.queues = map[lib.QueueMPSC]*qinfo{}
	reg.qlist = nil
	reg.mu.Unlock()
}

func portOf(a net.Addr) int {
	if t, ok := a.(*net.TCPAddr); ok {
		return t.Port
	}
	return -1
}

// slow describes the per-link delay injected at recv.frame
type slowCfg struct {
	conn  net.Conn
	every int64 // delay every n-th frame of that link
	d     time.Duration
}

var (
	slowLink  atomic.Pointer[slowCfg]
	joinDelay atomic.Int64 // ns slept at conn.join of a dialled link (stretches pool growth)
	slowHits  atomic.Int64
)

func installObservers() {
	hk.Observe("conn.join", nil, func(_ string, subject any) {
		c, ok := subject.(net.Conn)
		if !ok {
			return
		}
		l := &link{conn: c, local: c.LocalAddr().String(), remote: c.RemoteAddr().String(), joinTick: hk.Tick()}
		lp, rp := portOf(c.LocalAddr()), portOf(c.RemoteAddr())
		reg.mu.Lock()
		switch {
		case lp == reg.bPort:
			l.node, l.accepted = 'B', true
		case lp == reg.aPort:
			l.node, l.accepted = 'A', true
		case rp == reg.bPort:
			l.node = 'A'
		case rp == reg.aPort:
			l.node = 'B'
		default:
			reg.mu.Unlock()
			return // a connection of some other node pair
		}
		reg.byConn[c] = l
		reg.list = append(reg.list, l)
		reg.mu.Unlock()
		epoch.Add(1)
		if !l.accepted {
			if d := joinDelay.Load(); d > 0 {
				time.Sleep(time.Duration(d))
			}
		}
	})
	hk.Observe("recv.frame", nil, func(_ string, subject any) {
		c, ok := subject.(net.Conn)
		if !ok {
			return
		}
		reg.mu.RLock()
		l := reg.byConn[c]
		reg.mu.RUnlock()
		if l == nil {
			return
		}
		n := l.frames.Add(1)
		if s := slowLink.Load(); s != nil && s.conn == c && n%s.every == 0 {
			slowHits.Add(1)
			time.Sleep(s.d)
		}
	})
	hk.Observe("recv.push", nil, func(_ string, subject any) {
		q, ok := subject.(lib.QueueMPSC)
		if !ok {
			return
		}
		reg.mu.RLock()
		qi := reg.queues[q]
		reg.mu.RUnlock()
		if qi == nil {
			reg.mu.Lock()
			if qi = reg.queues[q]; qi == nil {
				qi = &qinfo{q: q}
				reg.queues[q] = qi
				reg.qlist = append(reg.qlist, qi)
			}
			reg.mu.Unlock()
		}
		qi.pushes.Add(1)
	})
}

// links returns the live registry entries of one node (join order)
func links(node byte) []*link {
	reg.mu.RLock()
	defer reg.mu.RUnlock()
	var out []*link
	for _, l := range reg.list {
		if l.node == node {
			out = append(out, l)
		}
	}
	return out
}

func allLinks() []*link {
	reg.mu.RLock()
	defer reg.mu.RUnlock()
	return append([]*link(nil), reg.list...)
}

func allQueues() []*qinfo {
	reg.mu.RLock()
	defer reg.mu.RUnlock()
	return append([]*qinfo(nil), reg.qlist...)
}

func queuesEmpty() bool {
	for _, q := range allQueues() {
		if q.q.Len() != 0 {
			return false
		}
	}
	return true
}

type counters struct {
	frames map[*link]int64
	pushes map[*qinfo]int64
}

func snapCounters() counters {
	c := counters{frames: map[*link]int64{}, pushes: map[*qinfo]int64{}}
	for _, l := range allLinks() {
		c.frames[l] = l.frames.Load()
	}
	for _, q := range allQueues() {
		c.pushes[q] = q.pushes.Load()
	}
	return c
}

// spread reports over how many links of node `node` and how many receive
// queues the frames since snapshot c0 were spread
func spread(c0 counters, node byte) (linksUsed, queuesUsed int, frames int64, perLink []int64, perQueue []int64) {
	for _, l := range allLinks() {
		if l.node != node {
			continue
		}
		d := l.frames.Load() - c0.frames[l]
		perLink = append(perLink, d)
		if d > 0 {
			linksUsed++
			frames += d
		}
	}
	for _, q := range allQueues() {
		d := q.pushes.Load() - c0.pushes[q]
		if d > 0 {
			queuesUsed++
			perQueue = append(perQueue, d)
		}
	}
	return
}

// ---------------------------------------------------------------------------

type env struct {
	k      int
	A, B   *hk.HNode
	sA, sB []*sender   // senders living on A / on B
	rA, rB []*receiver // receivers living on A / on B
	all    map[uint32]*sender

	heals   int  // reconnects done by the circuit breaker
	broken  bool // the connection keeps breaking: skip the remaining stable-pool cases
	skipped int
}

// noteDelivery is the circuit breaker of the stable-pool scenarios: after a case that lost messages
// (a link may be stuck for good, which would cost a watchdog period in every later case that uses it)
// the connection is torn down and dialled again; after five such repairs the remaining stable-pool
// cases of this pool size are skipped.
func (e *env) noteDelivery(complete bool) {
	if complete {
		return
	}
	e.heals++
	if e.heals > 5 {
		e.broken = true
		return
	}
	e.disconnect()
	if err := e.connect(true); err != nil {
		e.broken = true
	}
}

func (e *env) node(side byte) *hk.HNode {
	if side == 'A' {
		return e.A
	}
	return e.B
}

func spawnSenders(n *hk.HNode, side byte, base uint32, count int) ([]*sender, error) {
	var out []*sender
	for i := 0; i < count; i++ {
		s := &sender{idx: base + uint32(i), side: side}
		f, inst := actors.NewProbe(fmt.Sprintf("snd%c%d", side, i), s.hooks())
		var po gen.ProcessOptions
		if i%5 == 4 {
			// every fifth sender compresses what exceeds 1 KiB (padded messages): the compressed frame must keep the order byte
			po.Compression = gen.Compression{Enable: true, Threshold: 1024,
				Type: []gen.CompressionType{gen.CompressionTypeGZIP, gen.CompressionTypeZLIB, gen.CompressionTypeLZW}[(i/5)%3]}
		}
		pid, err := n.Spawn(f, po)
		if err != nil {
			return nil, err
		}
		s.pid, s.inst, s.res = pid, inst, int(pid.ID%255)
		out = append(out, s)
	}
	return out, nil
}

func spawnReceivers(n *hk.HNode, side byte, base uint32, count int) ([]*receiver, error) {
	var out []*receiver
	for i := 0; i < count; i++ {
		r := &receiver{idx: base + uint32(i), side: side}
		r.name = gen.Atom(fmt.Sprintf("c13r%c%d", side, i))
		pid, err := n.SpawnRegister(r.name, func() gen.ProcessBehavior { return &recvActor{r: r} }, gen.ProcessOptions{})
		if err != nil {
			return nil, err
		}
		r.pid, r.res = pid, int(pid.ID%255)
		out = append(out, r)
	}
	done := make(chan error, len(out))
	for _, r := range out {
		if err := n.Send(r.pid, mkAlias{done}); err != nil {
			return nil, err
		}
	}
	for range out {
		select {
		case err := <-done:
			if err != nil {
				return nil, err
			}
		case <-time.After(10 * time.Second):
			return nil, fmt.Errorf("receivers did not create their aliases")
		}
	}
	return out, nil
}

const (
	nSendA = 520 // every residue of the id mod 255 and mod 256 occurs at least twice
	nSendB = 260
	nRecvB = 260
	nRecvA = 260
)

func newEnv(k int) (*env, error) {
	rp := hk.FreePort()
	e := &env{k: k, all: map[uint32]*sender{}}
	var err error
	// the pool size of a connection is the one configured at the accepting node
	if e.B, err = hk.StartNode(hk.NodeCfg{Name: hk.UniqueName("c13b"), Network: true, RegPort: rp, PoolSize: k}); err != nil {
		return nil, err
	}
	if e.A, err = hk.StartNode(hk.NodeCfg{Name: hk.UniqueName("c13a"), Network: true, RegPort: rp, PoolSize: k}); err != nil {
		return nil, err
	}
	regReset(e.A.Port, e.B.Port)
	if e.sA, err = spawnSenders(e.A, 'A', 0, nSendA); err != nil {
		return nil, err
	}
	if e.rA, err = spawnReceivers(e.A, 'A', 1000, nRecvA); err != nil {
		return nil, err
	}
	if e.rB, err = spawnReceivers(e.B, 'B', 0, nRecvB); err != nil {
		return nil, err
	}
	if e.sB, err = spawnSenders(e.B, 'B', 1000, nSendB); err != nil {
		return nil, err
	}
	for _, s := range e.sA {
		e.all[s.idx] = s
	}
	for _, s := range e.sB {
		e.all[s.idx] = s
	}
	return e, nil
}

// connect dials B from A and waits until the pool is complete on both sides
func (e *env) connect(waitFull bool) error {
	if _, err := hk.Connect(e.A, e.B); err != nil {
		return err
	}
	if !waitFull {
		return nil
	}
	if !e.waitPool(e.k, 5*time.Second) {
		return fmt.Errorf("pool of %d links not complete: A has %d, B has %d", e.k, len(liveLinks('A')), len(liveLinks('B')))
	}
	return nil
}

func liveLinks(node byte) []*link {
	var out []*link
	for _, l := range links(node) {
		if !l.closedBy.Load() {
			out = append(out, l)
		}
	}
	return out
}

func (e *env) waitPool(n int, d time.Duration) bool {
	return hk.WaitUntil(d, func() bool { return len(liveLinks('A')) >= n && len(liveLinks('B')) >= n })
}

// disconnect terminates the connection and waits until both nodes have dropped it
func (e *env) disconnect() bool {
	if rn, err := e.A.Network().Node(e.B.Name()); err == nil {
		rn.Disconnect()
	}
	if rn, err := e.B.Network().Node(e.A.Name()); err == nil {
		rn.Disconnect()
	}
	ok := hk.WaitUntil(5*time.Second, func() bool {
		_, ea := e.A.Network().Node(e.B.Name())
		_, eb := e.B.Network().Node(e.A.Name())
		return ea != nil && eb != nil
	})
	regReset(e.A.Port, e.B.Port)
	return ok
}

func (e *env) stop() {
	e.disconnect()
	e.A.StopForce()
	e.B.StopForce()
}

// byRes groups by residue of the process id
func sendersByRes(ss []*sender) map[int][]*sender {
	m := map[int][]*sender{}
	for _, s := range ss {
		m[s.res] = append(m[s.res], s)
	}
	return m
}

func receiversByRes(rs []*receiver) map[int][]*receiver {
	m := map[int][]*receiver{}
	for _, r := range rs {
		m[r.res] = append(m[r.res], r)
	}
	return m
}
