// C13 — network FIFO between a pair of processes.
//
// Two nodes A and B live in this OS process and are connected by a pool of k
// TCP links (k in {1,2,3,5}).  Sender processes (probe actors) send numbered
// messages from inside their own callbacks to receiver processes on the other
// node; every receiver checks that the sequence numbers of every (sender,
// receiver) pair only grow.  The senders and receivers cover every residue of
// the process id mod 255 (and mod 256): the residue of the sender id selects the
// TCP link, the residue of the receiver id selects the receive queue.
//
// Scenario families
//
//	pair   one isolated pair at a time (exact attribution of its frames to links
//	       and receive queues through the recv.frame / recv.push hooks); first
//	       message stalls its decode worker, one link is parked by a gate
//	mass   all senders stream at the same time, seeded delays at the receive hooks,
//	       one link slowed down, random decode stalls and payload sizes
//	grow   the stream starts while the dialling node is still adding links
//	       (gate-directed variant and free-running variant)
//	drop   single links are closed in the middle of the streams (both directions)
package main

import (
	"fmt"
	"net"
	"os"
	"sort"
	"strings"
	"sync"
	"time"

	"ergo.services/ergo/net/edf"

	"verif/harness/hk"
)

func want(runID string) bool {
	o := hk.Only()
	return o == "" || o == runID || strings.HasPrefix(o, runID+"#")
}

// ---------------------------------------------------------------------------
// quiescence

// settle waits until every sent message of the run has been delivered.  If that
// does not happen within `full` it falls back to a structural idle test (all
// receive queues empty, no decoder active, no frame and no delivery for a
// while) and reports how many messages are missing.
func settle(rn *run, full time.Duration) (complete bool, idle bool, missing int64) {
	if hk.WaitUntil(full, func() bool { return rn.recvd.Load() >= rn.sent.Load() }) {
		return true, true, 0
	}
	stable := 0
	var lastR, lastF int64 = -1, -1
	idle = hk.WaitUntil(5*time.Second, func() bool {
		r, f := rn.recvd.Load(), hk.Hits("recv.frame")
		if r == lastR && f == lastF && decodeActive.Load() == 0 && queuesEmpty() {
			stable++
		} else {
			stable = 0
		}
		lastR, lastF = r, f
		if stable < 40 {
			time.Sleep(time.Millisecond)
			return false
		}
		return true
	})
	missing = rn.sent.Load() - rn.recvd.Load()
	return missing <= 0, idle, missing
}

// ---------------------------------------------------------------------------
// analysis

type classRes struct {
	name      string
	pairs     int
	msgs      int64
	overlapP  int // pairs with >= 1 in-flight overlap
	invPairs  int
	invN      int
	dupN      int
	witness   []inversion
	sigs      map[string]int
	residuesS map[int]bool
	residuesR map[int]bool
}

func className(s0, r0 bool) string {
	switch {
	case s0 && r0:
		return "sender0-receiver0"
	case s0:
		return "sender0"
	case r0:
		return "receiver0"
	}
	return "ordinary"
}

// window is the span of pool epochs of a run during which the pool of links was
// (or may have been) changing.  Messages stamped with an epoch < from were sent
// before the first change, messages stamped >= to after the last one.
type window struct{ from, to uint32 }

var (
	stablePool = window{^uint32(0), ^uint32(0)} // no pool change in this run
	// a link was dropped: the accepting node removes the dead link from its pool at a moment
	// no hook reports (when its reader has drained the socket), so the whole run counts as changing
	changingPool = window{0, ^uint32(0)}
)

// sigOf classifies the inversions of one pair.
//   - receiver id % 255 == 0: the frame carries order byte 0, the receiving side spreads
//     the pair over all receive queues (any pool size)
//   - sender id % 255 == 0 and more than one link: the sending side spreads the pair over all links
//   - every inversion involves a message sent while the pool was changing: order % len(pool)
//     picked another link
//   - an inversion between two messages both sent while the pool was stable: the FIFO
//     mechanism itself is broken
func sigOf(s0, r0 bool, k int, p *pair, w window) string {
	switch {
	case r0:
		return "order-byte-zero-receiver"
	case s0 && k > 1:
		return "order-byte-zero"
	case p.minAfterEp < w.from || p.maxGotEp >= w.to:
		return "fifo-reorder"
	}
	return "pool-resize-remap"
}

func analyse(e *env, rn *run, recvs []*receiver, k int, w window) map[string]*classRes {
	out := map[string]*classRes{}
	for _, r := range recvs {
		for _, p := range r.snapshot(rn.id) {
			s := e.all[p.s]
			if s == nil {
				continue
			}
			s0, r0 := s.res == 0, r.res == 0
			cn := className(s0, r0)
			c := out[cn]
			if c == nil {
				c = &classRes{name: cn, sigs: map[string]int{}, residuesS: map[int]bool{}, residuesR: map[int]bool{}}
				out[cn] = c
			}
			c.pairs++
			c.msgs += int64(p.got)
			c.residuesS[s.res] = true
			c.residuesR[r.res] = true
			if p.overlap > 0 {
				c.overlapP++
			}
			c.dupN += p.dupN
			if p.invN > 0 {
				c.invPairs++
				c.invN += p.invN
				c.sigs[sigOf(s0, r0, k, p, w)]++
				if len(c.witness) < 4 {
					c.witness = append(c.witness, p.inv[0])
				}
			}
		}
	}
	return out
}

func (c *classRes) sig() string {
	// the most specific surprise first: a reorder that none of the known causes explains
	for _, s := range []string{"fifo-reorder", "pool-resize-remap", "order-byte-zero", "order-byte-zero-receiver"} {
		if c.sigs[s] > 0 {
			return s
		}
	}
	return ""
}

func (e *env) describe(w inversion) string {
	s := e.all[w.S]
	var rp string
	for _, r := range append(append([]*receiver{}, e.rA...), e.rB...) {
		if r.idx == w.R {
			rp = fmt.Sprintf("%s (id%%255=%d)", r.pid, r.res)
		}
	}
	return fmt.Sprintf("sender %s (id%%255=%d) -> receiver %s: message #%d (sent at lclock %d, pool epoch %d) was delivered after #%d (sent at lclock %d, pool epoch %d)",
		s.pid, s.res, rp, w.Got, w.SendTick, w.GotEpoch, w.After, w.AfterSend, w.AfterEpoch)
}

// ---------------------------------------------------------------------------
// scenario: one isolated pair

type pairOpt struct {
	n       int
	stallUS uint32
	gate    bool
	byName  bool // address the receiver by its registered name: link and receive queue both follow the sender id
}

func runPair(e *env, id string, s *sender, r *receiver, dst byte, o pairOpt) {
	if !want(id) {
		return
	}
	rng := hk.Rng("c13", id)
	rn := beginRun()
	c0 := snapCounters()
	ls := liveLinks(dst)
	var g *hk.Gate
	if o.gate && len(ls) > 0 {
		gl := ls[rng.Intn(len(ls))]
		g = hk.Park("recv.frame", hk.Eq(any(gl.conn)), false).SetMaxWait(200 * time.Millisecond)
	}
	var wg sync.WaitGroup
	wg.Add(1)
	cmd := &streamCmd{Run: rn, Targets: []target{{r.pid, r.idx, r.name}}, N: o.n, SleepFirstUS: o.stallUS, ByName: o.byName, PadProb: 0.25, PadMax: 4000, Seed: rng.Int63(), Done: &wg}
	incon := ""
	if err := e.node(s.side).Send(s.pid, cmd); err != nil {
		incon = "harness: command to sender failed: " + err.Error()
		wg.Done()
	}
	doneCh := make(chan struct{})
	go func() { wg.Wait(); close(doneCh) }()
	select {
	case <-doneCh:
	case <-time.After(10 * time.Second):
		incon = "watchdog: sender callback did not finish"
	}
	if g != nil {
		// keep the parked link parked until the frames that took other links have been delivered
		share := int64(o.n)
		if s.res == 0 && len(ls) > 1 {
			share = int64((o.n + len(ls) - 1) / len(ls))
		}
		hk.WaitUntil(3*time.Millisecond, func() bool {
			got := rn.recvd.Load()
			return got >= int64(o.n) || (g.ArrivedCount() > 0 && got >= int64(o.n)-share)
		})
		g.Release()
	}
	complete, _, missing := settle(rn, 10*time.Second)
	if !complete && incon == "" {
		incon = fmt.Sprintf("watchdog: %d of %d messages not delivered", missing, rn.sent.Load())
	}
	lu, qu, frames, perLink, perQueue := spread(c0, dst)
	exact := frames == rn.sent.Load()
	res := analyse(e, rn, []*receiver{r}, len(ls), stablePool)
	s0, r0 := s.res == 0, r.res == 0
	c := res[className(s0, r0)]
	scen := "pair"
	if o.byName {
		scen = "pair-by-name"
		r0 = false // the receiver id plays no role: the frame carries the sender's order byte
		if c != nil && c.invN > 0 {
			// sender id % 255 == 0: order byte 0 on the wire, links and receive queues both round-robin (any pool size)
			sg := "fifo-reorder"
			if s0 {
				sg = "order-byte-zero"
			}
			c.sigs = map[string]int{sg: 1}
		}
	}
	cs := hk.Case{ID: id, Scenario: scen, Events: rn.recvd.Load() + frames}
	stalled := o.stallUS > 0
	inflight := c != nil && c.overlapP > 0
	spreadSeen := exact && (lu >= 2 || qu >= 2)
	cs.Nontrivial = spreadSeen || (inflight && stalled)
	cs.Key = fmt.Sprintf("%s/k=%d/%s/links=%d/queues=%d/inflight=%v", scen, len(ls), className(s0, r0), min(lu, 2), min(qu, 2), inflight)
	det := map[string]any{"pool": len(ls), "sender": s.pid.String(), "sender_res": s.res, "receiver": r.pid.String(), "receiver_res": r.res,
		"sent": rn.sent.Load(), "delivered": rn.recvd.Load(), "frames_per_link": perLink, "pushes_per_queue": perQueue, "attribution_exact": exact,
		"gate_parked_a_link": g != nil && g.ArrivedCount() > 0}
	switch {
	case c != nil && c.invN > 0:
		cs.Verdict = hk.Violated
		cs.Sig = c.sig()
		cs.What = fmt.Sprintf("pool of %d links, %d receive queues: %s; %d inversions in a burst of %d; frames per link %v, pushes per queue %v",
			len(ls), 4*len(ls), e.describe(c.witness[0]), c.invN, o.n, perLink, perQueue)
		det["inversions"] = c.witness
		cs.Nontrivial = true
	case incon != "":
		cs.Verdict = hk.Inconclusive
		cs.What = incon
	default:
		cs.Verdict = hk.Held
	}
	if n := rn.sendErr.Load(); n > 0 {
		det["send_errors"] = rn.errs
	}
	cs.Detail = det
	hk.Emit(cs)
}

func min(a, b int) int {
	if a < b {
		return a
	}
	return b
}

// ---------------------------------------------------------------------------
// scenario: everybody streams at once

type massOpt struct {
	scenario string
	n        int
	stress   bool
	slow     bool
	reverse  bool // B -> A streams as well
	gapEvery int
	gapUS    int
	lossy    bool
	// ordinaryOnly leaves out senders and receivers whose id residue is 0: in a run with a
	// changing pool an inversion of such a pair could not be attributed to one cause
	ordinaryOnly bool
	// during, if set, runs concurrently with the streams (pool changes)
	during func(rn *run) map[string]any
	// pre, if set, runs before the streams start and may return an inconclusive reason
	pre func() string
	// post, if set, runs after the streams have settled and before the analysis
	post func()
	// window, if set, returns the span of epochs during which the pool was changing (evaluated after post)
	window func() window
}

func (e *env) massTargets(i int, from byte, ordinaryOnly bool) []target {
	var rs []*receiver
	if from == 'A' {
		rs = e.rB
	} else {
		rs = e.rA
	}
	n := len(rs)
	pick := []int{i % n, (i*37 + 11) % n}
	var ts []target
	seen := map[uint32]bool{}
	for _, x := range pick {
		r := rs[x]
		if r.res == 0 || seen[r.idx] {
			continue
		}
		seen[r.idx] = true
		ts = append(ts, target{r.pid, r.idx, r.name})
	}
	// every sender also talks to the first receiver whose id residue is 0
	for _, r := range rs {
		if r.res == 0 && !ordinaryOnly {
			ts = append(ts, target{r.pid, r.idx, r.name})
			break
		}
	}
	return ts
}

func runMass(e *env, id string, o massOpt) {
	if !want(id) {
		return
	}
	rng := hk.Rng("c13", id)
	incon := ""
	if o.pre != nil {
		incon = o.pre()
	}
	rn := beginRun()
	ep0 := epoch.Load()
	stalls0 := decodeStalls.Load()
	slow0 := slowHits.Load()
	if o.stress {
		hk.Stress(id, map[string]float64{
			"recv.frame": 0.01, "recv.push": 0.01, "recv.pushed": 0.01, "recv.unlock": 0.05, "recv.recheck": 0.05, "recv.relock": 0.1,
			"send.pick": 0.005,
		}, time.Duration(50+rng.Intn(300))*time.Microsecond)
	}
	if o.slow {
		if ls := liveLinks('B'); len(ls) > 0 {
			slowLink.Store(&slowCfg{conn: ls[rng.Intn(len(ls))].conn, every: int64(100 + rng.Intn(400)), d: time.Duration(200+rng.Intn(1800)) * time.Microsecond})
		}
	}
	var wg sync.WaitGroup
	seed := rng.Int63()
	mk := func(ts []target) *streamCmd {
		return &streamCmd{Run: rn, Targets: ts, N: o.n, SleepProb: 0.01, SleepMaxUS: 300, PadProb: 0.1, PadMax: 3000,
			GapEvery: o.gapEvery, GapUS: o.gapUS, Seed: seed, Done: &wg}
	}
	started := 0
	if incon == "" {
		for i, s := range e.sA {
			if o.ordinaryOnly && s.res == 0 {
				continue
			}
			wg.Add(1)
			if err := e.A.Send(s.pid, mk(e.massTargets(i, 'A', o.ordinaryOnly))); err != nil {
				wg.Done()
				continue
			}
			started++
		}
		if o.reverse {
			for i, s := range e.sB {
				if o.ordinaryOnly && s.res == 0 {
					continue
				}
				wg.Add(1)
				if err := e.B.Send(s.pid, mk(e.massTargets(i, 'B', o.ordinaryOnly))); err != nil {
					wg.Done()
					continue
				}
				started++
			}
		}
	}
	var duringDet map[string]any
	if o.during != nil && incon == "" {
		duringDet = o.during(rn)
	}
	doneCh := make(chan struct{})
	go func() { wg.Wait(); close(doneCh) }()
	select {
	case <-doneCh:
	case <-time.After(60 * time.Second):
		incon = "watchdog: sender callbacks did not finish"
	}
	full := 20 * time.Second
	if o.lossy {
		full = 300 * time.Millisecond
	}
	complete, idle, missing := settle(rn, full)
	hk.StressOff()
	slowLink.Store(nil)
	if o.post != nil {
		o.post()
	}
	if !complete {
		if !o.lossy && incon == "" {
			incon = fmt.Sprintf("watchdog: %d of %d messages not delivered", missing, rn.sent.Load())
		} else if !idle && incon == "" {
			incon = "watchdog: no quiescence"
		}
	}
	recvs := append([]*receiver{}, e.rB...)
	if o.reverse {
		recvs = append(recvs, e.rA...)
	}
	k := e.k
	w := stablePool
	if o.window != nil {
		w = o.window()
	}
	res := analyse(e, rn, recvs, k, w)
	poolChanges := int(epoch.Load() - ep0)
	hk.Stat("messages_sent", rn.sent.Load())
	hk.Stat("messages_delivered", rn.recvd.Load())
	if missing > 0 {
		hk.Stat("messages_not_delivered_after_link_drop", missing)
	}
	perturbed := o.stress || o.slow
	names := make([]string, 0, len(res))
	for n := range res {
		names = append(names, n)
	}
	sort.Strings(names)
	for _, n := range names {
		c := res[n]
		cid := id + "#" + n
		cs := hk.Case{ID: cid, Scenario: o.scenario, Events: c.msgs}
		det := map[string]any{"pool": k, "pairs": c.pairs, "messages": c.msgs, "pairs_with_two_messages_in_flight": c.overlapP,
			"sender_residues": len(c.residuesS), "receiver_residues": len(c.residuesR), "pool_changes_during_run": poolChanges,
			"injected_delays": perturbed, "decode_stalls": decodeStalls.Load() - stalls0, "slow_link_delays": slowHits.Load() - slow0, "sent_total": rn.sent.Load(),
			"delivered_total": rn.recvd.Load(), "duplicates": c.dupN}
		for k, v := range duringDet {
			det[k] = v
		}
		if rn.sendErr.Load() > 0 {
			det["send_errors"] = rn.errs
		}
		// non-trivial: the pairs of this class provably had two consecutive messages in flight
		// together, while (a) the class is one whose frames are spread over links/queues, or
		// (b) the pool changed during the run, or (c) more than one link / queue carried the
		// run and delays were injected
		cs.Nontrivial = c.overlapP > 0 && (n != "ordinary" || poolChanges > 0 || perturbed)
		cs.Key = fmt.Sprintf("%s/k=%d/%s/poolchange=%v/inflight=%v/delays=%v", o.scenario, k, n, poolChanges > 0, c.overlapP > 0, perturbed)
		switch {
		case c.invN > 0:
			cs.Verdict = hk.Violated
			cs.Sig = c.sig()
			cs.Nontrivial = true
			cs.What = fmt.Sprintf("pool of %d links: %d of %d pairs of class %s saw %d inversions (causes %v); e.g. %s",
				k, c.invPairs, c.pairs, n, c.invN, c.sigs, e.describe(c.witness[0]))
			det["inversions"] = c.witness
			det["inversion_causes"] = c.sigs
		case incon != "":
			cs.Verdict = hk.Inconclusive
			cs.What = incon
		default:
			cs.Verdict = hk.Held
		}
		cs.Detail = det
		hk.Emit(cs)
	}
	if len(res) == 0 {
		what := incon
		if what == "" {
			what = "harness: no message was delivered"
		}
		hk.Emit(hk.Case{ID: id + "#none", Scenario: o.scenario, Verdict: hk.Inconclusive, What: what, Detail: map[string]any{"started": started, "send_errors": rn.errs}})
	}
}

// ---------------------------------------------------------------------------
// scenario: gate-directed pool growth.  The accepting node is parked at the join
// of the first link, so the dialling node owns a pool of exactly one link while
// the first burst is sent; the first frame of that link is then parked at the
// receiving node, the pool is allowed to grow to k links, and the second burst
// is sent.  If the sender id now selects another link, the second burst arrives
// while the first one is still held.

func sendBurst(e *env, rn *run, s *sender, r *receiver, base uint32, n int) string {
	var wg sync.WaitGroup
	wg.Add(1)
	cmd := &streamCmd{Run: rn, Targets: []target{{r.pid, r.idx, r.name}}, Base: base, N: n, Done: &wg}
	if err := e.node(s.side).Send(s.pid, cmd); err != nil {
		return "harness: command to sender failed: " + err.Error()
	}
	doneCh := make(chan struct{})
	go func() { wg.Wait(); close(doneCh) }()
	select {
	case <-doneCh:
	case <-time.After(10 * time.Second):
		return "watchdog: sender callback did not finish"
	}
	return ""
}

func runGrowGated(e *env, id string, s *sender, r *receiver) {
	if !want(id) {
		return
	}
	const n1, n2 = 4, 4
	incon := ""
	fail := func(s string) {
		if incon == "" {
			incon = s
		}
	}
	if !e.disconnect() {
		fail("harness: old connection did not go away")
	}
	joinDelay.Store(0)
	bport := int(e.B.Port)
	gJ := hk.Park("conn.join", func(sub any) bool {
		c, ok := sub.(net.Conn)
		return ok && portOf(c.LocalAddr()) == bport
	}, false).SetMaxWait(700 * time.Millisecond)
	var gF *hk.Gate
	rn := beginRun()
	var c0 counters
	poolAtBurst1, poolAtBurst2 := 0, 0
	overtook := false
	if err := e.connect(false); err != nil {
		fail("harness: connect: " + err.Error())
	}
	if incon == "" && !gJ.WaitArrived(3*time.Second) {
		fail("gate: accepting node never joined the first link")
	}
	if incon == "" {
		bl := liveLinks('B')
		if len(bl) != 1 {
			fail(fmt.Sprintf("harness: expected exactly one accepted link, have %d", len(bl)))
		} else {
			gF = hk.Park("recv.frame", hk.Eq(any(bl[0].conn)), false).SetMaxWait(5 * time.Second)
		}
	}
	if incon == "" {
		c0 = snapCounters()
		poolAtBurst1 = len(liveLinks('A'))
		if poolAtBurst1 != 1 {
			fail(fmt.Sprintf("harness: dialling node has %d links instead of 1 before the first burst", poolAtBurst1))
		}
	}
	if incon == "" {
		fail(sendBurst(e, rn, s, r, 0, n1))
	}
	gJ.Release()
	if incon == "" && !e.waitPool(e.k, 5*time.Second) {
		fail(fmt.Sprintf("watchdog: pool did not grow to %d links", e.k))
	}
	if incon == "" && !gF.WaitArrived(3*time.Second) {
		fail("gate: first frame of the first link never read")
	}
	if incon == "" {
		poolAtBurst2 = len(liveLinks('A'))
		fail(sendBurst(e, rn, s, r, n1, n2))
		// frames of the second burst that took another link are delivered while the first link is held
		overtook = hk.WaitUntil(20*time.Millisecond, func() bool { return rn.recvd.Load() > 0 })
	}
	if gF != nil {
		gF.Release()
	}
	if gJ.TimedOut() || (gF != nil && gF.TimedOut()) {
		fail("gate: released by deadline")
	}
	complete, _, missing := settle(rn, 10*time.Second)
	if !complete {
		fail(fmt.Sprintf("watchdog: %d of %d messages not delivered", missing, rn.sent.Load()))
	}
	lu, _, frames, perLink, _ := spread(c0, 'B')
	exact := frames == rn.sent.Load()
	res := analyse(e, rn, []*receiver{r}, e.k, window{0, epoch.Load()})
	c := res[className(s.res == 0, r.res == 0)]
	cs := hk.Case{ID: id, Scenario: "grow-gated", Events: rn.recvd.Load() + frames}
	cs.Nontrivial = exact && lu >= 2
	cs.Key = fmt.Sprintf("grow-gated/k=%d/links=%d/second-burst-overtook=%v", e.k, min(lu, 2), overtook)
	det := map[string]any{"pool_final": e.k, "pool_at_first_burst": poolAtBurst1, "pool_at_second_burst": poolAtBurst2, "sender": s.pid.String(), "sender_res": s.res,
		"receiver": r.pid.String(), "receiver_res": r.res,
		"frames_per_link": perLink, "attribution_exact": exact, "sent": rn.sent.Load(), "delivered": rn.recvd.Load()}
	switch {
	case c != nil && c.invN > 0:
		cs.Verdict = hk.Violated
		cs.Sig = c.sig()
		cs.Nontrivial = true
		cs.What = fmt.Sprintf("pool grew from 1 to %d links between two bursts of one sender (order %% len(pool) selects the link): the second burst took another link and overtook the first; %s; frames per link in join order %v",
			e.k, e.describe(c.witness[0]), perLink)
		det["inversions"] = c.witness
	case incon != "":
		cs.Verdict = hk.Inconclusive
		cs.What = incon
	default:
		cs.Verdict = hk.Held
	}
	cs.Detail = det
	hk.Emit(cs)
}

// closeLink closes one pooled TCP link (both ends die) and marks both registry entries
func closeLink(l *link) {
	for _, x := range allLinks() {
		if x == l || (x.local == l.remote && x.remote == l.local) {
			x.closedBy.Store(true)
		}
	}
	epoch.Add(1)
	l.conn.Close()
}

// ---------------------------------------------------------------------------

var phaseT = map[string]float64{}

func phase(name string, t0 time.Time) { phaseT[name] += time.Since(t0).Seconds() }

func runPool(k int) {
	defer phase("pool-total", time.Now())
	prefix := fmt.Sprintf("k%d", k)
	if o := hk.Only(); o != "" && !strings.Contains(o, "/"+prefix+"/") {
		return
	}
	tp := time.Now()
	e, err := newEnv(k)
	if err != nil {
		hk.Emit(hk.Case{ID: "setup/" + prefix, Scenario: "setup", Verdict: hk.Inconclusive, What: "harness: " + err.Error()})
		return
	}
	defer func() { t := time.Now(); e.stop(); phase("stop", t) }()
	if err := e.connect(true); err != nil {
		hk.Emit(hk.Case{ID: "setup/" + prefix, Scenario: "setup", Verdict: hk.Inconclusive, What: "harness: " + err.Error()})
		return
	}
	if info, err := e.A.ProcessInfo(e.sA[0].pid); err != nil || !info.KeepNetworkOrder {
		hk.Emit(hk.Case{ID: "setup/" + prefix, Scenario: "setup", Verdict: hk.Inconclusive, What: "harness: sender processes do not run with KeepNetworkOrder enabled"})
		return
	}
	sres := sendersByRes(e.sA)
	rres := receiversByRes(e.rB)
	hk.StatMax("sender_id_residues_mod255_covered", int64(len(sres)))
	hk.StatMax("receiver_id_residues_mod255_covered", int64(len(rres)))

	phase("setup", tp)
	tp = time.Now()
	// pair: every sender residue against an ordinary receiver, every receiver residue against an ordinary sender
	popt := pairOpt{n: 16, stallUS: 300, gate: true}
	for res := 0; res < 255; res++ {
		ss := sres[res]
		if len(ss) == 0 {
			continue
		}
		r := e.rB[(res*7+3)%len(e.rB)]
		if r.res == 0 {
			r = e.rB[(res*7+4)%len(e.rB)]
		}
		runPair(e, fmt.Sprintf("pair/%s/s%d", prefix, res), ss[0], r, 'B', popt)
	}
	for res := 0; res < 255; res++ {
		rs := rres[res]
		if len(rs) == 0 {
			continue
		}
		s := e.sA[(res*5+1)%len(e.sA)]
		if s.res == 0 {
			s = e.sA[(res*5+2)%len(e.sA)]
		}
		runPair(e, fmt.Sprintf("pair/%s/r%d", prefix, res), s, rs[0], 'B', popt)
	}
	if ss, rs := sres[0], rres[0]; len(ss) > 0 && len(rs) > 0 {
		runPair(e, fmt.Sprintf("pair/%s/s0r0", prefix), ss[0], rs[0], 'B', popt)
	}
	// the reverse direction (the accepting node sends): every residue in the thorough tier, every fifth in the quick tier
	sresB := sendersByRes(e.sB)
	rresA := receiversByRes(e.rA)
	step := hk.Pick(5, 1)
	for res := 0; res < 255; res += step {
		if ss := sresB[res]; len(ss) > 0 {
			r := e.rA[(res*7+3)%len(e.rA)]
			if r.res == 0 {
				r = e.rA[(res*7+4)%len(e.rA)]
			}
			runPair(e, fmt.Sprintf("pair/%s/rev-s%d", prefix, res), ss[0], r, 'A', popt)
		}
		if rs := rresA[res]; len(rs) > 0 {
			s := e.sB[(res*5+1)%len(e.sB)]
			if s.res == 0 {
				s = e.sB[(res*5+2)%len(e.sB)]
			}
			runPair(e, fmt.Sprintf("pair/%s/rev-r%d", prefix, res), s, rs[0], 'A', popt)
		}
	}
	if hk.Thorough() {
		// second sender of every residue (ids 255 apart: same residue mod 255, other residue mod 256), longer bursts
		topt := popt
		topt.n = 48
		for res := 0; res < 255; res++ {
			if ss := sres[res]; len(ss) > 1 {
				r := e.rB[(res*17+9)%len(e.rB)]
				runPair(e, fmt.Sprintf("pair/%s/t-s%d", prefix, res), ss[1], r, 'B', topt)
			}
		}
	}
	// the same sweep over the sender residues with the receiver addressed by name
	nopt := popt
	nopt.byName = true
	for res := 0; res < 255; res++ {
		ss := sres[res]
		if len(ss) == 0 {
			continue
		}
		runPair(e, fmt.Sprintf("pair-by-name/%s/s%d", prefix, res), ss[len(ss)-1], e.rB[(res*13+1)%len(e.rB)], 'B', nopt)
	}

	phase("pair", tp)
	tp = time.Now()
	// mass, stable pool
	for i := 0; i < hk.Pick(5, 60); i++ {
		runMass(e, fmt.Sprintf("mass/%s/%d", prefix, i), massOpt{scenario: "mass", n: hk.Pick(24, 60), stress: true, slow: i%2 == 0, reverse: i%3 == 2})
	}
	phase("mass", tp)
	tp = time.Now()
	if k < 2 {
		return
	}

	// grow, gate-directed: ordinary senders (id residue != 0), some whose link index changes
	// between pool size 1 and pool size k (order % k != 0) and some whose index does not
	grng := hk.Rng("c13", "grow-gated", prefix)
	for i := 0; i < hk.Pick(8, 60); i++ {
		res := 1 + grng.Intn(254)
		for res%k == 0 {
			res = 1 + grng.Intn(254)
		}
		if i%4 == 3 {
			res = k * (1 + grng.Intn(254/k)) // order % k == 0: same link before and after
		}
		ss := sres[res]
		if len(ss) == 0 {
			continue
		}
		r := e.rB[(res*11+5)%len(e.rB)]
		if r.res == 0 {
			r = e.rB[(res*11+6)%len(e.rB)]
		}
		runGrowGated(e, fmt.Sprintf("grow-gated/%s/%d", prefix, i), ss[0], r)
	}

	phase("grow-gated", tp)
	tp = time.Now()
	// grow, free running: streams start right after the first link is up
	for i := 0; i < hk.Pick(3, 60); i++ {
		id := fmt.Sprintf("grow/%s/%d", prefix, i)
		rng := hk.Rng("c13", id, "pre")
		// every third run is left alone: no injected delay anywhere, the natural schedule only
		plain := i%3 == 2
		runMass(e, id, massOpt{scenario: "grow", n: hk.Pick(24, 48), stress: !plain, slow: !plain, reverse: true, ordinaryOnly: true, gapEvery: 3, gapUS: 100 + rng.Intn(400),
			pre: func() string {
				if !e.disconnect() {
					return "harness: old connection did not go away"
				}
				if !plain {
					joinDelay.Store(int64(time.Duration(100+rng.Intn(1500)) * time.Microsecond))
				}
				if err := e.connect(false); err != nil {
					return "harness: connect: " + err.Error()
				}
				hk.WaitUntil(time.Second, func() bool { return len(liveLinks('B')) > 0 })
				return ""
			},
			post: func() {
				joinDelay.Store(0)
				e.waitPool(k, 5*time.Second)
			},
			window: func() window { return window{0, epoch.Load()} },
		})
	}

	phase("grow", tp)
	tp = time.Now()
	defer func() { phase("drop", tp) }()
	// drop: single links are closed in the middle of the streams
	for i := 0; i < hk.Pick(3, 60); i++ {
		id := fmt.Sprintf("drop/%s/%d", prefix, i)
		rng := hk.Rng("c13", id, "pre")
		runMass(e, id, massOpt{scenario: "drop", n: hk.Pick(24, 48), stress: true, slow: true, reverse: true, lossy: true, ordinaryOnly: true, gapEvery: 3, gapUS: 100 + rng.Intn(400),
			pre: func() string {
				if !e.disconnect() {
					return "harness: old connection did not go away"
				}
				if err := e.connect(true); err != nil {
					return "harness: connect: " + err.Error()
				}
				return ""
			},
			during: func(rn *run) map[string]any {
				var closed []string
				drops := 1 + rng.Intn(2)
				for d := 0; d < drops; d++ {
					// let a seeded part of the stream pass first (only the position of the drop depends on this)
					part := int64(1000 + rng.Intn(15000))
					base := rn.sent.Load()
					hk.WaitUntil(200*time.Millisecond, func() bool { return rn.sent.Load()-base >= part })
					node := byte('A')
					if rng.Intn(2) == 0 {
						node = 'B'
					}
					ls := liveLinks(node)
					if len(ls) < 2 {
						break
					}
					l := ls[rng.Intn(len(ls))]
					closed = append(closed, fmt.Sprintf("%c-side end of link %s->%s after %d messages", node, l.local, l.remote, rn.sent.Load()))
					closeLink(l)
				}
				return map[string]any{"links_closed": closed}
			},
			post: func() {
				// the dialling node re-dials a lost link (no hook there); the accepting node joins it
				hk.WaitUntil(2*time.Second, func() bool { return len(liveLinks('B')) >= k })
			},
			window: func() window { return changingPool },
		})
	}
}

func main() {
	hk.InstallHook()
	hk.Rule("pairs (sender process, receiver process) on two nodes joined by a pool of k in {1,2,3,5} TCP links; senders and receivers cover every residue of the process id mod 255 and mod 256 (link / receive-queue selector), every fifth sender compresses large messages. pair: one isolated pair per case (every sender residue, every receiver residue, both directions; pair-by-name: receiver addressed by registered name), burst from inside one callback, first message stalls its decode worker, one link parked by a gate; mass: all senders at once under seeded delays at recv.* hooks, a slowed link, random decode stalls and sizes, one case per class of pairs (ordinary, sender id%255==0, receiver id%255==0); grow-gated: pool held at one link by a gate for the first burst, grown to k for the second; grow: streams started while the dialler still adds links (every third run without any injected delay); drop: links closed mid-stream, both directions. Non-trivial iff measured: the frames of the pair were spread over >=2 links or >=2 receive queues (recv.frame / recv.push counters, exact for isolated pairs), or two consecutive messages of a pair were in flight together (logical send/receive clocks) while its decode worker was stalled, links were delayed, or the pool changed. Distinct = scenario x pool size x class of pair x observed spread x injected delays.")
	hk.Assume("both nodes run in one OS process and talk over loopback TCP; link delays are injected at the receive hooks (after a frame has been read), not in the kernel")
	hk.Assume("a message that is never delivered is not an order violation (delivery integrity is C12): the oracle is 'sequence numbers of a pair never decrease at the receiver'")
	if err := edf.RegisterTypeOf(M{}); err != nil {
		fmt.Fprintln(os.Stderr, "register payload:", err)
		os.Exit(3)
	}
	installObservers()
	t0 := time.Now()
	for _, k := range []int{1, 2, 3, 5} {
		runPool(k)
	}
	h, d := hk.PointStats()
	hk.Note("hook_hits", h)
	hk.Note("hook_delays", d)
	hk.Stat("stale_messages_of_earlier_runs", staleMsg.Load())
	hk.Note("wall_seconds", time.Since(t0).Seconds())
	hk.Note("phase_seconds", phaseT)
	os.Stdout.Sync()
	os.Exit(0)
}
