// C13 — network FIFO between a pair of processes.
//
// Two nodes A and B live in this OS process and are connected by a pool of k
// TCP links (k in {1,2,3,5}).  Sender processes (probe actors) send numbered
// messages from inside their own callbacks to receiver processes on the other
// node; every receiver checks that the sequence numbers of every (sender,
// receiver) pair only grow.  The senders and receivers cover every residue of
// the process id mod 255 (and mod 256): the residue of the sender id selects the
// TCP link, the residue of the receiver id selects the receive queue.
//
// Scenario families
//
//	pair   one isolated pair at a time (exact attribution of its frames to links
//	       and receive queues through the recv.frame / recv.push hooks); scripted
//	       payload sizes (small directly followed by > 4 KiB / 64 KiB, ...), first
//	       message stalls its decode worker, one link is parked by a gate
//	pair-ops   Send / Call / SendImportant / SendExit mixed in one stream with one
//	       addressing mode (pid, name or alias)
//	pair-xaddr the addressing mode changes from message to message
//	mass   all senders stream at the same time, seeded delays at the receive hooks,
//	       one link slowed down, random decode stalls and payload sizes
//	grow   the stream starts while the dialling node is still adding links
//	       (gate-directed variant and free-running variant)
//	drop   single links are closed in the middle of the streams (both directions)
package main

import (
	"fmt"
	"math/rand"
	"net"
	"os"
	"sort"
	"strings"
	"sync"
	"time"

	"ergo.services/ergo/net/edf"

	"verif/harness/hk"
)

func want(runID string) bool {
	o := hk.Only()
	return o == "" || o == runID || strings.HasPrefix(o, runID+"#")
}

// ---------------------------------------------------------------------------
// quiescence

// settle waits until every sent message of the run has been delivered.  If that
// does not happen within `full` it falls back to a structural idle test (all
// receive queues empty, no decoder active, no frame and no delivery for a
// while) and reports how many messages are missing.
func settle(rn *run, full time.Duration) (complete bool, idle bool, missing int64) {
	if hk.WaitUntil(full, func() bool { return rn.recvd.Load() >= rn.sent.Load() }) {
		return true, true, 0
	}
	stable := 0
	var lastR, lastF int64 = -1, -1
	idle = hk.WaitUntil(5*time.Second, func() bool {
		r, f := rn.recvd.Load(), hk.Hits("recv.frame")
		if r == lastR && f == lastF && decodeActive.Load() == 0 && queuesEmpty() {
			stable++
		} else {
			stable = 0
		}
		lastR, lastF = r, f
		if stable < 40 {
			time.Sleep(time.Millisecond)
			return false
		}
		return true
	})
	missing = rn.sent.Load() - rn.recvd.Load()
	return missing <= 0, idle, missing
}

// ---------------------------------------------------------------------------
// analysis

type classRes struct {
	name      string
	pairs     int
	msgs      int64
	overlapP  int // pairs with >= 1 in-flight overlap
	overlap1P int // pairs in which the send of m(i+1) began before m(i) was delivered
	exitEarly int
	exitWit   string
	invPairs  int
	invN      int
	dupN      int
	witness   []inversion
	sigs      map[string]int
	residuesS map[int]bool
	residuesR map[int]bool
}

func className(s0, r0 bool) string {
	switch {
	case s0 && r0:
		return "sender0-receiver0"
	case s0:
		return "sender0"
	case r0:
		return "receiver0"
	}
	return "ordinary"
}

// window is the span of pool epochs of a run during which the pool of links was
// (or may have been) changing.  Messages stamped with an epoch < from were sent
// before the first change, messages stamped >= to after the last one.
type window struct{ from, to uint32 }

var (
	stablePool = window{^uint32(0), ^uint32(0)} // no pool change in this run
	// a link was dropped: the accepting node removes the dead link from its pool at a moment
	// no hook reports (when its reader has drained the socket), so the whole run counts as changing
	changingPool = window{0, ^uint32(0)}
)

// sigOf classifies the inversions of one pair.
//   - every inversion involves a message sent while the pool was changing: order % len(pool)
//     picked another link (known finding)
//   - stable pool: by the shape of the inversions (different addressing modes, different
//     operations, large frame after small frame), then by the id residues (order byte 0, fixed
//     in aee47fc), else the FIFO mechanism itself is broken
func sigOf(s0, r0 bool, k int, p *pair, w window) string {
	stable := p.minAfterEp < w.from || p.maxGotEp >= w.to
	switch {
	case !stable:
		return "pool-resize-remap"
	case p.invAddr == p.invN:
		// every inversion is between two messages addressed differently (pid / name / alias)
		return "cross-addressing-reorder"
	case p.invOps > 0 && p.invAddr == 0:
		// same addressing, but a Call / SendImportant and a Send changed places
		return "mixed-ops-reorder"
	case p.invLarge == p.invN:
		// same operation, same addressing: a frame > 4 KiB overtook a smaller one sent before it
		return "large-frame-overtakes-small"
	case r0 && p.invAddr0 == aPID:
		return "order-byte-zero-receiver"
	case s0 && (k > 1 || p.invAddr0 == aName):
		return "order-byte-zero"
	}
	return "fifo-reorder"
}

func analyse(e *env, rn *run, recvs []*receiver, k int, w window) map[string]*classRes {
	out := map[string]*classRes{}
	for _, r := range recvs {
		for _, p := range r.snapshot(rn.id) {
			s := e.all[p.s]
			if s == nil {
				continue
			}
			s0, r0 := s.res == 0, r.res == 0
			cn := className(s0, r0)
			c := out[cn]
			if c == nil {
				c = &classRes{name: cn, sigs: map[string]int{}, residuesS: map[int]bool{}, residuesR: map[int]bool{}}
				out[cn] = c
			}
			c.pairs++
			c.msgs += int64(p.got)
			c.residuesS[s.res] = true
			c.residuesR[r.res] = true
			if p.overlap > 0 {
				c.overlapP++
			}
			c.dupN += p.dupN
			if p.overlap1 > 0 {
				c.overlap1P++
			}
			if p.exitEarly > 0 {
				c.exitEarly += p.exitEarly
				c.exitWit = p.exitWit
				c.sigs["exit-overtakes-messages"]++
			}
			if p.invN > 0 {
				c.invPairs++
				c.invN += p.invN
				c.sigs[sigOf(s0, r0, k, p, w)]++
				if len(c.witness) < 4 {
					c.witness = append(c.witness, p.inv[0])
				}
			}
		}
	}
	return out
}

func (c *classRes) sig() string {
	// the most specific surprise first: a reorder that none of the known causes explains
	for _, s := range []string{"fifo-reorder", "mixed-ops-reorder", "large-frame-overtakes-small", "exit-overtakes-messages", "cross-addressing-reorder",
		"order-byte-zero", "order-byte-zero-receiver", "pool-resize-remap"} {
		if c.sigs[s] > 0 {
			return s
		}
	}
	return ""
}

func (e *env) describe(w inversion) string {
	s := e.all[w.S]
	var rp string
	for _, r := range append(append([]*receiver{}, e.rA...), e.rB...) {
		if r.idx == w.R {
			rp = fmt.Sprintf("%s (id%%255=%d)", r.pid, r.res)
		}
	}
	return fmt.Sprintf("sender %s (id%%255=%d) -> receiver %s: #%d (%s, %d pad bytes, sent at lclock %d, pool epoch %d) was delivered after #%d (%s, %d pad bytes, sent at lclock %d, pool epoch %d)",
		s.pid, s.res, rp, w.Got, w.GotOp, w.GotPad, w.SendTick, w.GotEpoch, w.After, w.AfterOp, w.AfterPad, w.AfterSend, w.AfterEpoch)
}

// ---------------------------------------------------------------------------
// scenario: one isolated pair

// payload sizes of the scripts: small, medium, just above the 4 KiB staging buffer of a link writer, 64 KiB
var padS, padM, padL, padH uint32 = 0, 1500, 6000, 65536

// sizeMotifs returns n payload sizes built from short patterns: small directly followed by
// large, large by small, small-small-large, ...
func sizeMotifs(rng *rand.Rand, n int, hugeProb float64) []uint32 {
	motifs := [][]uint32{{padS, padL}, {padL, padS}, {padS, padS, padL}, {padS, padM}, {padM, padL}, {padL, padL}, {padS, padS}, {padS, padL, padS, padL},
		{padS, padS, padS, padS}, {padM, padS, padL}, {padS}, {padS, padL}}
	var out []uint32
	for len(out) < n {
		m := motifs[rng.Intn(len(motifs))]
		for _, p := range m {
			if p == padL && rng.Float64() < hugeProb {
				p = padH
			} else if p == padL {
				p = 4200 + uint32(rng.Intn(4000))
			} else if p == padM {
				p = 200 + uint32(rng.Intn(3500))
			} else if rng.Intn(3) == 0 {
				p = uint32(rng.Intn(64))
			}
			out = append(out, p)
		}
	}
	return out[:n]
}

// sizesScript: n Sends with one addressing mode, sizes from the motifs, the first message stalls its decode worker
func sizesScript(rng *rand.Rand, n int, addr uint8, stallUS uint32) []step {
	pads := sizeMotifs(rng, n, 0.12)
	sc := make([]step, n)
	for i := range sc {
		sc[i] = step{Kind: kSend, Addr: addr, Pad: pads[i]}
	}
	sc[0].SleepUS = stallUS
	return sc
}

// opsScript: Send / Call / SendImportant mixed, one addressing mode; starts with a stalled Send
// directly followed by a Call; optionally ends with SendExit (pid addressing only)
func opsScript(rng *rand.Rand, n int, addr uint8, stallUS uint32, exitLast bool) []step {
	pads := sizeMotifs(rng, n, 0.05)
	sc := make([]step, n)
	for i := range sc {
		k := uint8(kSend)
		switch x := rng.Intn(100); {
		case x < 30:
			k = kCall
		case x < 42:
			k = kImportant
		}
		sc[i] = step{Kind: k, Addr: addr, Pad: pads[i]}
	}
	sc[0] = step{Kind: kSend, Addr: addr, SleepUS: stallUS}
	sc[1].Kind = kCall
	if exitLast && addr == aPID {
		sc[n-1] = step{Kind: kExit, Addr: aPID}
		sc[n-2].Kind = kSend
	}
	return sc
}

// xaddrScript: Sends (and a few Calls) whose addressing mode changes from message to message
func xaddrScript(rng *rand.Rand, n int, stallUS uint32) []step {
	sc := make([]step, n)
	for i := range sc {
		k := uint8(kSend)
		if rng.Intn(5) == 0 {
			k = kCall
		}
		sc[i] = step{Kind: k, Addr: uint8(rng.Intn(3))}
	}
	sc[0].Kind, sc[0].SleepUS = kSend, stallUS
	if sc[1].Addr == sc[0].Addr {
		sc[1].Addr = (sc[0].Addr + 1) % 3
	}
	return sc
}

type pairOpt struct {
	scen   string // scenario family
	script func(rng *rand.Rand) []step
	gate   bool
}

func runPair(e *env, id string, s *sender, r *receiver, dst byte, o pairOpt) {
	if !want(id) {
		return
	}
	if e.broken {
		e.skipped++
		return
	}
	rng := hk.Rng("c13", id)
	rn := beginRun()
	c0 := snapCounters()
	ls := liveLinks(dst)
	script := o.script(rng)
	n := len(script)
	var g *hk.Gate
	if o.gate && len(ls) > 0 {
		gl := ls[rng.Intn(len(ls))]
		g = hk.Park("recv.frame", hk.Eq(any(gl.conn)), false).SetMaxWait(200 * time.Millisecond)
	}
	var wg sync.WaitGroup
	wg.Add(1)
	cmd := &streamCmd{Run: rn, Targets: []target{{r.pid, r.idx, r.name, r.alias}}, Script: script, Seed: rng.Int63(), Done: &wg}
	incon := ""
	if err := e.node(s.side).Send(s.pid, cmd); err != nil {
		incon = "harness: command to sender failed: " + err.Error()
		wg.Done()
	}
	doneCh := make(chan struct{})
	go func() { wg.Wait(); close(doneCh) }()
	if g != nil {
		// keep the parked link parked for a moment (a blocking Call behind it waits too), then let it go
		hk.WaitUntil(2*time.Millisecond, func() bool {
			return rn.recvd.Load() >= int64(n) || g.ArrivedCount() > 0
		})
		if g.ArrivedCount() > 0 {
			hk.WaitUntil(time.Millisecond, func() bool { return rn.recvd.Load() >= int64(n) })
		}
		g.Release()
	}
	select {
	case <-doneCh:
	case <-time.After(30 * time.Second):
		incon = "watchdog: sender callback did not finish"
	}
	complete, _, missing := settle(rn, 3*time.Second)
	if !complete && incon == "" {
		incon = fmt.Sprintf("watchdog: %d of %d messages not delivered", missing, rn.sent.Load())
	}
	lu, qu, frames, perLink, perQueue := spread(c0, dst)
	res := analyse(e, rn, []*receiver{r}, len(ls), stablePool)
	defer e.noteDelivery(complete)
	s0, r0 := s.res == 0, r.res == 0
	c := res[className(s0, r0)]
	cs := hk.Case{ID: id, Scenario: o.scen, Events: rn.recvd.Load() + frames}
	stalled := script[0].SleepUS > 0
	inflight := c != nil && (c.overlapP > 0 || c.overlap1P > 0)
	kinds, addrs, large := map[uint8]bool{}, map[uint8]bool{}, 0
	smallThenLarge := 0
	for i, st := range script {
		kinds[st.Kind] = true
		addrs[st.Addr] = true
		if st.Pad > 4096 {
			large++
			if i > 0 && script[i-1].Pad < 4000 {
				smallThenLarge++
			}
		}
	}
	// exact attribution needs one frame per message: only Send-only scripts qualify (a Call adds reply frames on the way back only,
	// but an important Send adds an acknowledgement in the other direction; both leave the forward count intact)
	exact := frames == rn.sent.Load()
	spreadSeen := exact && (lu >= 2 || qu >= 2)
	cs.Nontrivial = spreadSeen || (inflight && stalled)
	cs.Key = fmt.Sprintf("%s/k=%d/%s/links=%d/queues=%d/inflight=%v/ops=%d/addr=%d/small-then-large=%v", o.scen, len(ls), className(s0, r0), min(lu, 2), min(qu, 2), inflight,
		len(kinds), len(addrs), smallThenLarge > 0)
	var ops []string
	for _, st := range script {
		ops = append(ops, fmt.Sprintf("%s:%d", opName(uint32(st.Kind)|uint32(st.Addr)<<4), st.Pad))
	}
	det := map[string]any{"pool": len(ls), "sender": s.pid.String(), "sender_res": s.res, "receiver": r.pid.String(), "receiver_res": r.res,
		"sent": rn.sent.Load(), "delivered": rn.recvd.Load(), "frames_per_link": perLink, "pushes_per_queue": perQueue, "attribution_exact": exact,
		"gate_parked_a_link": g != nil && g.ArrivedCount() > 0, "script": strings.Join(ops, " ")}
	switch {
	case c != nil && (c.invN > 0 || c.exitEarly > 0):
		cs.Verdict = hk.Violated
		cs.Sig = c.sig()
		if c.invN > 0 {
			cs.What = fmt.Sprintf("pool of %d links, %d receive queues: %s; %d inversions in a stream of %d operations; frames per link %v, pushes per queue %v",
				len(ls), 4*len(ls), e.describe(c.witness[0]), c.invN, n, perLink, perQueue)
		} else {
			cs.What = fmt.Sprintf("pool of %d links: sender %s -> receiver %s: %s", len(ls), s.pid, r.pid, c.exitWit)
		}
		det["inversions"] = c.witness
		cs.Nontrivial = true
	case incon != "":
		cs.Verdict = hk.Inconclusive
		cs.What = incon
	default:
		cs.Verdict = hk.Held
	}
	if n := rn.sendErr.Load(); n > 0 {
		det["send_errors"] = rn.errs
		if cs.Verdict == hk.Held {
			// an operation that failed (e.g. a Call that timed out) says nothing about order, but the stream is not the scripted one
			cs.Verdict = hk.Inconclusive
			cs.What = fmt.Sprintf("%d operations of the script failed: %v", n, rn.errs)
		}
	}
	cs.Detail = det
	hk.Emit(cs)
}

func min(a, b int) int {
	if a < b {
		return a
	}
	return b
}

// ---------------------------------------------------------------------------
// scenario: everybody streams at once

type massOpt struct {
	scenario string
	n        int
	stress   bool
	slow     bool
	reverse  bool // B -> A streams as well
	gapEvery int
	gapUS    int
	lossy    bool
	scripted bool // per-sender scripts: mixed operations, one addressing mode per sender, size motifs
	// ordinaryOnly leaves out senders and receivers whose id residue is 0: in a run with a
	// changing pool an inversion of such a pair could not be attributed to one cause
	ordinaryOnly bool
	// during, if set, runs concurrently with the streams (pool changes)
	during func(rn *run) map[string]any
	// pre, if set, runs before the streams start and may return an inconclusive reason
	pre func() string
	// post, if set, runs after the streams have settled and before the analysis
	post func()
	// window, if set, returns the span of epochs during which the pool was changing (evaluated after post)
	window func() window
}

func (e *env) massTargets(i int, from byte, ordinaryOnly bool) []target {
	var rs []*receiver
	if from == 'A' {
		rs = e.rB
	} else {
		rs = e.rA
	}
	n := len(rs)
	pick := []int{i % n, (i*37 + 11) % n}
	var ts []target
	seen := map[uint32]bool{}
	for _, x := range pick {
		r := rs[x]
		if r.res == 0 || seen[r.idx] {
			continue
		}
		seen[r.idx] = true
		ts = append(ts, target{r.pid, r.idx, r.name, r.alias})
	}
	// every sender also talks to the first receiver whose id residue is 0
	for _, r := range rs {
		if r.res == 0 && !ordinaryOnly {
			ts = append(ts, target{r.pid, r.idx, r.name, r.alias})
			break
		}
	}
	return ts
}

func runMass(e *env, id string, o massOpt) {
	if !want(id) {
		return
	}
	if e.broken && o.pre == nil {
		e.skipped++
		return
	}
	rng := hk.Rng("c13", id)
	incon := ""
	if o.pre != nil {
		incon = o.pre()
	}
	rn := beginRun()
	ep0 := epoch.Load()
	stalls0 := decodeStalls.Load()
	slow0 := slowHits.Load()
	if o.stress {
		hk.Stress(id, map[string]float64{
			"recv.frame": 0.01, "recv.push": 0.01, "recv.pushed": 0.01, "recv.unlock": 0.05, "recv.recheck": 0.05, "recv.relock": 0.1,
			"send.pick": 0.005,
		}, time.Duration(50+rng.Intn(300))*time.Microsecond)
	}
	if o.slow {
		if ls := liveLinks('B'); len(ls) > 0 {
			slowLink.Store(&slowCfg{conn: ls[rng.Intn(len(ls))].conn, every: int64(100 + rng.Intn(400)), d: time.Duration(200+rng.Intn(1800)) * time.Microsecond})
		}
	}
	var wg sync.WaitGroup
	seed := rng.Int63()
	mk := func(ts []target, idx uint32) *streamCmd {
		c := &streamCmd{Run: rn, Targets: ts, N: o.n, SleepProb: 0.01, SleepMaxUS: 300, PadProb: 0.1, PadMax: 3000,
			GapEvery: o.gapEvery, GapUS: o.gapUS, Seed: seed, Done: &wg}
		if o.scripted {
			// seeded script per sender: one addressing mode (pid / name / alias), mostly Sends with a few Calls and
			// important Sends, payload sizes from the small/large motifs; every other sender writes target by target
			srng := rand.New(rand.NewSource(seed ^ int64(idx)*7919))
			addr := []uint8{aPID, aPID, aPID, aName, aAlias}[idx%5]
			pads := sizeMotifs(srng, o.n, 0.01)
			c.Script = make([]step, o.n)
			for i := range c.Script {
				st := step{Kind: kSend, Addr: addr, Pad: pads[i]}
				switch x := srng.Intn(100); {
				case x < 7:
					st.Kind = kCall
				case x < 10:
					st.Kind = kImportant
				}
				if srng.Intn(100) == 0 {
					st.SleepUS = uint32(1 + srng.Intn(300))
				}
				c.Script[i] = st
			}
			c.TargetMajor = idx%2 == 1
		}
		return c
	}
	started := 0
	if incon == "" {
		for i, s := range e.sA {
			if o.ordinaryOnly && s.res == 0 {
				continue
			}
			wg.Add(1)
			if err := e.A.Send(s.pid, mk(e.massTargets(i, 'A', o.ordinaryOnly), s.idx)); err != nil {
				wg.Done()
				continue
			}
			started++
		}
		if o.reverse {
			for i, s := range e.sB {
				if o.ordinaryOnly && s.res == 0 {
					continue
				}
				wg.Add(1)
				if err := e.B.Send(s.pid, mk(e.massTargets(i, 'B', o.ordinaryOnly), s.idx)); err != nil {
					wg.Done()
					continue
				}
				started++
			}
		}
	}
	var duringDet map[string]any
	if o.during != nil && incon == "" {
		duringDet = o.during(rn)
	}
	doneCh := make(chan struct{})
	go func() { wg.Wait(); close(doneCh) }()
	select {
	case <-doneCh:
	case <-time.After(60 * time.Second):
		incon = "watchdog: sender callbacks did not finish"
	}
	full := 20 * time.Second
	if o.lossy {
		full = 300 * time.Millisecond
	}
	complete, idle, missing := settle(rn, full)
	if o.pre == nil {
		defer e.noteDelivery(complete)
	}
	hk.StressOff()
	slowLink.Store(nil)
	if o.post != nil {
		o.post()
	}
	if !complete {
		if !o.lossy && incon == "" {
			incon = fmt.Sprintf("watchdog: %d of %d messages not delivered", missing, rn.sent.Load())
		} else if !idle && incon == "" {
			incon = "watchdog: no quiescence"
		}
	}
	recvs := append([]*receiver{}, e.rB...)
	if o.reverse {
		recvs = append(recvs, e.rA...)
	}
	k := e.k
	w := stablePool
	if o.window != nil {
		w = o.window()
	}
	res := analyse(e, rn, recvs, k, w)
	poolChanges := int(epoch.Load() - ep0)
	hk.Stat("messages_sent", rn.sent.Load())
	hk.Stat("messages_delivered", rn.recvd.Load())
	if missing > 0 {
		hk.Stat("messages_not_delivered_after_link_drop", missing)
	}
	perturbed := o.stress || o.slow
	names := make([]string, 0, len(res))
	for n := range res {
		names = append(names, n)
	}
	sort.Strings(names)
	for _, n := range names {
		c := res[n]
		cid := id + "#" + n
		cs := hk.Case{ID: cid, Scenario: o.scenario, Events: c.msgs}
		det := map[string]any{"pool": k, "pairs": c.pairs, "messages": c.msgs, "pairs_with_two_messages_in_flight": c.overlapP,
			"sender_residues": len(c.residuesS), "receiver_residues": len(c.residuesR), "pool_changes_during_run": poolChanges,
			"injected_delays": perturbed, "decode_stalls": decodeStalls.Load() - stalls0, "slow_link_delays": slowHits.Load() - slow0, "sent_total": rn.sent.Load(),
			"delivered_total": rn.recvd.Load(), "duplicates": c.dupN}
		for k, v := range duringDet {
			det[k] = v
		}
		if rn.sendErr.Load() > 0 {
			det["send_errors"] = rn.errs
		}
		// non-trivial: the pairs of this class provably had two consecutive messages in flight
		// together, while (a) the class is one whose frames are spread over links/queues, or
		// (b) the pool changed during the run, or (c) more than one link / queue carried the
		// run and delays were injected
		cs.Nontrivial = c.overlapP > 0 && (n != "ordinary" || poolChanges > 0 || perturbed)
		cs.Key = fmt.Sprintf("%s/k=%d/%s/poolchange=%v/inflight=%v/delays=%v", o.scenario, k, n, poolChanges > 0, c.overlapP > 0, perturbed)
		switch {
		case c.invN > 0:
			cs.Verdict = hk.Violated
			cs.Sig = c.sig()
			cs.Nontrivial = true
			cs.What = fmt.Sprintf("pool of %d links: %d of %d pairs of class %s saw %d inversions (causes %v); e.g. %s",
				k, c.invPairs, c.pairs, n, c.invN, c.sigs, e.describe(c.witness[0]))
			det["inversions"] = c.witness
			det["inversion_causes"] = c.sigs
		case incon != "":
			cs.Verdict = hk.Inconclusive
			cs.What = incon
		default:
			cs.Verdict = hk.Held
		}
		cs.Detail = det
		hk.Emit(cs)
	}
	if len(res) == 0 {
		what := incon
		if what == "" {
			what = "harness: no message was delivered"
		}
		hk.Emit(hk.Case{ID: id + "#none", Scenario: o.scenario, Verdict: hk.Inconclusive, What: what, Detail: map[string]any{"started": started, "send_errors": rn.errs}})
	}
}

// ---------------------------------------------------------------------------
// scenario: gate-directed pool growth.  The accepting node is parked at the join
// of the first link, so the dialling node owns a pool of exactly one link while
// the first burst is sent; the first frame of that link is then parked at the
// receiving node, the pool is allowed to grow to k links, and the second burst
// is sent.  If the sender id now selects another link, the second burst arrives
// while the first one is still held.

func sendBurst(e *env, rn *run, s *sender, r *receiver, base uint32, n int) string {
	var wg sync.WaitGroup
	wg.Add(1)
	cmd := &streamCmd{Run: rn, Targets: []target{{r.pid, r.idx, r.name, r.alias}}, Base: base, N: n, Done: &wg}
	if err := e.node(s.side).Send(s.pid, cmd); err != nil {
		return "harness: command to sender failed: " + err.Error()
	}
	doneCh := make(chan struct{})
	go func() { wg.Wait(); close(doneCh) }()
	select {
	case <-doneCh:
	case <-time.After(10 * time.Second):
		return "watchdog: sender callback did not finish"
	}
	return ""
}

func runGrowGated(e *env, id string, s *sender, r *receiver) {
	if !want(id) {
		return
	}
	const n1, n2 = 4, 4
	incon := ""
	fail := func(s string) {
		if incon == "" {
			incon = s
		}
	}
	if !e.disconnect() {
		fail("harness: old connection did not go away")
	}
	joinDelay.Store(0)
	bport := int(e.B.Port)
	gJ := hk.Park("conn.join", func(sub any) bool {
		c, ok := sub.(net.Conn)
		return ok && portOf(c.LocalAddr()) == bport
	}, false).SetMaxWait(700 * time.Millisecond)
	var gF *hk.Gate
	rn := beginRun()
	var c0 counters
	poolAtBurst1, poolAtBurst2 := 0, 0
	overtook := false
	if err := e.connect(false); err != nil {
		fail("harness: connect: " + err.Error())
	}
	if incon == "" && !gJ.WaitArrived(3*time.Second) {
		fail("gate: accepting node never joined the first link")
	}
	if incon == "" {
		bl := liveLinks('B')
		if len(bl) != 1 {
			fail(fmt.Sprintf("harness: expected exactly one accepted link, have %d", len(bl)))
		} else {
			gF = hk.Park("recv.frame", hk.Eq(any(bl[0].conn)), false).SetMaxWait(5 * time.Second)
		}
	}
	if incon == "" {
		c0 = snapCounters()
		poolAtBurst1 = len(liveLinks('A'))
		if poolAtBurst1 != 1 {
			fail(fmt.Sprintf("harness: dialling node has %d links instead of 1 before the first burst", poolAtBurst1))
		}
	}
	if incon == "" {
		fail(sendBurst(e, rn, s, r, 0, n1))
	}
	gJ.Release()
	if incon == "" && !e.waitPool(e.k, 5*time.Second) {
		fail(fmt.Sprintf("watchdog: pool did not grow to %d links", e.k))
	}
	if incon == "" && !gF.WaitArrived(3*time.Second) {
		fail("gate: first frame of the first link never read")
	}
	if incon == "" {
		poolAtBurst2 = len(liveLinks('A'))
		fail(sendBurst(e, rn, s, r, n1, n2))
		// frames of the second burst that took another link are delivered while the first link is held
		overtook = hk.WaitUntil(20*time.Millisecond, func() bool { return rn.recvd.Load() > 0 })
	}
	if gF != nil {
		gF.Release()
	}
	if gJ.TimedOut() || (gF != nil && gF.TimedOut()) {
		fail("gate: released by deadline")
	}
	complete, _, missing := settle(rn, 10*time.Second)
	if !complete {
		fail(fmt.Sprintf("watchdog: %d of %d messages not delivered", missing, rn.sent.Load()))
	}
	lu, _, frames, perLink, _ := spread(c0, 'B')
	exact := frames == rn.sent.Load()
	res := analyse(e, rn, []*receiver{r}, e.k, window{0, epoch.Load()})
	c := res[className(s.res == 0, r.res == 0)]
	cs := hk.Case{ID: id, Scenario: "grow-gated", Events: rn.recvd.Load() + frames}
	cs.Nontrivial = exact && lu >= 2
	cs.Key = fmt.Sprintf("grow-gated/k=%d/links=%d/second-burst-overtook=%v", e.k, min(lu, 2), overtook)
	det := map[string]any{"pool_final": e.k, "pool_at_first_burst": poolAtBurst1, "pool_at_second_burst": poolAtBurst2, "sender": s.pid.String(), "sender_res": s.res,
		"receiver": r.pid.String(), "receiver_res": r.res,
		"frames_per_link": perLink, "attribution_exact": exact, "sent": rn.sent.Load(), "delivered": rn.recvd.Load()}
	switch {
	case c != nil && c.invN > 0:
		cs.Verdict = hk.Violated
		cs.Sig = c.sig()
		cs.Nontrivial = true
		cs.What = fmt.Sprintf("pool grew from 1 to %d links between two bursts of one sender (order %% len(pool) selects the link): the second burst took another link and overtook the first; %s; frames per link in join order %v",
			e.k, e.describe(c.witness[0]), perLink)
		det["inversions"] = c.witness
	case incon != "":
		cs.Verdict = hk.Inconclusive
		cs.What = incon
	default:
		cs.Verdict = hk.Held
	}
	cs.Detail = det
	hk.Emit(cs)
}

// closeLink closes one pooled TCP link (both ends die) and marks both registry entries
func closeLink(l *link) {
	for _, x := range allLinks() {
		if x == l || (x.local == l.remote && x.remote == l.local) {
			x.closedBy.Store(true)
		}
	}
	epoch.Add(1)
	l.conn.Close()
}

// ---------------------------------------------------------------------------

var phaseT = map[string]float64{}

func phase(name string, t0 time.Time) { phaseT[name] += time.Since(t0).Seconds() }

func runPool(k int) {
	defer phase("pool-total", time.Now())
	prefix := fmt.Sprintf("k%d", k)
	if o := hk.Only(); o != "" && !strings.Contains(o, "/"+prefix+"/") {
		return
	}
	tp := time.Now()
	e, err := newEnv(k)
	if err != nil {
		hk.Emit(hk.Case{ID: "setup/" + prefix, Scenario: "setup", Verdict: hk.Inconclusive, What: "harness: " + err.Error()})
		return
	}
	defer func() {
		if e.skipped > 0 {
			hk.Emit(hk.Case{ID: "skipped/" + prefix, Scenario: "setup", Verdict: hk.Inconclusive,
				What:   fmt.Sprintf("the connection kept losing messages on a stable pool (re-dialled %d times): %d stable-pool cases of pool size %d skipped", e.heals, e.skipped, k),
				Detail: map[string]any{"reconnects": e.heals, "skipped": e.skipped}})
		}
		t := time.Now()
		e.stop()
		phase("stop", t)
	}()
	if err := e.connect(true); err != nil {
		hk.Emit(hk.Case{ID: "setup/" + prefix, Scenario: "setup", Verdict: hk.Inconclusive, What: "harness: " + err.Error()})
		return
	}
	if info, err := e.A.ProcessInfo(e.sA[0].pid); err != nil || !info.KeepNetworkOrder {
		hk.Emit(hk.Case{ID: "setup/" + prefix, Scenario: "setup", Verdict: hk.Inconclusive, What: "harness: sender processes do not run with KeepNetworkOrder enabled"})
		return
	}
	sres := sendersByRes(e.sA)
	rres := receiversByRes(e.rB)
	hk.StatMax("sender_id_residues_mod255_covered", int64(len(sres)))
	hk.StatMax("receiver_id_residues_mod255_covered", int64(len(rres)))

	phase("setup", tp)
	tp = time.Now()
	// pair: every sender residue against an ordinary receiver, every receiver residue against an ordinary sender
	popt := pairOpt{scen: "pair", gate: true, script: func(rng *rand.Rand) []step { return sizesScript(rng, 16, aPID, 300) }}
	for res := 0; res < 255; res++ {
		ss := sres[res]
		if len(ss) == 0 {
			continue
		}
		r := e.rB[(res*7+3)%len(e.rB)]
		if r.res == 0 {
			r = e.rB[(res*7+4)%len(e.rB)]
		}
		runPair(e, fmt.Sprintf("pair/%s/s%d", prefix, res), ss[0], r, 'B', popt)
	}
	for res := 0; res < 255; res++ {
		rs := rres[res]
		if len(rs) == 0 {
			continue
		}
		s := e.sA[(res*5+1)%len(e.sA)]
		if s.res == 0 {
			s = e.sA[(res*5+2)%len(e.sA)]
		}
		runPair(e, fmt.Sprintf("pair/%s/r%d", prefix, res), s, rs[0], 'B', popt)
	}
	if ss, rs := sres[0], rres[0]; len(ss) > 0 && len(rs) > 0 {
		runPair(e, fmt.Sprintf("pair/%s/s0r0", prefix), ss[0], rs[0], 'B', popt)
	}
	// the reverse direction (the accepting node sends): every residue in the thorough tier, every fifth in the quick tier
	sresB := sendersByRes(e.sB)
	rresA := receiversByRes(e.rA)
	stride := hk.Pick(5, 1)
	for res := 0; res < 255; res += stride {
		if ss := sresB[res]; len(ss) > 0 {
			r := e.rA[(res*7+3)%len(e.rA)]
			if r.res == 0 {
				r = e.rA[(res*7+4)%len(e.rA)]
			}
			runPair(e, fmt.Sprintf("pair/%s/rev-s%d", prefix, res), ss[0], r, 'A', popt)
		}
		if rs := rresA[res]; len(rs) > 0 {
			s := e.sB[(res*5+1)%len(e.sB)]
			if s.res == 0 {
				s = e.sB[(res*5+2)%len(e.sB)]
			}
			runPair(e, fmt.Sprintf("pair/%s/rev-r%d", prefix, res), s, rs[0], 'A', popt)
		}
	}
	if hk.Thorough() {
		// second sender of every residue (ids 255 apart: same residue mod 255, other residue mod 256), longer bursts
		topt := popt
		topt.script = func(rng *rand.Rand) []step { return sizesScript(rng, 48, aPID, 300) }
		for res := 0; res < 255; res++ {
			if ss := sres[res]; len(ss) > 1 {
				r := e.rB[(res*17+9)%len(e.rB)]
				runPair(e, fmt.Sprintf("pair/%s/t-s%d", prefix, res), ss[1], r, 'B', topt)
			}
		}
	}
	// the same sweep over the sender residues with the receiver addressed by name
	nopt := pairOpt{scen: "pair-by-name", gate: true, script: func(rng *rand.Rand) []step { return sizesScript(rng, 16, aName, 300) }}
	for res := 0; res < 255; res++ {
		ss := sres[res]
		if len(ss) == 0 {
			continue
		}
		runPair(e, fmt.Sprintf("pair-by-name/%s/s%d", prefix, res), ss[len(ss)-1], e.rB[(res*13+1)%len(e.rB)], 'B', nopt)
	}
	// mixed operations of one pair (Send, Call, SendImportant, SendExit last) with one addressing mode per stream:
	// every sender residue (addressing pid / name / alias in turn), every receiver residue (by pid)
	ops := func(addr uint8, exit bool) pairOpt {
		return pairOpt{scen: "pair-ops", gate: true, script: func(rng *rand.Rand) []step { return opsScript(rng, 14, addr, 300, exit) }}
	}
	for res := 0; res < 255; res++ {
		if ss := sres[res]; len(ss) > 0 {
			r := e.rB[(res*19+2)%len(e.rB)]
			runPair(e, fmt.Sprintf("pair-ops/%s/s%d", prefix, res), ss[0], r, 'B', ops(uint8(res%3), res%2 == 0))
		}
		if rs := rres[res]; len(rs) > 0 {
			s := e.sA[(res*23+7)%len(e.sA)]
			runPair(e, fmt.Sprintf("pair-ops/%s/r%d", prefix, res), s, rs[0], 'B', ops(aPID, res%2 == 1))
		}
	}
	// addressing mode changing from message to message within one pair
	xopt := pairOpt{scen: "pair-xaddr", gate: true, script: func(rng *rand.Rand) []step { return xaddrScript(rng, 14, 300) }}
	for i := 0; i < hk.Pick(12, 120); i++ {
		s := e.sA[(i*41+3)%len(e.sA)]
		r := e.rB[(i*29+5)%len(e.rB)]
		runPair(e, fmt.Sprintf("pair-xaddr/%s/%d", prefix, i), s, r, 'B', xopt)
	}

	phase("pair", tp)
	tp = time.Now()
	// mass, stable pool
	for i := 0; i < hk.Pick(5, 40); i++ {
		runMass(e, fmt.Sprintf("mass/%s/%d", prefix, i), massOpt{scenario: "mass", n: hk.Pick(24, 60), stress: true, slow: i%2 == 0, reverse: i%3 == 2, scripted: i%2 == 1})
	}
	phase("mass", tp)
	tp = time.Now()
	if k < 2 {
		return
	}

	// grow, gate-directed: ordinary senders (id residue != 0), some whose link index changes
	// between pool size 1 and pool size k (order % k != 0) and some whose index does not
	grng := hk.Rng("c13", "grow-gated", prefix)
	for i := 0; i < hk.Pick(8, 60); i++ {
		res := 1 + grng.Intn(254)
		for res%k == 0 {
			res = 1 + grng.Intn(254)
		}
		if i%4 == 3 {
			res = k * (1 + grng.Intn(254/k)) // order % k == 0: same link before and after
		}
		ss := sres[res]
		if len(ss) == 0 {
			continue
		}
		r := e.rB[(res*11+5)%len(e.rB)]
		if r.res == 0 {
			r = e.rB[(res*11+6)%len(e.rB)]
		}
		runGrowGated(e, fmt.Sprintf("grow-gated/%s/%d", prefix, i), ss[0], r)
	}

	phase("grow-gated", tp)
	tp = time.Now()
	// grow, free running: streams start right after the first link is up
	for i := 0; i < hk.Pick(3, 40); i++ {
		id := fmt.Sprintf("grow/%s/%d", prefix, i)
		rng := hk.Rng("c13", id, "pre")
		// every third run is left alone: no injected delay anywhere, the natural schedule only
		plain := i%3 == 2
		runMass(e, id, massOpt{scenario: "grow", n: hk.Pick(24, 48), stress: !plain, slow: !plain, reverse: true, ordinaryOnly: true, gapEvery: 3, gapUS: 100 + rng.Intn(400),
			pre: func() string {
				if !e.disconnect() {
					return "harness: old connection did not go away"
				}
				if !plain {
					joinDelay.Store(int64(time.Duration(100+rng.Intn(1500)) * time.Microsecond))
				}
				if err := e.connect(false); err != nil {
					return "harness: connect: " + err.Error()
				}
				hk.WaitUntil(time.Second, func() bool { return len(liveLinks('B')) > 0 })
				return ""
			},
			post: func() {
				joinDelay.Store(0)
				e.waitPool(k, 5*time.Second)
			},
			window: func() window { return window{0, epoch.Load()} },
		})
	}

	phase("grow", tp)
	tp = time.Now()
	defer func() { phase("drop", tp) }()
	// drop: single links are closed in the middle of the streams
	for i := 0; i < hk.Pick(3, 40); i++ {
		id := fmt.Sprintf("drop/%s/%d", prefix, i)
		rng := hk.Rng("c13", id, "pre")
		runMass(e, id, massOpt{scenario: "drop", n: hk.Pick(24, 48), stress: true, slow: true, reverse: true, lossy: true, ordinaryOnly: true, gapEvery: 3, gapUS: 100 + rng.Intn(400),
			pre: func() string {
				if !e.disconnect() {
					return "harness: old connection did not go away"
				}
				if err := e.connect(true); err != nil {
					return "harness: connect: " + err.Error()
				}
				return ""
			},
			during: func(rn *run) map[string]any {
				var closed []string
				drops := 1 + rng.Intn(2)
				for d := 0; d < drops; d++ {
					// let a seeded part of the stream pass first (only the position of the drop depends on this)
					part := int64(1000 + rng.Intn(15000))
					base := rn.sent.Load()
					hk.WaitUntil(200*time.Millisecond, func() bool { return rn.sent.Load()-base >= part })
					node := byte('A')
					if rng.Intn(2) == 0 {
						node = 'B'
					}
					ls := liveLinks(node)
					if len(ls) < 2 {
						break
					}
					l := ls[rng.Intn(len(ls))]
					closed = append(closed, fmt.Sprintf("%c-side end of link %s->%s after %d messages", node, l.local, l.remote, rn.sent.Load()))
					closeLink(l)
				}
				return map[string]any{"links_closed": closed}
			},
			post: func() {
				// the dialling node re-dials a lost link (no hook there); the accepting node joins it
				hk.WaitUntil(2*time.Second, func() bool { return len(liveLinks('B')) >= k })
			},
			window: func() window { return changingPool },
		})
	}
}

func main() {
	hk.InstallHook()
	hk.Rule("pairs (sender process, receiver process) on two nodes joined by a pool of k in {1,2,3,5} TCP links; senders and receivers cover every residue of the process id mod 255 and mod 256 (link / receive-queue selector), every fifth sender compresses large messages. Every stream is a seeded script per pair: payload sizes from motifs (small directly followed by > 4 KiB or 64 KiB, large-small, small-small-large, ...), first message stalls its decode worker. pair / pair-by-name: one isolated pair per case (every sender residue, every receiver residue, both directions; by pid or by registered name), one link parked by a gate; pair-ops: Send, Call (issued from the sender's callback, waits for the reply), SendImportant and a final SendExit mixed in one stream with ONE addressing mode (pid / name / alias), every sender and every receiver residue - the receiver must see one increasing sequence across HandleMessage and HandleCall, and the exit signal may not reach the mailbox before earlier messages; pair-xaddr: the addressing mode changes from message to message; mass: all senders at once under seeded delays at recv.* hooks, a slowed link, random decode stalls, every second run with per-sender scripts (sizes, Calls, important Sends, pid/name/alias per sender, target-major order), one case per class of pairs; grow-gated: pool held at one link by a gate for the first burst, grown to k for the second; grow: streams started while the dialler still adds links (every third run without any injected delay); drop: links closed mid-stream, both directions. Non-trivial iff measured: the frames of the pair were spread over >=2 links or >=2 receive queues (recv.frame / recv.push counters, exact for isolated pairs), or two consecutive messages of a pair were in flight together (logical send/receive clocks) while its decode worker was stalled, links were delayed, or the pool changed. Distinct = scenario x pool size x class of pair x observed spread x operations x addressing modes x small-then-large x injected delays.")
	hk.Assume("both nodes run in one OS process and talk over loopback TCP; link delays are injected at the receive hooks (after a frame has been read), not in the kernel")
	hk.Assume("a message that is never delivered is not an order violation (delivery integrity is C12): the oracle is 'sequence numbers of a pair never decrease at the receiver'")
	if err := edf.RegisterTypeOf(M{}); err != nil {
		fmt.Fprintln(os.Stderr, "register payload:", err)
		os.Exit(3)
	}
	installObservers()
	t0 := time.Now()
	for _, k := range []int{1, 2, 3, 5} {
		if d := os.Getenv("C13_K"); d != "" && d != fmt.Sprint(k) {
			continue // development aid: one pool size only
		}
		runPool(k)
	}
	h, d := hk.PointStats()
	hk.Note("hook_hits", h)
	hk.Note("hook_delays", d)
	hk.Stat("stale_messages_of_earlier_runs", staleMsg.Load())
	hk.Note("wall_seconds", time.Since(t0).Seconds())
	hk.Note("phase_seconds", phaseT)
	os.Stdout.Sync()
	os.Exit(0)
}
