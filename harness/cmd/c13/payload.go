package main

import (
	"encoding/binary"
	"errors"
	"io"
	"sync/atomic"
	"time"
)

// M is the numbered payload. It implements edf.Marshaler / edf.Unmarshaler so
// that the harness controls its wire size (Pad) and can stall the receive
// worker that decodes it (SleepUS): a stalled worker is the situation in which
// a later message of the same pair, had it been put into another receive queue,
// would overtake.
type M struct {
	Case    uint32 // run id
	S       uint32 // sender index
	R       uint32 // receiver index
	N       uint32 // sequence number of the (S,R) pair within the run, from 1
	Tick    int64  // logical clock taken just before Send
	Epoch   uint32 // pool-change epoch (link joins + link drops so far) seen by the sender just before Send
	SleepUS uint32 // the decoder sleeps that long
	Pad     uint32 // extra payload bytes
	Kind    uint32 // operation that carried the message (low nibble: op kind, next nibble: addressing mode)
}

const mHdr = 40

var (
	decodeActive atomic.Int64 // decoders currently inside UnmarshalEDF
	decodeStalls atomic.Int64 // decodes that slept
	zeroPad      = make([]byte, 1<<17)
)

func (m M) MarshalEDF(w io.Writer) error {
	var b [mHdr]byte
	binary.BigEndian.PutUint32(b[0:], m.Case)
	binary.BigEndian.PutUint32(b[4:], m.S)
	binary.BigEndian.PutUint32(b[8:], m.R)
	binary.BigEndian.PutUint32(b[12:], m.N)
	binary.BigEndian.PutUint64(b[16:], uint64(m.Tick))
	binary.BigEndian.PutUint32(b[24:], m.Epoch)
	binary.BigEndian.PutUint32(b[28:], m.SleepUS)
	binary.BigEndian.PutUint32(b[32:], m.Pad)
	binary.BigEndian.PutUint32(b[36:], m.Kind)
	if _, err := w.Write(b[:]); err != nil {
		return err
	}
	for p := int(m.Pad); p > 0; {
		n := p
		if n > len(zeroPad) {
			n = len(zeroPad)
		}
		if _, err := w.Write(zeroPad[:n]); err != nil {
			return err
		}
		p -= n
	}
	return nil
}

func (m *M) UnmarshalEDF(b []byte) error {
	if len(b) < mHdr {
		return errors.New("c13 payload: short")
	}
	m.Case = binary.BigEndian.Uint32(b[0:])
	m.S = binary.BigEndian.Uint32(b[4:])
	m.R = binary.BigEndian.Uint32(b[8:])
	m.N = binary.BigEndian.Uint32(b[12:])
	m.Tick = int64(binary.BigEndian.Uint64(b[16:]))
	m.Epoch = binary.BigEndian.Uint32(b[24:])
	m.SleepUS = binary.BigEndian.Uint32(b[28:])
	m.Pad = binary.BigEndian.Uint32(b[32:])
	m.Kind = binary.BigEndian.Uint32(b[36:])
	if int(m.Pad) != len(b)-mHdr {
		return errors.New("c13 payload: pad length mismatch")
	}
	if m.SleepUS > 0 {
		decodeActive.Add(1)
		decodeStalls.Add(1)
		time.Sleep(time.Duration(m.SleepUS) * time.Microsecond)
		decodeActive.Add(-1)
	}
	return nil
}
