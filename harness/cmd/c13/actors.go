package main

import (
	"fmt"
	"math/rand"
	"sync"
	"sync/atomic"
	"time"

	"ergo.services/ergo/act"
	"ergo.services/ergo/gen"

	"verif/harness/actors"
	"verif/harness/hk"
)

// run is the bookkeeping of one streaming run (one or several decided cases)
type run struct {
	id      uint32
	sent    atomic.Int64 // Send calls that returned nil
	sendErr atomic.Int64 // Send calls that returned an error (message never left)
	recvd   atomic.Int64 // messages of this run that reached a receiver callback
	errMu   sync.Mutex
	errs    map[string]int
}

func (r *run) noteErr(err error) {
	r.sendErr.Add(1)
	r.errMu.Lock()
	if r.errs == nil {
		r.errs = map[string]int{}
	}
	r.errs[err.Error()]++
	r.errMu.Unlock()
}

var (
	curRun   atomic.Pointer[run]
	runSeq   atomic.Uint32
	epoch    atomic.Uint32 // pool-change epoch: +1 at every link join (either side) and every link drop done by the harness
	staleMsg atomic.Int64  // messages of an earlier run that arrived late
)

func beginRun() *run {
	r := &run{id: runSeq.Add(1)}
	curRun.Store(r)
	return r
}

// ---------------------------------------------------------------------------
// receivers

type inversion struct {
	S, R       uint32
	Got        uint32 // sequence number delivered ...
	After      uint32 // ... after this higher (or equal) one
	GotEpoch   uint32 // pool epoch when the overtaken message was sent
	AfterEpoch uint32 // pool epoch when the overtaking message was sent
	SendTick   int64  // send tick of the overtaken message
	AfterSend  int64  // send tick of the overtaking message
	RecvTick   int64  // logical clock when the overtaken message was finally delivered
	GotOp      string // operation and addressing of the overtaken message
	AfterOp    string // ... of the overtaking one
	GotPad     uint32 // payload padding of the overtaken message
	AfterPad   uint32 // ... of the overtaking one
}

// operation kinds and addressing modes of a scripted step
const (
	kSend = iota
	kCall
	kImportant
	kExit
)
const (
	aPID = iota
	aName
	aAlias
)

func opName(kind uint32) string {
	k := []string{"Send", "Call", "SendImportant", "SendExit"}[kind&15]
	a := []string{"pid", "name", "alias"}[(kind>>4)&15]
	return k + "/" + a
}

type pair struct {
	s        uint32
	last     uint32 // highest sequence number delivered so far
	lastEp   uint32
	lastSend int64
	lastKind uint32
	lastPad  uint32
	got      int
	// recv ticks of the two most recently delivered in-order messages (for the in-flight overlap measure)
	rt1, rt2   int64 // rt1: of message `last`, rt2: of message `last-1`
	n1, n2     uint32
	overlap    int // messages m(i+2) whose send began before m(i) was delivered => m(i), m(i+1) were in flight together
	invN       int
	dupN       int
	inv        []inversion
	overlap1   int    // messages m(i+1) whose send began before m(i) was delivered
	invOps     int    // inversions between two different operations (Send / Call / SendImportant)
	invAddr    int    // inversions between two different addressing modes (pid / name / alias)
	invLarge   int    // inversions in which a frame > 4 KiB overtook a smaller one
	exitEarly  int    // exit signals that reached the mailbox before earlier messages of the pair
	exitWit    string //
	invAddr0   uint32 // addressing mode of the first overtaken message
	maxGotEp   uint32 // largest pool epoch of an overtaken message
	minAfterEp uint32 // smallest pool epoch of an overtaking message
}

type receiver struct {
	idx  uint32
	pid  gen.PID
	res  int // pid.ID % 255
	side byte
	name gen.Atom // registered name

	alias gen.Alias // created by the receiver in Init

	mu    sync.Mutex
	cur   uint32
	pairs map[uint32]*pair
}

type recvActor struct {
	act.Actor
	r *receiver
}

func (a *recvActor) Init(args ...any) error {
	a.r.pid = a.PID()
	a.SetTrapExit(true) // an exit signal arrives as a gen.MessageExitPID message instead of terminating the receiver
	return nil
}

// mkAlias asks a receiver to create its alias (not allowed during Init)
type mkAlias struct{ done chan error }

func (a *recvActor) HandleCall(from gen.PID, ref gen.Ref, request any) (any, error) {
	if m, ok := request.(M); ok {
		a.onMsg(m)
	}
	return true, nil
}

func (a *recvActor) HandleMessage(from gen.PID, message any) error {
	switch m := message.(type) {
	case mkAlias:
		al, err := a.CreateAlias()
		a.r.alias = al
		m.done <- err
	case M:
		a.onMsg(m)
	case gen.MessageExitPID:
		a.onExit(m)
	}
	return nil
}

// onExit: the sender put "c13x <run> <sender> <n>" into the reason: the exit signal is the n-th
// operation of the pair. It travels through the urgent mailbox queue, so it may be handled before
// earlier messages are; but when it is handled, every earlier message of the pair must have
// reached the mailbox already: handled so far + waiting in the main queue >= n-1. Only asserted
// for isolated pairs (nobody else writes to this mailbox).
func (a *recvActor) onExit(x gen.MessageExitPID) {
	var c, s, n uint32
	if x.Reason == nil {
		return
	}
	if _, err := fmt.Sscanf(x.Reason.Error(), "c13x %d %d %d", &c, &s, &n); err != nil {
		return
	}
	rn := curRun.Load()
	if rn == nil || c != rn.id {
		staleMsg.Add(1)
		return
	}
	waiting := a.Mailbox().Main.Len()
	r := a.r
	r.mu.Lock()
	if r.cur != c {
		r.cur = c
		r.pairs = map[uint32]*pair{}
	}
	p := r.pairs[s]
	if p == nil {
		p = &pair{s: s, minAfterEp: ^uint32(0)}
		r.pairs[s] = p
	}
	if int64(p.got)+waiting < int64(n-1) {
		p.exitEarly++
		p.exitWit = fmt.Sprintf("exit signal sent as operation #%d of the pair was in the mailbox when only %d earlier messages had been handled and %d were waiting", n, p.got, waiting)
	}
	r.mu.Unlock()
	rn.recvd.Add(1)
}

func (a *recvActor) onMsg(m M) {
	rn := curRun.Load()
	if rn == nil || m.Case != rn.id {
		staleMsg.Add(1)
		return
	}
	t := hk.Tick()
	r := a.r
	r.mu.Lock()
	if r.cur != m.Case {
		r.cur = m.Case
		r.pairs = map[uint32]*pair{}
	}
	p := r.pairs[m.S]
	if p == nil {
		p = &pair{s: m.S, minAfterEp: ^uint32(0)}
		r.pairs[m.S] = p
	}
	p.got++
	switch {
	case m.N > p.last:
		if m.N == p.last+1 && p.n2 == m.N-2 && p.n2 > 0 && m.Tick < p.rt2 {
			// the send of m(N) began before m(N-2) was delivered; m(N-1) had been written
			// before that: m(N-2) and m(N-1) were in flight at the same time
			p.overlap++
		}
		if m.N == p.last+1 && p.n1 == m.N-1 && m.Tick < p.rt1 {
			p.overlap1++
		}
		if m.N == p.last+1 {
			p.n2, p.rt2 = p.n1, p.rt1
		} else {
			p.n2, p.rt2 = 0, 0
		}
		p.n1, p.rt1 = m.N, t
		p.last, p.lastEp, p.lastSend, p.lastKind, p.lastPad = m.N, m.Epoch, m.Tick, m.Kind, m.Pad
	case m.N == p.last:
		p.dupN++
	default:
		p.invN++
		if m.Epoch > p.maxGotEp {
			p.maxGotEp = m.Epoch
		}
		if p.lastEp < p.minAfterEp {
			p.minAfterEp = p.lastEp
		}
		if p.invN == 1 {
			p.invAddr0 = (m.Kind >> 4) & 15
		}
		if m.Kind&15 != p.lastKind&15 {
			p.invOps++
		}
		if (m.Kind>>4)&15 != (p.lastKind>>4)&15 {
			p.invAddr++
		}
		if p.lastPad > 3900 && m.Pad < p.lastPad {
			p.invLarge++
		}
		if len(p.inv) < 3 {
			p.inv = append(p.inv, inversion{S: m.S, R: r.idx, Got: m.N, After: p.last, GotEpoch: m.Epoch, AfterEpoch: p.lastEp,
				SendTick: m.Tick, AfterSend: p.lastSend, RecvTick: t, GotOp: opName(m.Kind), AfterOp: opName(p.lastKind), GotPad: m.Pad, AfterPad: p.lastPad})
		}
	}
	r.mu.Unlock()
	rn.recvd.Add(1)
}

// snapshot returns the pairs of run id
func (r *receiver) snapshot(id uint32) []*pair {
	r.mu.Lock()
	defer r.mu.Unlock()
	if r.cur != id {
		return nil
	}
	out := make([]*pair, 0, len(r.pairs))
	for _, p := range r.pairs {
		c := *p
		out = append(out, &c)
	}
	return out
}

// ---------------------------------------------------------------------------
// senders

type target struct {
	PID   gen.PID
	R     uint32
	Name  gen.Atom
	Alias gen.Alias
}

// step is one scripted operation of a stream
type step struct {
	Kind    uint8 // kSend, kCall, kImportant, kExit
	Addr    uint8 // aPID, aName, aAlias
	Pad     uint32
	SleepUS uint32
}

// streamCmd tells a sender process to send, from inside its own callback, N
// numbered messages to each target (round by round, so that consecutive
// messages of one pair are separated by the sends to the other targets only).
type streamCmd struct {
	Run          *run
	Targets      []target
	Base         uint32 // sequence numbers start at Base+1
	N            int
	SleepFirstUS uint32  // decode stall carried by the first message
	SleepProb    float64 // probability that a later message carries a decode stall
	SleepMaxUS   int
	PadProb      float64
	PadMax       int
	GapEvery     int  // after every GapEvery rounds ...
	GapUS        int  // ... pause that long (stretches the stream over pool changes)
	ByName       bool // address the receivers by registered name (gen.ProcessID) instead of by pid
	// Script, if set, replaces N and the random size / stall options: round i performs Script[i]
	// for every target (operation kind, addressing mode, payload size, decode stall)
	Script []step
	// TargetMajor: all rounds for the first target, then all for the second, ... (consecutive
	// messages of one pair are then written back to back)
	TargetMajor bool
	Seed        int64
	Done        *sync.WaitGroup
}

type sender struct {
	idx  uint32
	pid  gen.PID
	res  int
	side byte
	inst *actors.Inst
}

func (s *sender) hooks() *actors.Hooks {
	return &actors.Hooks{
		Msg: func(p *actors.Probe, from gen.PID, msg any) error {
			c, ok := msg.(*streamCmd)
			if !ok {
				return nil
			}
			defer c.Done.Done()
			rng := rand.New(rand.NewSource(c.Seed*1000003 + int64(s.idx)))
			rounds := c.N
			if c.Script != nil {
				rounds = len(c.Script)
			}
			one := func(round int, t target) {
				m := M{Case: c.Run.id, S: s.idx, R: t.R, N: c.Base + uint32(round) + 1}
				st := step{}
				if c.Script != nil {
					st = c.Script[round]
					m.Pad, m.SleepUS = st.Pad, st.SleepUS
				} else {
					if c.ByName {
						st.Addr = aName
					}
					if round == 0 && c.SleepFirstUS > 0 {
						m.SleepUS = c.SleepFirstUS
					} else if c.SleepProb > 0 && rng.Float64() < c.SleepProb {
						m.SleepUS = uint32(1 + rng.Intn(c.SleepMaxUS))
					}
					if c.PadProb > 0 && rng.Float64() < c.PadProb {
						m.Pad = uint32(rng.Intn(c.PadMax))
					}
				}
				m.Kind = uint32(st.Kind) | uint32(st.Addr)<<4
				var to any = t.PID
				switch st.Addr {
				case aName:
					to = gen.ProcessID{Name: t.Name, Node: t.PID.Node}
				case aAlias:
					to = t.Alias
				}
				m.Epoch = epoch.Load()
				m.Tick = hk.Tick()
				var err error
				switch st.Kind {
				case kCall:
					_, err = p.Call(to, m)
				case kImportant:
					err = p.SendImportant(to, m)
				case kExit:
					err = p.SendExit(t.PID, fmt.Errorf("c13x %d %d %d", m.Case, m.S, m.N))
				default:
					err = p.Send(to, m)
				}
				if err != nil {
					c.Run.noteErr(fmt.Errorf("%s: %w", opName(m.Kind), err))
				} else {
					c.Run.sent.Add(1)
				}
			}
			if c.TargetMajor {
				for _, t := range c.Targets {
					for round := 0; round < rounds; round++ {
						one(round, t)
					}
				}
				return nil
			}
			for round := 0; round < rounds; round++ {
				for _, t := range c.Targets {
					one(round, t)
				}
				if c.GapEvery > 0 && (round+1)%c.GapEvery == 0 && c.GapUS > 0 {
					time.Sleep(time.Duration(c.GapUS) * time.Microsecond)
				}
			}
			return nil
		},
	}
}
