// C16 — hostile input safety of the EDF decoder, the handshake reader and the
// frame parser.
//
// The parent process builds the case lists (functions of seed and tier) and
// runs them in CHILD processes of the same binary (memory-capped with
// RLIMIT_AS, CPU watchdog inside the child, wall watchdog in the parent).
// Every input is logged by the child before it is used; a child that dies
// with a Go panic / fatal error / out of memory is itself the observation, the
// last logged input is the witness.
//
// Targets: edf (edf.Decode with and without caches), hs (handshake
// Start/Accept/Join over an in-memory link with a message mutator in the
// middle), live (a live node reached through an authenticated raw link, plus a
// second legitimate node, canary actors and a node-down monitor).
package main

import (
	"bufio"
	"encoding/hex"
	"encoding/json"
	"fmt"
	"os"
	"os/exec"
	"path/filepath"
	"regexp"
	"sort"
	"strconv"
	"strings"
	"sync"
	"sync/atomic"
	"syscall"
	"time"

	"verif/harness/hk"
)

type job struct {
	name  string
	mode  string
	cases []caseSpec
	memKB uint64
	wall  time.Duration
	procs int // GOMAXPROCS of the child (every OS thread costs 8 MiB of the data-segment cap)
}

type jobResult struct {
	viols  []vrec
	groups []grec
	incon  map[string]string // case id -> reason
	starts int
	cpu    time.Duration
}

var outDir string

// the whole run must end well inside the driver's timeout (timeout_quick 1500 s, timeout_thorough 7200 s)
var runDeadline time.Time

// procCPU: user+system CPU seconds of a process from /proc/<pid>/stat
func procCPU(pid int) float64 {
	b, err := os.ReadFile(fmt.Sprintf("/proc/%d/stat", pid))
	if err != nil {
		return 0
	}
	s := string(b)
	if i := strings.LastIndex(s, ")"); i >= 0 {
		f := strings.Fields(s[i+1:])
		if len(f) > 13 {
			u, _ := strconv.ParseFloat(f[11], 64)
			k, _ := strconv.ParseFloat(f[12], 64)
			return (u + k) / 100
		}
	}
	return 0
}

var jobSeq atomic.Int64
var cpuTotal atomic.Int64

func binPath() string {
	if b := os.Getenv("VERIF_BIN"); b != "" {
		return b
	}
	p, _ := os.Executable()
	return p
}

func lastProgress(path string) (caseIdx, idx, n int, payload string, ok bool) {
	f, err := os.Open(path)
	if err != nil {
		return
	}
	defer f.Close()
	st, _ := f.Stat()
	// the last line is enough; lines can be long (hex), read the last 20 KiB
	off := st.Size() - 20000
	if off < 0 {
		off = 0
	}
	f.Seek(off, 0)
	sc := bufio.NewScanner(f)
	sc.Buffer(make([]byte, 1<<16), 1<<22)
	var last string
	for sc.Scan() {
		if l := sc.Text(); strings.Count(l, "\t") == 3 {
			last = l
		}
	}
	if last == "" {
		return
	}
	p := strings.Split(last, "\t")
	caseIdx, _ = strconv.Atoi(p[0])
	idx, _ = strconv.Atoi(p[1])
	n, _ = strconv.Atoi(p[2])
	payload = p[3]
	ok = true
	return
}

var reFatal = regexp.MustCompile(`(?m)^(panic: .*|fatal error: .*|runtime: out of memory.*|runtime: goroutine stack exceeds.*)$`)

// classifyCrash turns the stderr of a dead child into (signature, description, stack excerpt)
var reOOM = regexp.MustCompile(`cannot allocate (\d+)-byte block \((\d+) in use\)`)

// weakOOM: set by classifyCrash when an out-of-memory death carries no evidence that the allocation
// in progress was itself a large one (the child may have been worn out by earlier inputs)
var reBigSite = regexp.MustCompile(`:reflect\.(New|makemap|MakeSlice|MakeMapWithSize|MakeMap)$|^lib\.Decompress`)

func classifyCrash(stderr string, exit string, inputLen int, memKB uint64) (sig, what, excerpt string) {
	sig, what, excerpt, _ = classifyCrashW(stderr, exit, inputLen, memKB)
	return
}

func classifyCrashW(stderr string, exit string, inputLen int, memKB uint64) (sig, what, excerpt string, weak bool) {
	loc := reFatal.FindStringIndex(stderr)
	for _, envErr := range []string{"pthread_create failed", "failed to create new OS thread", "newosproc", "Resource temporarily unavailable"} {
		if strings.Contains(stderr, envErr) {
			// the operating system refused a thread: says nothing about the code under test
			if memKB > 0 && loc == nil && allocBound(inputLen) <= memKB*1024 {
				// under the data-segment cap a refused thread means the memory was used up: treated like an
				// out-of-memory death at an unknown site, to be confirmed with the input alone
				return "alloc-amplification/unknown-site", "child process could not create a thread under the memory cap (" + envErr + ")", trunc(stderr, 300), true
			}
			return "", "child process could not create a thread (" + envErr + ")", trunc(stderr, 300), false
		}
	}
	if loc == nil {
		// no Go panic / fatal error: killed from outside or an environment problem, not an observation
		return "", "child process died without a Go panic/fatal message (" + exit + "): " + trunc(stderr, 200), trunc(stderr, 1500), false
	}
	msgs := reFatal.FindAllString(stderr, 4)
	rest := stderr[loc[0]:]
	// first goroutine block after the message
	block := rest
	if i := strings.Index(rest, "\ngoroutine "); i >= 0 {
		block = rest[i+1:]
		if j := strings.Index(block, "\n\n"); j >= 0 {
			block = block[:j]
		}
	}
	site := siteOf(blockFrames(block))
	head := strings.Join(msgs, " | ")
	switch {
	case strings.Contains(head, "stack overflow") || strings.Contains(head, "stack exceeds"):
		sig = "crash-stack-overflow/" + site
	case strings.Contains(head, "out of memory") || strings.Contains(head, "cannot allocate memory"):
		sig = friendlySig("alloc-amplification/" + site)
		head += " (at " + site + ")"
		weak = !reBigSite.MatchString(site)
		if m := reOOM.FindStringSubmatch(stderr); m != nil {
			req, _ := strconv.ParseUint(m[1], 10, 64)
			if req >= 32<<20 {
				weak = false
			}
			inuse, _ := strconv.ParseUint(m[2], 10, 64)
			if req+inuse < allocBound(inputLen)+(32<<20) {
				// the memory cap was hit before the call provably exceeded the proportionality bound
				sig = ""
				head += fmt.Sprintf(" [under the bound %d for this input: not counted]", allocBound(inputLen))
			}
		} else if allocBound(inputLen) > memKB*1024 {
			// no numbers in the message: the memory cap itself must be at least the bound of this input
			sig = ""
			head += fmt.Sprintf(" [memory cap %d KiB below the bound %d for this input: not counted]", memKB, allocBound(inputLen))
		}
	case strings.HasPrefix(msgs[0], "panic:"):
		sig = "crash-panic/" + site
		if strings.Contains(site, "proto.(*connection).serve") && strings.Contains(head, "out of range") {
			sig = "frame-length-lt-8-crash"
		}
	default:
		sig = "crash-fatal/" + site
	}
	what = "child process crashed: " + trunc(head, 300)
	excerpt = trunc(rest, 2500)
	return
}

func runJob(j job) jobResult {
	res := jobResult{incon: map[string]string{}}
	seq := jobSeq.Add(1)
	base := filepath.Join(outDir, fmt.Sprintf("job%03d-%s", seq, j.name))
	resume, resumeIdx := 0, 0
	expensive := map[int]int{}
	expensiveIdx := map[int][]int{}
	timeouts := 0
	for attempt := 0; attempt < 600; attempt++ {
		// nothing left in the resume case? (known for cases with a fixed number of inputs)
		for resume < len(j.cases) {
			if n := knownCount(j.cases[resume]); n >= 0 && resumeIdx >= n {
				resume, resumeIdx = resume+1, 0
				continue
			}
			break
		}
		if resume >= len(j.cases) {
			return res
		}
		if time.Now().After(runDeadline) {
			for k := resume; k < len(j.cases); k++ {
				if _, have := res.incon[j.cases[k].ID]; !have {
					res.incon[j.cases[k].ID] = "watchdog: run budget exhausted before this case"
				}
			}
			return res
		}
		sp := childSpec{Mode: j.mode, Cases: j.cases, ResumeCase: resume, ResumeIdx: resumeIdx, ResumeExpensive: expensive[resume], ResumeExpensiveIdx: expensiveIdx[resume], MemKB: j.memKB,
			Progress: fmt.Sprintf("%s.a%d.progress", base, attempt), Result: fmt.Sprintf("%s.a%d.result", base, attempt),
			BlobDir: outDir, Seed: hk.Seed(), Thorough: hk.Thorough()}
		specPath := fmt.Sprintf("%s.a%d.spec.json", base, attempt)
		b, _ := json.Marshal(sp)
		os.Remove(sp.Result)
		os.Remove(sp.Progress)
		os.WriteFile(specPath, b, 0o644)
		stderrPath := fmt.Sprintf("%s.a%d.stderr", base, attempt)
		se, _ := os.Create(stderrPath)
		so, _ := os.Create(fmt.Sprintf("%s.a%d.stdout", base, attempt))
		cmd := exec.Command(binPath())
		cmd.Env = append(os.Environ(), "C16_CHILD_SPEC="+specPath, "GOTRACEBACK=all")
		if j.procs > 0 {
			cmd.Env = append(cmd.Env, fmt.Sprintf("GOMAXPROCS=%d", j.procs))
		}
		cmd.Stdout, cmd.Stderr = so, se
		cmd.SysProcAttr = &syscall.SysProcAttr{Pdeathsig: syscall.SIGKILL}
		res.starts++
		if err := cmd.Start(); err != nil {
			res.incon[j.cases[resume].ID] = "cannot start child: " + err.Error()
			return res
		}
		done := make(chan error, 1)
		go func() { done <- cmd.Wait() }()
		var werr error
		timedOut, stuck := false, false
		var stuckCPU float64
		// per-job wall watchdog, cut down to what is left of the budget of the whole run
		wall := j.wall
		if left := time.Until(runDeadline); left < wall {
			wall = left
		}
		if wall < 5*time.Second {
			wall = 5 * time.Second
		}
		wallC := time.After(wall)
		tick := time.NewTicker(2 * time.Second)
		lastSize, cpuAtProgress := int64(-1), 0.0
	waitChild:
		for {
			select {
			case werr = <-done:
				break waitChild
			case <-wallC:
				timedOut = true
				cmd.Process.Signal(syscall.SIGKILL)
				werr = <-done
				break waitChild
			case <-tick.C:
				// structural witness of a hang outside the child's own per-call CPU watchdog: the child burns CPU
				// (more than 90 s of it) without beginning a new input
				size := int64(0)
				if st, err := os.Stat(sp.Progress); err == nil {
					size = st.Size()
				}
				cpu := procCPU(cmd.Process.Pid)
				if size != lastSize {
					lastSize, cpuAtProgress = size, cpu
				} else if size > 0 && cpu-cpuAtProgress > 90 {
					stuck, stuckCPU = true, cpu-cpuAtProgress
					cmd.Process.Signal(syscall.SIGKILL)
					werr = <-done
					break waitChild
				}
			}
		}
		tick.Stop()
		se.Close()
		so.Close()
		if cmd.ProcessState != nil {
			res.cpu += cmd.ProcessState.UserTime() + cmd.ProcessState.SystemTime()
		}
		v, g, finished := readRecords(sp.Result)
		for _, x := range v {
			if x.Sig != "" {
				res.viols = append(res.viols, x)
			}
		}
		res.groups = append(res.groups, g...)
		if finished {
			os.Remove(sp.Progress)
			os.Remove(specPath)
			os.Remove(stderrPath)
			os.Remove(fmt.Sprintf("%s.a%d.stdout", base, attempt))
			os.Remove(sp.Result)
			return res
		}
		ci, idx, n, payload, ok := lastProgress(sp.Progress)
		os.Remove(sp.Progress) // the last line (the witness) is kept in the violation record
		os.Remove(fmt.Sprintf("%s.a%d.stdout", base, attempt))
		if !ok {
			// died before the first input
			stderr, _ := os.ReadFile(stderrPath)
			res.incon[j.cases[resume].ID] = "child died before using any input: " + trunc(string(stderr), 300)
			return res
		}
		cs := j.cases[ci]
		fatalRecorded := len(v) > 0 && v[len(v)-1].Fatal
		switch {
		case stuck && j.mode == "live":
			hexs := payload
			if strings.HasPrefix(payload, "@") {
				hexs = "(input in file " + payload[1:] + ")"
			}
			res.viols = append(res.viols, vrec{T: "v", Case: cs.ID, Idx: idx, Sig: "node-hang-after-hostile-input", Len: n, Hex: hexs,
				What: fmt.Sprintf("the process that hosts the node consumed %.0f s of CPU time without getting to the next input after input #%d (%d bytes) was written; killed by the parent", stuckCPU, idx, n)})
		case stuck:
			res.incon[cs.ID] = fmt.Sprintf("watchdog: child consumed %.0f s of CPU time outside a monitored call without beginning a new input (input #%d)", stuckCPU, idx)
			timeouts++
		case timedOut:
			res.incon[cs.ID] = fmt.Sprintf("watchdog: child made no end within %v (input #%d)", wall, idx)
			timeouts++
		case fatalRecorded:
			// the child's own CPU watchdog wrote the violation and left
		default:
			stderr, _ := os.ReadFile(stderrPath)
			exit := "exit"
			if werr != nil {
				exit = werr.Error()
			}
			sig, what, excerpt, weak := classifyCrashW(string(stderr), exit, n, j.memKB)
			if sig != "" && weak {
				// out of memory at an ordinary allocation: the input counts only if it does the same to a fresh child
				sig2, what2, excerpt2 := confirmAlone(j, ci, idx, base, attempt)
				res.starts++
				if sig2 == "" || !strings.HasPrefix(sig2, "alloc-") {
					sig = ""
					what += " [not reproduced with this input alone in a fresh child: " + trunc(what2, 120) + "]"
				} else {
					sig, what, excerpt = sig2, what2+" [confirmed alone in a fresh child]", excerpt2
				}
			}
			if sig == "" {
				res.incon[cs.ID] = "child died, not attributable to the input (memory cap hit below the bound of the input, or no Go panic/fatal error): " + trunc(what, 200)
				resume, resumeIdx = ci, idx+1
				continue
			}
			if raw, herr := hex.DecodeString(payload); herr == nil {
				sig = friendlySigFor(sig, raw)
			}
			hexs := payload
			if strings.HasPrefix(payload, "@") {
				hexs = "(input in file " + payload[1:] + ")"
			}
			res.viols = append(res.viols, vrec{T: "v", Case: cs.ID, Idx: idx, Sig: sig, Len: n, Hex: hexs,
				What:   fmt.Sprintf("%s; last input logged before the crash: #%d (%d bytes)", what, idx, n),
				Detail: map[string]any{"stderr": excerpt, "stderr_file": stderrPath}})
		}
		resume, resumeIdx = ci, idx+1
		if timeouts >= 2 || time.Now().After(runDeadline) {
			// do not let a tree that makes every child hang eat the budget of the whole run
			for k := ci; k < len(j.cases); k++ {
				if _, have := res.incon[j.cases[k].ID]; !have && (k > ci || knownCount(j.cases[k]) < 0 || resumeIdx < knownCount(j.cases[k])) {
					res.incon[j.cases[k].ID] = "watchdog: job abandoned after repeated child watchdog expiries / run budget exhausted"
				}
			}
			return res
		}
		if !timedOut {
			expensive[ci]++
			expensiveIdx[ci] = append(expensiveIdx[ci], idx)
		}
	}
	res.incon[j.cases[resume].ID] = "too many child restarts"
	return res
}

// knownCount: number of inputs of a case when the parent can know it, else -1
func knownCount(cs caseSpec) int {
	switch {
	case cs.Only >= 0:
		return cs.Only + 1
	case cs.Target == "edf":
		return edfCaseCount(cs)
	case cs.Class == "frame-len":
		return 1
	case cs.N > 0:
		return cs.N
	}
	return -1
}

// confirmAlone runs one input of a case alone in a fresh child and classifies what happens to that child
func confirmAlone(j job, ci, idx int, base string, attempt int) (sig, what, excerpt string) {
	cs := j.cases[ci]
	cs.Only = idx
	pre := fmt.Sprintf("%s.a%d.confirm", base, attempt)
	sp := childSpec{Mode: j.mode, Cases: []caseSpec{cs}, MemKB: j.memKB, Progress: pre + ".progress", Result: pre + ".result", BlobDir: outDir, Seed: hk.Seed(), Thorough: hk.Thorough()}
	b, _ := json.Marshal(sp)
	os.WriteFile(pre+".spec.json", b, 0o644)
	se, _ := os.Create(pre + ".stderr")
	cmd := exec.Command(binPath())
	cmd.Env = append(os.Environ(), "C16_CHILD_SPEC="+pre+".spec.json", "GOTRACEBACK=all")
	if j.procs > 0 {
		cmd.Env = append(cmd.Env, fmt.Sprintf("GOMAXPROCS=%d", j.procs))
	}
	cmd.Stderr = se
	cmd.SysProcAttr = &syscall.SysProcAttr{Pdeathsig: syscall.SIGKILL}
	if err := cmd.Start(); err != nil {
		return "", "cannot start confirmation child", ""
	}
	done := make(chan error, 1)
	go func() { done <- cmd.Wait() }()
	var werr error
	select {
	case werr = <-done:
	case <-time.After(j.wall):
		cmd.Process.Signal(syscall.SIGKILL)
		<-done
		se.Close()
		return "", "confirmation child: watchdog", ""
	}
	se.Close()
	v, _, finished := readRecords(sp.Result)
	for _, x := range v {
		if x.Sig != "" {
			return x.Sig, x.What, ""
		}
	}
	if finished {
		return "", "the input alone is handled without a violation", ""
	}
	stderr, _ := os.ReadFile(pre + ".stderr")
	exit := "exit"
	if werr != nil {
		exit = werr.Error()
	}
	_, _, n, _, _ := lastProgress(sp.Progress)
	return classifyCrash(string(stderr), exit, n, j.memKB)
}

// parent ------------------------------------------------------------------------------------

type caseAcc struct {
	spec  caseSpec
	g     grec
	incon string
	have  bool
}

// C16_FILTER (development aid, e.g. mutation sanity runs): regular expression over case ids
var caseFilter *regexp.Regexp

func want(id string) bool {
	if caseFilter != nil && !caseFilter.MatchString(id) {
		return false
	}
	o := hk.Only()
	return o == "" || o == id || strings.HasPrefix(o, id+"#")
}

func onlyIdx(id string) int {
	o := hk.Only()
	if strings.HasPrefix(o, id+"#") {
		n, err := strconv.Atoi(o[len(id)+1:])
		if err == nil {
			return n
		}
	}
	return -1
}

func main() {
	if p := os.Getenv("C16_CHILD_SPEC"); p != "" {
		childMain(p)
		return
	}
	outDir = os.Getenv("VERIF_OUT")
	if outDir == "" {
		outDir = "/verif/out/C16"
	}
	// job files of this invocation live in a directory of their own (a replay may run beside a full run)
	outDir = filepath.Join(outDir, fmt.Sprintf("run%d", os.Getpid()))
	os.MkdirAll(outDir, 0o755)
	registerTypes()
	setupEDF()
	if f := os.Getenv("C16_FILTER"); f != "" {
		caseFilter = regexp.MustCompile(f)
	}

	hk.Rule("case = (target, option set, mutation class, corpus item or batch); enumerative classes (truncation at every offset; every 1/2/4-byte window overwritten with boundary values up to 2^32-1; every byte replaced by every EDF type tag) are complete per valid encoding (valid encodings = encoder output for 116 values plus hand-built encodings from a reference encoder of the harness covering the length variants: 15/16 byte times, strings/binaries/atoms/errors at the length-field thresholds, plain and inside slices, []any, maps, structs, arrays), random classes (bit flips, multi-edits, splices, unknown cache ids, random type descriptors with nested arrays/maps/slices, PRNG bytes) are functions of (seed, case id, index); handshake: message k of a real Start/Accept/Join exchange replaced by its mutation; live: recorded valid frames mutated (frame length 0..7 and > max, truncation with fixed-up length, body edits, compression envelopes with false sizes, envelope chains) and written on an authenticated raw link; authenticated Join handshakes naming an unknown / just closed / another peer's live / the own live connection id, followed by valid and hostile frames on the joined socket. A case is non-trivial iff at least one of its inputs was parsed past the first field (decode succeeded, or failed with an error class other than unknown-type/empty input; handshake: the mutated message was read by the peer under test; live: the frame reached the receive queue handler or the length check of the reader). Distinct = target x class x most frequent non-trivial outcome class.")
	hk.Assume("out of proportion = more than 64 MiB + 4096 x input bytes of cumulative heap allocation during the call (runtime/metrics /gc/heap/allocs:bytes), or the child dying of out-of-memory under RLIMIT_AS; hanging = more than 30 s of process CPU time inside one call (rusage)")
	hk.Assume("inputs that begin with a type descriptor whose array lengths multiply to more than 64 MiB of element storage (a static property of the input bytes) are executed only 2 times per case, the rest is counted as skipped: on a tree that allocates by the declared array length each of them costs a child process")
	hk.Assume("a case stops executing inputs after 3 expensive violations (5 for the enumerative classes, where only the inputs that modify the same bytes as an expensive input are skipped) (child crash, CPU hang, allocation out of proportion: each costs a child process or seconds of page zeroing); the remaining inputs of that case are counted as not executed. Without such violations every input is executed")
	hk.Assume("a panic recovered inside edf.Decode / the receive queue handler and turned into an error / a closed connection satisfies the property; such recoveries are counted, not reported")
	hk.Assume("value equality after re-encoding: same dynamic type and content, floats by bits, errors by text, nil and empty containers not distinguished, time.Time by instant and zone offset")

	var jobs []job
	jobs = append(jobs, edfJobs()...)
	jobs = append(jobs, hsJobs()...)
	jobs = append(jobs, liveJobs()...)

	if os.Getenv("C16_PLAN") != "" {
		plan := map[string]int{}
		for _, j := range jobs {
			for _, c := range j.cases {
				if c.Target == "edf" {
					q, _ := enumStride(c)
					plan[c.Target+"/"+c.Opt+"/"+c.Class] += edfCaseCount(c) / q
				}
			}
		}
		tot := 0
		for _, k := range sortedKeys(plan) {
			fmt.Fprintln(os.Stderr, k, plan[k])
			tot += plan[k]
		}
		nb := 0
		for _, o := range optsets {
			for _, it := range corpora[o.name] {
				nb += len(it.enc)
			}
			fmt.Fprintln(os.Stderr, o.name, "items", len(corpora[o.name]), "bytes so far", nb)
		}
		fmt.Fprintln(os.Stderr, "total", tot)
		return
	}
	workers := 6
	acc := map[string]*caseAcc{}
	var order []string
	for _, j := range jobs {
		for _, c := range j.cases {
			acc[c.ID] = &caseAcc{spec: c}
			order = append(order, c.ID)
		}
	}
	var mu sync.Mutex
	var allViols []vrec
	var starts int64
	ch := make(chan job)
	var wg sync.WaitGroup
	for w := 0; w < workers; w++ {
		wg.Add(1)
		go func() {
			defer wg.Done()
			for j := range ch {
				tj := time.Now()
				r := runJob(j)
				fmt.Fprintf(os.Stderr, "job %s: %d cases, %d child starts, %d violations, wall %.1fs cpu %.1fs\n", j.name, len(j.cases), r.starts, len(r.viols), time.Since(tj).Seconds(), r.cpu.Seconds())
				cpuTotal.Add(int64(r.cpu))
				mu.Lock()
				allViols = append(allViols, r.viols...)
				starts += int64(r.starts)
				for _, g := range r.groups {
					a := acc[g.Case]
					if a == nil {
						continue
					}
					if g.Outcomes == nil {
						g.Outcomes = map[string]int64{}
					}
					if g.Extra == nil {
						g.Extra = map[string]int64{}
					}
					if !a.have {
						a.g, a.have = g, true
						continue
					}
					a.g.N += g.N
					a.g.Events += g.Events
					a.g.Nontrivial += g.Nontrivial
					for k, v := range g.Outcomes {
						a.g.Outcomes[k] += v
					}
					for k, v := range g.Extra {
						if strings.HasPrefix(k, "max_") {
							a.g.Extra[k] = max64(a.g.Extra[k], v)
						} else {
							a.g.Extra[k] += v
						}
					}
				}
				for _, g := range r.groups {
					if a := acc[g.Case]; a != nil {
						if g.Incon != "" {
							a.incon = g.Incon
						} else if g.Extra["watchdog"] > 0 && a.incon == "" {
							a.incon = fmt.Sprintf("watchdog expired for %d input(s) of this case", g.Extra["watchdog"])
						}
					}
				}
				for id, why := range r.incon {
					if a := acc[id]; a != nil {
						a.incon = why
					}
				}
				mu.Unlock()
			}
		}()
	}
	t0 := time.Now()
	runDeadline = t0.Add(time.Duration(hk.Pick(1150, 5400)) * time.Second)
	for _, j := range jobs {
		ch <- j
	}
	close(ch)
	wg.Wait()

	// emit: violations first (bounded per signature), then one case per case spec
	sort.SliceStable(allViols, func(i, k int) bool {
		// records that carry their witness first
		if (allViols[i].Hex != "") != (allViols[k].Hex != "") {
			return allViols[i].Hex != ""
		}
		if allViols[i].Case != allViols[k].Case {
			return allViols[i].Case < allViols[k].Case
		}
		return allViols[i].Idx < allViols[k].Idx
	})
	perSig := map[string]int{}
	violByCase := map[string]int{}
	for _, v := range allViols {
		violByCase[v.Case]++
		perSig[v.Sig]++
		if perSig[v.Sig] > 6 || v.Hex == "" && perSig[v.Sig] > 1 {
			continue
		}
		a := acc[v.Case]
		scen := "?"
		if a != nil {
			scen = a.spec.Target + "/" + a.spec.Class
		}
		hk.Emit(hk.Case{ID: fmt.Sprintf("%s#%d", v.Case, v.Idx), Scenario: scen, Verdict: hk.Violated, Sig: v.Sig, What: v.What,
			Key: scen + "/" + v.Sig, Nontrivial: true, Events: 1,
			Detail: map[string]any{"input_hex": v.Hex, "input_len": v.Len, "more": v.Detail}})
	}
	for s, n := range perSig {
		hk.Stat("violating_inputs/"+s, int64(n))
	}
	outcomeTotals := map[string]int64{}
	var recovered, maxAlloc, skippedBombs, notExecuted, handRejected int64
	for _, id := range order {
		a := acc[id]
		c := hk.Case{ID: id, Scenario: a.spec.Target + "/" + a.spec.Class, Events: a.g.Events}
		nt := map[string]int64{}
		for k, v := range a.g.Outcomes {
			outcomeTotals[a.spec.Target+": "+k] += v
			if !isTrivialOutcome(a.spec.Target, k) {
				nt[k] = v
			}
		}
		top := topKeys(nt, 1)
		c.Key = a.spec.Target + "/" + a.spec.Class
		if len(top) > 0 {
			c.Key += "/" + top[0]
		}
		c.Nontrivial = a.g.Nontrivial > 0
		recovered += a.g.Extra["recovered_panics"]
		for k, v := range a.g.Extra {
			if strings.HasPrefix(k, "recorded_frames/") {
				hk.StatMax(k, v)
			}
		}
		skippedBombs += a.g.Extra["skipped_predicted_alloc_bombs"]
		handRejected += a.g.Extra["hand_built_valid_encodings_rejected"]
		notExecuted += a.g.Extra["not_executed_after_expensive_budget"]
		maxAlloc = max64(maxAlloc, a.g.Extra["max_alloc_per_call"])
		c.Detail = map[string]any{"inputs": a.g.N, "nontrivial_inputs": a.g.Nontrivial, "outcomes": topN(a.g.Outcomes, 8), "sample": a.g.Sample, "violating_inputs": violByCase[id]}
		if a.g.N == 0 && violByCase[id] > 0 && a.incon == "" {
			continue // every input of this case is reported as a violation case of its own
		}
		switch {
		case a.incon != "" && a.g.N == 0 && a.have == false:
			c.Verdict = hk.Inconclusive
			c.What = a.incon
		case !a.have && violByCase[id] == 0:
			c.Verdict = hk.Inconclusive
			c.What = "no result from the child"
			if a.incon != "" {
				c.What = a.incon
			}
		default:
			c.Verdict = hk.Held // the violating inputs of this case are reported as cases of their own
			if a.incon != "" {
				c.Verdict = hk.Inconclusive
				c.What = a.incon
			}
		}
		hk.Emit(c)
	}
	keys := topKeysAll(outcomeTotals, 70)
	for _, k := range keys {
		hk.Stat("outcome/"+k, outcomeTotals[k])
	}
	hk.Stat("child_process_starts", starts)
	hk.Stat("hand_built_valid_encodings_rejected_by_decode", handRejected)
	hk.Stat("inputs_not_executed_because_of_expensive_violations_in_their_case", notExecuted)
	hk.Stat("inputs_skipped_as_predicted_alloc_bombs_beyond_2_per_case", skippedBombs)
	hk.Stat("panics_recovered_inside_decode", recovered)
	hk.StatMax("max_alloc_bytes_in_one_decode_call_without_violation_or_with", maxAlloc)
	hk.Note("children_wall_s", time.Since(t0).Seconds())
	hk.Note("children_cpu_s", time.Duration(cpuTotal.Load()).Seconds())
	os.Stdout.Sync()
	os.Exit(0)
}

func isTrivialOutcome(target, k string) bool {
	if target == "edf" {
		return isTrivialClass(k, 100)
	}
	return strings.HasPrefix(k, "trivial")
}

func topN(m map[string]int64, n int) map[string]int64 {
	r := map[string]int64{}
	for _, k := range topKeys(m, n) {
		r[k] = m[k]
	}
	return r
}

func topKeysAll(m map[string]int64, n int) []string { return topKeys(m, n) }

// EDF job list -----------------------------------------------------------------------------------

func edfJobs() []job {
	var jobs []job
	const mem = 1536 << 10    // KiB: directed cases: 1.5 GiB of address space (RLIMIT_AS) on top of what the child has mapped at start
	const memBulk = 640 << 10 // KiB: bulk cases (inputs below 1 KiB, bound about 68 MiB)
	wall := time.Duration(hk.Pick(420, 1200)) * time.Second
	// directed suspicions, one child each (some of them end the child)
	thoroughOnly := map[string]bool{"array-of-empty-struct-nested": true, "array-typedesc-1g-uint64": true, "regmap-count-2^28": true}
	for i, d := range directedEDF() {
		if thoroughOnly[d.name] && !hk.Thorough() {
			continue
		}
		for _, o := range []string{"plain"} {
			id := fmt.Sprintf("edf/%s/directed/%s", o, d.name)
			if !want(id) {
				continue
			}
			jobs = append(jobs, job{name: "edf-directed-" + d.name, mode: "edf", memKB: mem, wall: wall, procs: 2,
				cases: []caseSpec{{ID: id, Target: "edf", Opt: o, Class: "directed", Item: i, Only: -1, MaxStackMB: maxStackFor(d.name)}}})
		}
	}
	var cases []caseSpec
	for _, o := range optsets {
		for it := range corpora[o.name] {
			for _, cl := range []string{"trunc", "inflate", "tagswap"} {
				id := fmt.Sprintf("edf/%s/%s/item%03d", o.name, cl, it)
				if want(id) {
					cases = append(cases, caseSpec{ID: id, Target: "edf", Opt: o.name, Class: cl, Item: it, Only: onlyIdx(id)})
				}
			}
		}
		if id := fmt.Sprintf("edf/%s/valid/hand-built", o.name); want(id) {
			cases = append(cases, caseSpec{ID: id, Target: "edf", Opt: o.name, Class: "valid", Only: onlyIdx(id)})
		}
		type rc struct {
			class   string
			batches int
			n       int
		}
		m := hk.Pick(1, 10)
		for _, r := range []rc{{"bitflip", 5 * m, 1000}, {"edits", 8 * m, 1000}, {"splice", 3 * m, 1000}, {"cacheid", 3 * m, 1000}, {"prng", 1 * m, 1000},
			{"prngtags", 5 * m, 1000}, {"typedesc", 6 * m, 1000}, {"typedesc-big", m, 40}, {"anywrap", 3 * m, 1000}} {
			for b := 0; b < r.batches; b++ {
				id := fmt.Sprintf("edf/%s/%s/b%03d", o.name, r.class, b)
				if want(id) {
					cases = append(cases, caseSpec{ID: id, Target: "edf", Opt: o.name, Class: r.class, N: r.n, Only: onlyIdx(id)})
				}
			}
		}
	}
	// spread over children: round robin so that the heavy items are not all in one job
	nj := 18
	if len(cases) < nj {
		nj = len(cases)
	}
	for k := 0; k < nj; k++ {
		var cs []caseSpec
		for i := k; i < len(cases); i += nj {
			cs = append(cs, cases[i])
		}
		jobs = append(jobs, job{name: fmt.Sprintf("edf-%02d", k), mode: "edf", memKB: memBulk, wall: wall, cases: cs, procs: 2})
	}
	return jobs
}

func maxStackFor(name string) int {
	if strings.Contains(name, "maxstack64m") {
		return 64
	}
	return 0
}
