package main

// Target 2: the handshake reader. A real Start/Join runs against a real Accept
// over an in-memory link; a mutator in the middle replaces one message of the
// exchange by its mutation (or a scripted peer writes raw hostile bytes). The
// link reports "both ends wait for input" immediately as a read timeout, so no
// case waits for the 1 s read deadline of the handshake.

import (
	"encoding/binary"
	"fmt"
	"io"
	"math/rand"
	"net"
	"os"
	"strings"
	"sync"
	"time"

	"ergo.services/ergo/gen"
	"ergo.services/ergo/net/handshake"

	"verif/harness/hk"
)

// quiescence-detecting in-memory link -----------------------------------------------------

type qnet struct {
	mu     sync.Mutex
	cond   *sync.Cond
	ends   [2]*qend
	mutate func(dir, seq int, msg []byte) []byte
}

type qend struct {
	n       *qnet
	idx     int
	inbox   []byte
	closed  bool
	done    bool
	blocked bool
	writes  int
	nread   int
}

type qaddr string

func (a qaddr) Network() string { return "c16" }
func (a qaddr) String() string  { return string(a) }

func newQnet(mut func(dir, seq int, msg []byte) []byte) *qnet {
	n := &qnet{mutate: mut}
	n.cond = sync.NewCond(&n.mu)
	n.ends[0] = &qend{n: n, idx: 0}
	n.ends[1] = &qend{n: n, idx: 1}
	return n
}

type timeoutErr struct{}

func (timeoutErr) Error() string   { return "i/o timeout (both ends wait for input)" }
func (timeoutErr) Timeout() bool   { return true }
func (timeoutErr) Temporary() bool { return true }

func (e *qend) peer() *qend { return e.n.ends[1-e.idx] }

func (e *qend) Read(p []byte) (int, error) {
	n := e.n
	n.mu.Lock()
	defer n.mu.Unlock()
	for len(e.inbox) == 0 {
		if e.closed {
			return 0, io.ErrClosedPipe
		}
		pe := e.peer()
		if pe.done || pe.closed {
			return 0, io.EOF
		}
		if pe.blocked {
			// nobody will ever write: what a read deadline would report
			return 0, timeoutErr{}
		}
		e.blocked = true
		n.cond.Wait()
		e.blocked = false
	}
	c := copy(p, e.inbox)
	e.inbox = e.inbox[c:]
	e.nread += c
	return c, nil
}

func (e *qend) Write(p []byte) (int, error) {
	n := e.n
	n.mu.Lock()
	defer n.mu.Unlock()
	if e.closed {
		return 0, io.ErrClosedPipe
	}
	pe := e.peer()
	if pe.closed || pe.done {
		return 0, io.ErrClosedPipe
	}
	msg := append([]byte{}, p...)
	seq := e.writes
	e.writes++
	if n.mutate != nil {
		msg = n.mutate(e.idx, seq, msg)
	}
	pe.inbox = append(pe.inbox, msg...)
	if len(msg) > 0 {
		pe.blocked = false
	}
	n.cond.Broadcast()
	return len(p), nil
}

func (e *qend) Close() error {
	e.n.mu.Lock()
	e.closed = true
	e.n.cond.Broadcast()
	e.n.mu.Unlock()
	return nil
}

func (e *qend) finish() {
	e.n.mu.Lock()
	e.done = true
	e.n.cond.Broadcast()
	e.n.mu.Unlock()
}

func (e *qend) LocalAddr() net.Addr                { return qaddr(fmt.Sprintf("127.0.0.1:%d", 10000+e.idx)) }
func (e *qend) RemoteAddr() net.Addr               { return qaddr(fmt.Sprintf("127.0.0.1:%d", 10001-e.idx)) }
func (e *qend) SetDeadline(t time.Time) error      { return nil }
func (e *qend) SetReadDeadline(t time.Time) error  { return nil }
func (e *qend) SetWriteDeadline(t time.Time) error { return nil }

// stub node identity ------------------------------------------------------------------------

type stubNode struct {
	name     gen.Atom
	creation int64
}

func (s stubNode) Name() gen.Atom  { return s.name }
func (s stubNode) Creation() int64 { return s.creation }
func (s stubNode) Version() gen.Version {
	return gen.Version{Name: "c16stub", Release: "1", License: gen.LicenseMIT}
}

var hsOpts = gen.HandshakeOptions{Cookie: "c16-cookie", Flags: gen.NetworkFlags{Enable: true, EnableRemoteSpawn: true, EnableImportantDelivery: true}}

// flows ----------------------------------------------------------------------------------------

// message slots of the exchanges: (direction, sequence number in that direction)
type slot struct {
	flow string // start | join
	dir  int    // 0: dialing side -> accepting side
	seq  int
	name string
}

var hsSlots = []slot{
	{"start", 0, 0, "hello"}, {"start", 1, 0, "hello-reply"}, {"start", 0, 1, "introduce"}, {"start", 1, 1, "accept"}, {"start", 1, 2, "introduce-reply"}, {"start", 0, 2, "accept-final"},
	{"join", 0, 0, "join"}, {"join", 1, 0, "join-accept"},
}

// message-level mutation classes
func hsMutate(class string, rng *rand.Rand, msg []byte) []byte {
	switch class {
	case "trunc":
		return cp(msg[:rng.Intn(len(msg))])
	case "trunc-fixlen":
		k := 6 + rng.Intn(len(msg)-5)
		if k > len(msg) {
			k = len(msg)
		}
		b := cp(msg[:k])
		binary.BigEndian.PutUint32(b[2:6], uint32(k-6))
		return b
	case "head":
		return cp(msg[:rng.Intn(40)%len(msg)])
	case "inflate":
		b := cp(msg)
		o := rng.Intn(len(b))
		if rng.Intn(3) == 0 {
			o = rng.Intn(64) % len(b)
		}
		switch rng.Intn(3) {
		case 0:
			b[o] = byte(inflate1[rng.Intn(len(inflate1))])
		case 1:
			if o+2 <= len(b) {
				binary.BigEndian.PutUint16(b[o:], uint16(inflate2[rng.Intn(len(inflate2))]))
			}
		default:
			if o+4 <= len(b) {
				binary.BigEndian.PutUint32(b[o:], uint32(inflate4[rng.Intn(len(inflate4))]))
			}
		}
		return b
	case "tagswap":
		b := cp(msg)
		o := 6 + rng.Intn(len(b)-6)
		if rng.Intn(3) == 0 {
			o = 6 + rng.Intn(48)%(len(b)-6)
		}
		b[o] = edfTags[rng.Intn(len(edfTags))]
		return b
	case "header":
		b := cp(msg)
		vals := []uint32{0, 1, 5, 6, uint32(len(msg) - 7), uint32(len(msg) - 5), 65535, 65536, 1 << 31, 0xffffffff}
		switch rng.Intn(4) {
		case 0:
			b[0] = byte(rng.Intn(256))
		case 1:
			b[1] = byte(rng.Intn(4))
		default:
			binary.BigEndian.PutUint32(b[2:6], vals[rng.Intn(len(vals))])
		}
		return b
	case "edits":
		b := cp(msg)
		for i := 0; i < 1+rng.Intn(3); i++ {
			b = randEdit(rng, b)
		}
		return b
	case "bitflip":
		b := cp(msg)
		b[rng.Intn(len(b))] ^= 1 << uint(rng.Intn(8))
		return b
	case "payload":
		// keep the header, replace the EDF payload by a hostile one
		var pl []byte
		switch rng.Intn(4) {
		case 0:
			fold := randFold(rng, 1+rng.Intn(5), false)
			budget := 30
			pl = append(withTypeHeader(fold), randDataFor(rng, fold, &budget)...)
		case 1:
			pl = randBytes(rng, rng.Intn(64))
		case 2:
			pl = randomInput("prngtags", rng, nil)
		default:
			c := corpora["plain"]
			pl = cp(c[rng.Intn(len(c))].enc)
		}
		b := append(cp(msg[:6]), pl...)
		binary.BigEndian.PutUint32(b[2:6], uint32(len(pl)))
		return b
	case "payload-directed":
		d := directedHS()
		pl := d[rng.Intn(len(d))]
		b := append(cp(msg[:6]), pl...)
		binary.BigEndian.PutUint32(b[2:6], uint32(len(pl)))
		return b
	}
	return msg
}

// hostile payloads that are cheap when they are handled well
func directedHS() [][]byte {
	return [][]byte{
		{141, 0xff, 0xfe, 'a', 'b'},
		cat([]byte{142}, be32(0xffffffff), []byte{1, 2, 3, 4, 5}),
		cat([]byte{130, 0, 3, 159, 141, 150, 159}, be32(0xffffffff), []byte{0, 1, 'a'}),
		cat([]byte{130, 0, 2, 157, 150, 157}, be32(0xffffffff), []byte{0, 1, 'a'}),
		cat(regName("#ergo.services/ergo/net/handshake/MessageIntroduce"), []byte{0, 1, 'x'}),
		cat(regName("#ergo.services/ergo/net/handshake/MessageHello"), []byte{0xff, 0xff}),
		cat(regName("#ergo.services/ergo/net/handshake/MessageAccept"), []byte{0, 1, 'i', 0, 0, 0, 0, 0, 0, 0, 1, 157}, be32(0x7fffffff)),
		append(append([]byte{}, make([]byte, 0)...), append(repeatByte(132, 3000), 145, 1)...),
	}
}

func repeatByte(b byte, n int) []byte {
	r := make([]byte, n)
	for i := range r {
		r[i] = b
	}
	return r
}

type hsResult struct {
	errC, errS   error
	panicC       any
	panicS       any
	delivered    bool
	mutated      []byte
	original     []byte
	watchdog     bool
	targetIsSrv  bool
	allocd       uint64
	readByTarget int
}

// runExchange runs one handshake exchange with message (dir,seq) replaced by mut(message)
func runExchange(flow string, dir, seq int, mut func(msg []byte) []byte, logf func(orig, m []byte)) hsResult {
	var res hsResult
	res.targetIsSrv = dir == 0
	qn := newQnet(nil)
	qn.mutate = func(d, s int, msg []byte) []byte {
		if d == dir && s == seq {
			res.original = msg
			m := mut(msg)
			res.mutated = m
			res.delivered = true
			logf(msg, m)
			return m
		}
		return msg
	}
	hsC := handshake.Create(handshake.Options{PoolSize: 2})
	hsS := handshake.Create(handshake.Options{PoolSize: 2})
	nodeC := stubNode{name: "c16client@localhost", creation: 1111}
	nodeS := stubNode{name: "c16server@localhost", creation: 2222}
	var wg sync.WaitGroup
	a0 := totalAlloc()
	wg.Add(2)
	go func() {
		defer wg.Done()
		defer qn.ends[0].finish()
		defer func() {
			if p := recover(); p != nil {
				res.panicC = p
			}
		}()
		if flow == "join" {
			_, res.errC = hsC.Join(nodeC, qn.ends[0], "c16-connection-id", hsOpts)
		} else {
			_, res.errC = hsC.Start(nodeC, qn.ends[0], hsOpts)
		}
	}()
	go func() {
		defer wg.Done()
		defer qn.ends[1].finish()
		defer func() {
			if p := recover(); p != nil {
				res.panicS = p
			}
		}()
		_, res.errS = hsS.Accept(nodeS, qn.ends[1], hsOpts)
	}()
	ch := make(chan struct{})
	go func() { wg.Wait(); close(ch) }()
	select {
	case <-ch:
	case <-time.After(30 * time.Second):
		res.watchdog = true
		qn.ends[0].Close()
		qn.ends[1].Close()
	}
	res.allocd = totalAlloc() - a0
	return res
}

// scripted peer: hostile bytes written raw to the side under test
func runRaw(side string, data []byte, logf func(orig, m []byte)) hsResult {
	var res hsResult
	qn := newQnet(nil)
	hs := handshake.Create(handshake.Options{PoolSize: 2})
	var wg sync.WaitGroup
	a0 := totalAlloc()
	wg.Add(2)
	tgt, scr := qn.ends[1], qn.ends[0]
	res.targetIsSrv = side == "accept"
	go func() { // the side under test
		defer wg.Done()
		defer tgt.finish()
		defer func() {
			if p := recover(); p != nil {
				res.panicS = p
			}
		}()
		switch side {
		case "accept":
			_, res.errS = hs.Accept(stubNode{"c16server@localhost", 2222}, tgt, hsOpts)
		case "start":
			_, res.errS = hs.Start(stubNode{"c16client@localhost", 1111}, tgt, hsOpts)
		case "join":
			_, res.errS = hs.Join(stubNode{"c16client@localhost", 1111}, tgt, "c16-connection-id", hsOpts)
		}
	}()
	go func() { // script
		defer wg.Done()
		defer scr.finish()
		buf := make([]byte, 65536)
		if side != "accept" {
			scr.Read(buf) // the first message of the dialing side
		}
		logf(nil, data)
		res.mutated = data
		res.delivered = true
		scr.Write(data)
		for {
			if _, err := scr.Read(buf); err != nil {
				return
			}
		}
	}()
	ch := make(chan struct{})
	go func() { wg.Wait(); close(ch) }()
	select {
	case <-ch:
	case <-time.After(30 * time.Second):
		res.watchdog = true
		tgt.Close()
		scr.Close()
	}
	res.allocd = totalAlloc() - a0
	return res
}

func rawInput(rng *rand.Rand) []byte {
	hdr := func(l uint32, pl []byte) []byte {
		b := []byte{87, 1, 0, 0, 0, 0}
		binary.BigEndian.PutUint32(b[2:], l)
		return append(b, pl...)
	}
	switch rng.Intn(8) {
	case 0:
		return randBytes(rng, rng.Intn(40))
	case 1:
		pl := randBytes(rng, rng.Intn(40))
		return hdr(uint32(len(pl)), pl)
	case 2:
		pl := randomInput("prngtags", rng, nil)
		return hdr(uint32(len(pl)), pl)
	case 3:
		vals := []uint32{0, 1, 65535, 65536, 1 << 31, 0xffffffff}
		return hdr(vals[rng.Intn(len(vals))], randBytes(rng, rng.Intn(20)))
	case 4:
		fold := randFold(rng, 1+rng.Intn(5), false)
		budget := 30
		pl := append(withTypeHeader(fold), randDataFor(rng, fold, &budget)...)
		return hdr(uint32(len(pl)), pl)
	case 5:
		c := corpora["plain"]
		pl := cp(c[rng.Intn(len(c))].enc)
		if rng.Intn(2) == 0 {
			pl = randEdit(rng, pl)
		}
		return hdr(uint32(len(pl)), pl)
	case 6:
		// several messages glued together
		var b []byte
		for i := 0; i < 2+rng.Intn(3); i++ {
			pl := randomInput("prngtags", rng, nil)
			b = append(b, hdr(uint32(len(pl)), pl)...)
		}
		return b
	default:
		d := directedHS()
		pl := d[rng.Intn(len(d))]
		return hdr(uint32(len(pl)), pl)
	}
}

// child ------------------------------------------------------------------------------------------

func childHS() {
	setupEDF()
	profBase = profSnapshot()
	for ci := spec.ResumeCase; ci < len(spec.Cases); ci++ {
		cs := spec.Cases[ci]
		from := 0
		if ci == spec.ResumeCase {
			from = spec.ResumeIdx
		}
		a := newAgg()
		expensive := 0
		if ci == spec.ResumeCase {
			expensive = spec.ResumeExpensive
		}
		for idx := from; idx < cs.N; idx++ {
			if cs.Only >= 0 && idx != cs.Only {
				continue
			}
			if expensive >= expensiveBudget && cs.Only < 0 {
				a.extra["not_executed_after_expensive_budget"]++
				continue
			}
			if sinceBase++; sinceBase >= 128 {
				profBase, sinceBase = profSnapshot(), 0
			}
			before := a.extra["expensive"]
			hsOne(ci, cs, idx, a)
			expensive += int(a.extra["expensive"] - before)
		}
		writeRec(a.rec(cs.ID))
	}
}

var hsHeaderErrs = []string{"malformed handshake packet", "mismatch handshake version", "too long handshake message"}

func hsOne(ci int, cs caseSpec, idx int, a *agg) {
	rng := inputRng(cs.ID, idx)
	info := &callInfo{caseIdx: ci, caseID: cs.ID, idx: idx, marker: "handshake."}
	logf := func(orig, m []byte) {
		info.data = m
		progress(ci, idx, m)
	}
	beginCall(info)
	var res hsResult
	if cs.Class == "preauth-array-bomb" {
		// first message to Accept, before any authentication: a type descriptor declaring a 4 GiB array
		pl := cat([]byte{130, 0, 6, 158}, be32(0xffffffff), []byte{151}, []byte{1, 2, 3})
		msg := append([]byte{87, 1, 0, 0, 0, byte(len(pl))}, pl...)
		res = runRaw("accept", msg, logf)
	} else if cs.Side != "" {
		res = runRaw(cs.Side, rawInput(rng), logf)
	} else {
		sl := hsSlots[cs.Item]
		res = runExchange(sl.flow, sl.dir, sl.seq, func(msg []byte) []byte { return hsMutate(cs.Class, rng, msg) }, logf)
	}
	endCall()
	mk := func(sig, what string, detail any) {
		violation(vrec{Case: cs.ID, Idx: idx, Sig: sig, What: what, Hex: hexOf(res.mutated), Len: len(res.mutated), Detail: detail, Raw: res.mutated})
	}
	if res.watchdog {
		a.add("trivial: watchdog", false, 1)
		a.extra["watchdog"]++
		return
	}
	if res.panicC != nil || res.panicS != nil {
		who := "Accept"
		if res.panicC != nil {
			who = "Start/Join"
		}
		if cs.Side != "" {
			who = cs.Side
		}
		mk("panic-escaped/handshake."+who, fmt.Sprintf("handshake %s let a panic escape: %v %v", who, res.panicC, res.panicS), nil)
		a.add("ESCAPED PANIC", true, 1)
		return
	}
	if res.allocd > allocBound(len(res.mutated)) {
		site, stack := allocSiteSince()
		mk("alloc-amplification/"+site, fmt.Sprintf("handshake exchange with a %d byte hostile message allocated %d bytes (bound %d)", len(res.mutated), res.allocd, allocBound(len(res.mutated))),
			map[string]any{"alloc_stack": stack})
		a.add("ALLOC OUT OF PROPORTION", true, 1)
		leaveAfterExpensive(cs.ID, a)
	}
	terr := res.errS
	if cs.Side == "" && !res.targetIsSrv {
		terr = res.errC
	}
	class := "ok (handshake completed)"
	nontrivial := res.delivered
	if terr != nil {
		class = errClass(terr)
		for _, h := range hsHeaderErrs {
			if strings.Contains(terr.Error(), h) {
				nontrivial = false
				class = "trivial: " + h
			}
		}
	}
	if !res.delivered {
		class = "trivial: exchange ended before the message"
	}
	if a.sample == nil && nontrivial {
		a.sample = map[string]any{"idx": idx, "hex": trunc(hexOf(res.mutated), 160), "outcome": class}
	}
	a.add(class, nontrivial, 1)
}

func hsJobs() []job {
	var cases []caseSpec
	m := hk.Pick(1, 12)
	type cl struct {
		name string
		n    int
	}
	classes := []cl{{"trunc", 40}, {"trunc-fixlen", 30}, {"head", 20}, {"inflate", 90}, {"tagswap", 50}, {"header", 24}, {"edits", 40}, {"bitflip", 20}, {"payload", 40}, {"payload-directed", 8}}
	for si, sl := range hsSlots {
		for _, c := range classes {
			id := fmt.Sprintf("hs/%s/%s/%s", sl.flow, sl.name, c.name)
			if want(id) {
				cases = append(cases, caseSpec{ID: id, Target: "hs", Class: c.name, Item: si, N: c.n * m, Only: onlyIdx(id)})
			}
		}
	}
	for _, side := range []string{"accept", "start", "join"} {
		id := fmt.Sprintf("hs/raw/%s", side)
		if want(id) {
			cases = append(cases, caseSpec{ID: id, Target: "hs", Class: "raw", Side: side, N: 150 * m, Only: onlyIdx(id)})
		}
	}
	var jobs []job
	if id := "hs/directed/accept/preauth-array-bomb"; want(id) {
		jobs = append(jobs, job{name: "hs-preauth-bomb", mode: "hs", memKB: 1024 << 10, wall: time.Duration(hk.Pick(420, 1200)) * time.Second, procs: 2,
			cases: []caseSpec{{ID: id, Target: "hs", Class: "preauth-array-bomb", Side: "accept", N: 1, Only: -1}}})
	}
	if len(cases) == 0 {
		return jobs
	}
	nj := 4
	if len(cases) < nj {
		nj = len(cases)
	}
	for k := 0; k < nj; k++ {
		var cs []caseSpec
		for i := k; i < len(cases); i += nj {
			cs = append(cs, cases[i])
		}
		jobs = append(jobs, job{name: fmt.Sprintf("hs-%02d", k), mode: "hs", memKB: 1024 << 10, wall: time.Duration(hk.Pick(420, 1200)) * time.Second, cases: cs, procs: 2})
	}
	return jobs
}

var _ = os.Getpid
