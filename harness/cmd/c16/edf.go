package main

// Target 1: edf.Decode. Child side runner and the per-call oracles.

import (
	"bytes"
	"encoding/binary"
	"fmt"
	"reflect"
	"runtime/debug"
	"strings"

	"ergo.services/ergo/lib"
	"ergo.services/ergo/net/edf"

	"verif/harness/hk"
)

var (
	optsets []optset
	corpora map[string][]citem
)

func setupEDF() {
	optsets = makeOptsets()
	corpora = map[string][]citem{}
	for _, o := range optsets {
		corpora[o.name] = buildCorpus(o)
	}
}

func optByName(n string) optset {
	for _, o := range optsets {
		if o.name == n {
			return o
		}
	}
	return optsets[0]
}

var enumClasses = map[string]bool{"trunc": true, "inflate": true, "tagswap": true}

// quick tier: the enumerative classes take every q-th input, the residue depends on the seed
// and the item, so that seeds 1..q together cover the whole enumeration; thorough: all
func enumStride(cs caseSpec) (q, r int) {
	if spec.Thorough || hk.Thorough() {
		return 1, 0
	}
	switch cs.Class {
	case "inflate":
		q = 3
	case "tagswap":
		q = 4
	default:
		return 1, 0
	}
	return q, int((hk.Seed() + int64(cs.Item)) % int64(q))
}

// number of inputs of a case
func edfCaseCount(cs caseSpec) int {
	if cs.Class == "directed" {
		return 1
	}
	if cs.Class == "valid" {
		return len(handEncodings())
	}
	if enumClasses[cs.Class] {
		return enumCount(cs.Class, len(corpora[cs.Opt][cs.Item].enc))
	}
	return cs.N
}

// idx-th input of a case: a function of seed, case id and idx only
func edfCaseInput(cs caseSpec, idx int) []byte {
	if cs.Class == "directed" {
		return directedEDF()[cs.Item].data()
	}
	if cs.Class == "valid" {
		return handEncodings()[idx].enc
	}
	if enumClasses[cs.Class] {
		return enumInput(cs.Class, corpora[cs.Opt][cs.Item].enc, idx)
	}
	rng := inputRng(cs.ID, idx)
	return randomInput(cs.Class, rng, corpora[cs.Opt])
}

// directed inputs: the suspicions from reading the code --------------------------------

type directed struct {
	name string
	data func() []byte
}

func be32(n uint32) []byte { b := make([]byte, 4); binary.BigEndian.PutUint32(b, n); return b }
func cat(parts ...[]byte) []byte {
	var b []byte
	for _, p := range parts {
		b = append(b, p...)
	}
	return b
}
func regName(n string) []byte { return append([]byte{131, byte(len(n) >> 8), byte(len(n))}, n...) }

func directedEDF() []directed {
	lit := func(b []byte) func() []byte { return func() []byte { return b } }
	return []directed{
		// array length in a type descriptor is used for allocation before any data is seen
		{"array-typedesc-4g-uint8", lit(cat([]byte{130, 0, 6, 158}, be32(0xffffffff), []byte{151}, []byte{1, 2, 3}))},
		{"array-typedesc-1g-uint64", lit(cat([]byte{130, 0, 6, 158}, be32(1<<27), []byte{154}, []byte{1, 2, 3}))},
		{"array-typedesc-100m-in-any", lit(cat([]byte{130, 0, 2, 157, 132, 157}, be32(1), []byte{130, 0, 6, 158}, be32(100<<20), []byte{151}, []byte{1}))},
		// registered map: MakeMapWithSize(declared) before the count is compared with the remaining bytes
		{"regmap-count-2^28", lit(cat(regName("#main/NMap"), []byte{131}, be32(1<<28)))},
		{"regmap-count-2^32-1", lit(cat(regName("#main/NMap"), []byte{131}, be32(0xffffffff)))},
		// generic map/slice with declared count (checked against remaining bytes first)
		{"map-count-2^32-1", lit(cat([]byte{130, 0, 3, 159, 141, 150, 159}, be32(0xffffffff), []byte{0, 1, 'a'}))},
		{"slice-count-2^32-1", lit(cat([]byte{130, 0, 2, 157, 150, 157}, be32(0xffffffff), []byte{0, 1, 'a'}))},
		// length fields wrapping around in uint16/uint32 arithmetic
		{"string-len-65534", lit([]byte{141, 0xff, 0xfe, 'a', 'b'})},
		{"string-len-65535", lit([]byte{141, 0xff, 0xff, 'a', 'b'})},
		{"binary-len-2^32-1", lit(cat([]byte{142}, be32(0xffffffff), []byte{1, 2, 3, 4, 5}))},
		{"binary-len-2^32-4", lit(cat([]byte{142}, be32(0xfffffffc), []byte{1, 2, 3, 4, 5}))},
		{"marshaler-len-2^32-1", lit(cat(regName("#main/NMarsh"), be32(0xffffffff), []byte{1, 2, 3, 4, 5}))},
		{"marshaler-len-2^32-4", lit(cat(regName("#main/NBin"), be32(0xfffffffc), []byte{1, 2, 3, 4, 5}))},
		// error text goes through fmt.Errorf as the format string
		{"error-text-percent", lit([]byte{156, 0, 6, '1', '0', '0', '%', ' ', 'd'})},
		// quadratic amplification: nested slices, every level sized by the remaining bytes
		{"nested-slices-typedesc-1500", func() []byte {
			d := 1500
			fold := append(bytes.Repeat([]byte{157}, d), 151)
			b := append([]byte{130, byte(len(fold) >> 8), byte(len(fold))}, fold...)
			for i := 0; i < d; i++ {
				rem := (d - i - 1) * 5
				b = append(b, 157)
				b = append(b, be32(uint32(rem))...)
			}
			return b
		}},
		{"nested-any-slices-4000", func() []byte {
			d := 4000
			var b []byte
			unit := []byte{130, 0, 2, 157, 132, 157, 0, 0, 0, 0}
			for i := 0; i < d; i++ {
				rem := (d - i - 1) * len(unit)
				u := cp(unit)
				binary.BigEndian.PutUint32(u[6:], uint32(rem))
				b = append(b, u...)
			}
			return b
		}},
		// deep type descriptor: one reflect type per level, type names grow with the depth
		{"typedesc-depth-8000", func() []byte {
			fold := append(bytes.Repeat([]byte{157}, 8000), 151)
			return cat([]byte{130, byte(len(fold) >> 8), byte(len(fold))}, fold, []byte{255})
		}},
		// recursion depth proportional to the input: any in any in any ...
		{"any-chain-100k", func() []byte { return append(bytes.Repeat([]byte{132}, 100000), 145, 1) }},
		{"any-chain-2m-maxstack64m", func() []byte { return append(bytes.Repeat([]byte{132}, 2<<20), 145, 1) }},
		// zero-size elements: the loop count comes from the descriptor, no input is consumed
		// clearly above any CPU budget: 2^64 iterations (nested), never returns
		{"array-of-zero-size-nested", lit(cat([]byte{130, 0, 16, 158}, be32(0xffffffff), []byte{158}, be32(0xffffffff), []byte{158}, be32(0), []byte{151}, []byte{0}))},
		{"array-of-empty-struct-nested", lit(cat(append(append([]byte{130, 0, byte(5 + 5 + 3 + len("#main/NEmpty")), 158}, be32(0xffffffff)...), append([]byte{158}, be32(0xffffffff)...)...), regName("#main/NEmpty"), []byte{0}))},
		// clearly below: 2^20 iterations, 24 MiB of garbage, must return without any violation
		{"array-of-zero-size-2^20", lit(cat([]byte{130, 0, 11, 158}, be32(1<<20), []byte{158}, be32(0), []byte{151}, []byte{0}))},
	}
}

// predictedBomb: static property of an input. True iff the input begins with a type
// descriptor (or a []any wrapping one) whose array lengths multiply to more than 64 MiB of
// element storage. On a tree where the array length is used for allocation unchecked every
// such input ends the child (out of memory) or costs seconds of page zeroing; only the
// first few of them per case are executed, the rest are counted as skipped. The rule
// depends on the input bytes only.
func foldSize(f []byte, depth int) (size float64, rest []byte, ok bool) {
	if len(f) == 0 || depth > 64 {
		return 0, nil, false
	}
	switch f[0] {
	case 157:
		_, r, ok := foldSize(f[1:], depth+1)
		return 24, r, ok
	case 159:
		_, r, ok := foldSize(f[1:], depth+1)
		if !ok {
			return 0, nil, false
		}
		_, r, ok = foldSize(r, depth+1)
		return 8, r, ok
	case 158:
		if len(f) < 6 {
			return 0, nil, false
		}
		n := float64(binary.BigEndian.Uint32(f[1:5]))
		e, r, ok := foldSize(f[5:], depth+1)
		return n * e, r, ok
	case 131:
		if len(f) < 3 {
			return 0, nil, false
		}
		l := int(binary.BigEndian.Uint16(f[1:3]))
		if l > 4095 {
			return 8, f[3:], true
		}
		if len(f) < 3+l {
			return 0, nil, false
		}
		return 8, f[3+l:], true
	case 151, 146, 145:
		return 1, f[1:], true
	case 147, 152:
		return 2, f[1:], true
	case 143, 148, 153:
		return 4, f[1:], true
	case 141, 132, 156:
		return 16, f[1:], true
	case 142, 175:
		return 24, f[1:], true
	case 170, 171, 172, 173, 174:
		return 32, f[1:], true
	}
	return 8, f[1:], true
}

func predictedBomb(in []byte) bool {
	for hop := 0; hop < 3; hop++ {
		if len(in) < 3 || in[0] != 130 {
			return false
		}
		n := int(binary.BigEndian.Uint16(in[1:3]))
		if len(in) < 3+n {
			return false
		}
		if sz, _, ok := foldSize(in[3:3+n], 0); ok && sz > 64<<20 {
			return true
		}
		// []any{<typed value>...}: look at the first element
		if n == 2 && in[3] == 157 && in[4] == 132 && len(in) > 10 && in[5] == 157 {
			in = in[10:]
			continue
		}
		return false
	}
	return false
}

const bombsPerCase = 2

// oracles --------------------------------------------------------------------------------

var sinceBase int

// the input whose decode calls are being timed by the CPU watchdog
var pendingCall *callInfo

type decRes struct {
	val      any
	tail     []byte
	err      error
	escaped  any // panic that escaped edf.Decode
	allocd   uint64
	cpu      int64
	inputBuf []byte
}

func decodeOnce(data []byte, slack byte, o optset, measure bool) (r decRes) {
	// the input sits in a larger buffer, like a frame inside a pooled lib.Buffer
	buf := make([]byte, len(data)+96)
	for i := len(data); i < len(buf); i++ {
		buf[i] = slack
	}
	copy(buf, data)
	in := buf[:len(data)]
	r.inputBuf = in
	var a0 uint64
	if measure {
		a0 = totalAlloc()
	}
	if pendingCall != nil {
		beginCall(pendingCall) // the CPU budget is per call, and only the call under test is timed
	}
	func() {
		defer func() {
			if p := recover(); p != nil {
				r.escaped = p
			}
		}()
		r.val, r.tail, r.err = edf.Decode(in, o.dec)
	}()
	endCall()
	if measure {
		r.allocd = totalAlloc() - a0
	}
	return
}

var trivialErr = []string{"err: unknown type", "err: unknown reg type", "err: no RegCache", "err: unknown RegCache id"}

func isTrivialClass(class string, n int) bool {
	if n <= 1 {
		return true
	}
	for _, t := range trivialErr {
		if strings.HasPrefix(class, t) {
			return true
		}
	}
	if class == "err: end of data" && n <= 3 {
		return true
	}
	return false
}

// checkDecode applies all per-call oracles to one input; returns outcome class and non-triviality
func checkDecode(caseIdx int, cs caseSpec, idx int, data []byte, o optset, a *agg) {
	progress(caseIdx, idx, data)
	ci := &callInfo{caseIdx: caseIdx, caseID: cs.ID, idx: idx, data: data, marker: "main.decodeOnce"}
	pendingCall = ci
	defer func() { pendingCall = nil }()

	r := decodeOnce(data, 0xAA, o, true)
	events := int64(1)
	violated := false
	mk := func(sig, what string, detail any) {
		violated = true
		violation(vrec{Case: cs.ID, Idx: idx, Sig: sig, What: what, Hex: hexOf(data), Len: len(data), Detail: detail, Raw: data})
	}
	if r.escaped != nil {
		mk("panic-escaped/edf.Decode", fmt.Sprintf("edf.Decode let a panic escape: %v", r.escaped), nil)
		a.add("ESCAPED PANIC", true, events)
		return
	}
	if r.allocd > allocBound(len(data)) {
		// attribute: the stack that allocated most since the baseline; then, for precision, the same decode once more
		// against a fresh baseline (if this second decode ends the child, the parent reads the site from the crash)
		site, stack := allocSiteSince() // since the periodic baseline (at most 256 inputs old); resets the baseline
		if again := decodeOnce(data, 0xAA, o, true); again.allocd > allocBound(len(data)) {
			// the decode allocates as much the second time (no one-time cache effect): the fresh profile is exact
			site, stack = allocSiteSince()
		}
		mk("alloc-amplification/"+site, fmt.Sprintf("edf.Decode of %d input bytes allocated %d bytes (bound %d = 64MiB + 4096 x input)", len(data), r.allocd, allocBound(len(data))),
			map[string]any{"alloc_stack": stack, "allocated": r.allocd})
		debug.FreeOSMemory()
		a.add("ALLOC OUT OF PROPORTION", true, events)
		leaveAfterExpensive(cs.ID, a)
		return
	}
	a.extra["max_alloc_per_call"] = max64(a.extra["max_alloc_per_call"], int64(r.allocd))

	// the result must be a function of the input bytes only: decode a second copy whose
	// surrounding buffer holds different bytes
	r2 := decodeOnce(data, 0x01, o, false)
	events++
	if r2.escaped != nil {
		mk("panic-escaped/edf.Decode", fmt.Sprintf("edf.Decode let a panic escape: %v", r2.escaped), nil)
		return
	}
	same := (r.err == nil) == (r2.err == nil) && len(r.tail) == len(r2.tail)
	why := "error/tail differ"
	if same && r.err != nil && r.err.Error() != r2.err.Error() {
		same = false
	}
	if same && r.err == nil {
		same, why = sameValue(r.val, r2.val)
	}
	if !same {
		mk("decode-reads-beyond-input", fmt.Sprintf("decoding the same %d input bytes gives different results depending on the bytes that follow the input in the buffer: %v / %v (%s)", len(data), r.err, r2.err, why), nil)
	}
	if r.err == nil && len(r.tail) > 0 {
		// tail must be a suffix of the input
		if len(r.tail) > len(data) || &r.tail[len(r.tail)-1] != &r.inputBuf[len(data)-1] {
			mk("tail-not-suffix-of-input", fmt.Sprintf("returned tail (%d bytes) is not the suffix of the %d input bytes", len(r.tail), len(data)), nil)
		}
	}
	if violated {
		a.add("VIOLATION (see violation cases)", true, events)
		return
	}

	var class string
	switch {
	case r.err != nil:
		class = errClass(r.err)
		if strings.Contains(r.err.Error(), "runtime error") || strings.Contains(r.err.Error(), "reflect") {
			a.extra["recovered_panics"]++
			class = "err(recovered panic): " + trunc(reDigits.ReplaceAllString(r.err.Error(), "N"), 60)
		}
	case r.val == nil:
		class = "ok: nil"
	default:
		class = "ok: " + reflect.TypeOf(r.val).Kind().String()
	}
	nontrivial := !isTrivialClass(class, len(data))
	if cs.Class == "valid" && r.err != nil {
		a.extra["hand_built_valid_encodings_rejected"]++
	}

	// re-encode oracle
	quirk := r.err == nil && r.val != nil && hasQuirkTime(reflect.ValueOf(r.val), 0)
	if quirk {
		a.extra["reencode_skipped_time_not_roundtripped_by_go_stdlib"]++
	}
	if r.err == nil && r.val != nil && !quirk {
		events++
		b := lib.TakeBuffer()
		var eerr error
		var epanic any
		beginCall(ci)
		func() {
			defer func() {
				if p := recover(); p != nil {
					epanic = p
				}
			}()
			eerr = edf.Encode(r.val, b, o.enc)
		}()
		endCall()
		switch {
		case epanic != nil:
			mk("roundtrip/encode-panic", fmt.Sprintf("decoded value %T makes edf.Encode panic: %v", r.val, epanic), nil)
		case eerr != nil:
			mk("roundtrip/re-encode-error/"+trunc(reDigits.ReplaceAllString(eerr.Error(), "N"), 40), fmt.Sprintf("decoded value of type %T cannot be re-encoded: %v", r.val, eerr), nil)
		default:
			re := cp(b.B)
			r3 := decodeOnce(re, 0xAA, o, false)
			events++
			if r3.escaped != nil || r3.err != nil {
				ec := "panic"
				if r3.err != nil {
					ec = strings.TrimSpace(strings.ReplaceAll(strings.TrimPrefix(errClass(r3.err), "err: malformed EDF:"), " N", ""))
				}
				sig := "roundtrip/re-decode-error/" + strings.ReplaceAll(ec, " ", "-")
				zeroWhere := ""
				// the listed finding applies when the decoded value really holds a container of zero-size
				// elements (static or behind an any) and the decoder rejected the re-encoding with its
				// count-versus-remaining-bytes check
				if zpath := zeroSizeContainer(reflect.ValueOf(r.val), "v", 0); zpath != "" && r3.err != nil &&
					(strings.Contains(r3.err.Error(), "incorrect data length") || strings.Contains(r3.err.Error(), "end of data")) {
					sig = "roundtrip/zero-size-elements-rejected"
					zeroWhere = " (zero-size elements at " + zpath + ")"
				}
				mk(sig, fmt.Sprintf("re-encoded bytes of decoded %T do not decode: %v %v%s", r.val, r3.err, r3.escaped, zeroWhere), map[string]any{"reencoded": hexOf(re)})
			} else if ok, why := sameValue(r.val, r3.val); !ok {
				sig := "roundtrip/value-differs"
				if strings.Contains(why, "error text") && strings.Contains(why, "%") {
					sig = "roundtrip/error-text-percent"
				}
				mk(sig, fmt.Sprintf("decoded value re-encodes to bytes that decode to a different value: %s", why), map[string]any{"reencoded": hexOf(re)})
			}
		}
		lib.ReleaseBuffer(b)
	}
	if a.sample == nil && nontrivial {
		a.sample = map[string]any{"idx": idx, "hex": trunc(hexOf(data), 200), "outcome": class}
	}
	a.add(class, nontrivial, events)
}

// hasZeroSizeElem: the type contains a slice or array whose elements have size zero, or a map whose keys and
// values both have size zero (their encoding is empty, the decoder's count check rejects the valid encoding)
func hasZeroSizeElem(t reflect.Type, depth int) bool {
	if t == nil || depth > 12 {
		return false
	}
	switch t.Kind() {
	case reflect.Slice, reflect.Array:
		if t.Elem().Size() == 0 {
			return true
		}
		return hasZeroSizeElem(t.Elem(), depth+1)
	case reflect.Map:
		if t.Key().Size() == 0 && t.Elem().Size() == 0 {
			return true
		}
		return hasZeroSizeElem(t.Key(), depth+1) || hasZeroSizeElem(t.Elem(), depth+1)
	case reflect.Struct:
		for i := 0; i < t.NumField(); i++ {
			if hasZeroSizeElem(t.Field(i).Type, depth+1) {
				return true
			}
		}
	}
	return false
}

// zeroSizeContainer walks a decoded value (dynamic types behind interfaces included) and returns the path of the
// first non-empty slice/array with zero-size elements or non-empty map with zero-size keys and values; "" if none
func zeroSizeContainer(v reflect.Value, path string, depth int) string {
	if !v.IsValid() || depth > 24 {
		return ""
	}
	switch v.Kind() {
	case reflect.Interface, reflect.Pointer:
		if v.IsNil() {
			return ""
		}
		return zeroSizeContainer(v.Elem(), path, depth+1)
	case reflect.Slice, reflect.Array:
		if v.Len() > 0 && v.Type().Elem().Size() == 0 {
			return fmt.Sprintf("%s %v", path, v.Type())
		}
		if v.Type().Elem().Size() == 0 {
			return ""
		}
		for i := 0; i < v.Len() && i < 4096; i++ {
			if p := zeroSizeContainer(v.Index(i), fmt.Sprintf("%s[%d]", path, i), depth+1); p != "" {
				return p
			}
		}
	case reflect.Map:
		if v.Len() > 0 && v.Type().Key().Size() == 0 && v.Type().Elem().Size() == 0 {
			return fmt.Sprintf("%s %v", path, v.Type())
		}
		it := v.MapRange()
		for n := 0; it.Next() && n < 4096; n++ {
			if p := zeroSizeContainer(it.Key(), path+"(key)", depth+1); p != "" {
				return p
			}
			if p := zeroSizeContainer(it.Value(), fmt.Sprintf("%s[%v]", path, it.Key()), depth+1); p != "" {
				return p
			}
		}
	case reflect.Struct:
		for i := 0; i < v.NumField(); i++ {
			if !v.Type().Field(i).IsExported() {
				continue
			}
			if p := zeroSizeContainer(v.Field(i), path+"."+v.Type().Field(i).Name, depth+1); p != "" {
				return p
			}
		}
	}
	return ""
}

func max64(a, b int64) int64 {
	if a > b {
		return a
	}
	return b
}

func childEDF() {
	setupEDF()
	profBase = profSnapshot()
	for ci := spec.ResumeCase; ci < len(spec.Cases); ci++ {
		cs := spec.Cases[ci]
		o := optByName(cs.Opt)
		n := edfCaseCount(cs)
		from := 0
		if ci == spec.ResumeCase {
			from = spec.ResumeIdx
		}
		a := newAgg()
		if cs.MaxStackMB > 0 {
			debug.SetMaxStack(cs.MaxStackMB << 20)
		}
		bombs := 0
		var expensiveIdx []int
		if ci == spec.ResumeCase {
			expensiveIdx = spec.ResumeExpensiveIdx
		}
		enum := enumClasses[cs.Class]
		vlen := 0
		if enum {
			vlen = len(corpora[cs.Opt][cs.Item].enc)
		}
		// an input is skipped when the case has used up its budget of expensive violations, or (enumerative
		// classes) when it modifies bytes that an expensive input of this case modified
		skip := func(idx int) bool {
			if cs.Only >= 0 {
				return false
			}
			if !enum {
				return len(expensiveIdx) >= expensiveBudget
			}
			if len(expensiveIdx) >= expensiveBudgetEnum {
				return true
			}
			o, w := enumWindow(cs.Class, vlen, idx)
			for _, e := range expensiveIdx {
				eo, ew := enumWindow(cs.Class, vlen, e)
				if o < eo+ew && eo < o+w {
					return true
				}
			}
			return false
		}
		q, r := 1, 0
		if enum && cs.Only < 0 {
			q, r = enumStride(cs)
		}
		for idx := 0; idx < n; idx++ {
			if cs.Only >= 0 && idx != cs.Only {
				continue
			}
			if idx%q != r {
				continue
			}
			in := edfCaseInput(cs, idx)
			if cs.Only < 0 && cs.Class != "directed" && predictedBomb(in) {
				bombs++
				if bombs > bombsPerCase {
					if idx >= from {
						a.extra["skipped_predicted_alloc_bombs"]++
					}
					continue
				}
			}
			if idx < from {
				continue
			}
			if skip(idx) {
				a.extra["not_executed_after_expensive_budget"]++
				continue
			}
			if sinceBase++; sinceBase >= 256 {
				// keep the heap profile baseline fresh: the site of an allocation out of proportion is the stack
				// that allocated most since the baseline
				profBase, sinceBase = profSnapshot(), 0
			}
			checkDecode(ci, cs, idx, in, o, a)
		}
		writeRec(a.rec(cs.ID))
	}
}
