package main

// Target 3: a LIVE node. The child hosts the victim node V, a second,
// legitimate node L connected to V, and the attacker: a raw TCP link that went
// through a real handshake.Start with a stub node identity (the cookie is
// known). Valid frames are recorded from a real connection (recorder node R
// talking to V through a byte tap). Hostile frames are written on the raw
// link. Monitors: the process is alive, a canary on V answers a Call that
// travels over the L<->V connection, V never saw L go down, only the offending
// link disappears, allocation and CPU bounds.

import (
	"bytes"
	"compress/gzip"
	"compress/lzw"
	"compress/zlib"
	"encoding/binary"
	"errors"
	"fmt"
	"io"
	"math/rand"
	"net"
	"os"
	"strings"
	"sync"
	"sync/atomic"
	"time"

	"ergo.services/ergo/act"
	"ergo.services/ergo/gen"
	"ergo.services/ergo/lib"
	"ergo.services/ergo/net/edf"
	"ergo.services/ergo/net/handshake"

	"verif/harness/hk"
)

const markerPrefix = "c16-marker-"

// actors ------------------------------------------------------------------------------------------

type liveState struct {
	markers   chan string
	downs     atomic.Int64 // MessageDownNode for L seen on V
	sinkPID   gen.PID
	sinkAlias gen.Alias
	evToken   gen.Ref
	other     atomic.Int64 // non-marker messages delivered to the sink
	sinkEnd   atomic.Value // termination reason of the sink, if it ever terminates
}

var ls = &liveState{markers: make(chan string, 4096)}

type sinkCmd struct {
	do   func(p *sink)
	done chan struct{}
}

// sink: receives markers, answers calls (canary), traps exits
type sink struct {
	act.Actor
}

func (s *sink) Init(args ...any) error {
	s.SetTrapExit(true)
	return nil
}
func (s *sink) HandleMessage(from gen.PID, message any) error {
	switch m := message.(type) {
	case string:
		if strings.HasPrefix(m, markerPrefix) {
			select {
			case ls.markers <- m:
			default:
			}
			return nil
		}
	case sinkCmd:
		m.do(s)
		close(m.done)
		return nil
	case gen.MessageDownNode:
		ls.downs.Add(1)
		return nil
	}
	ls.other.Add(1)
	return nil
}
func (s *sink) HandleCall(from gen.PID, ref gen.Ref, request any) (any, error) {
	return request, nil
}
func (s *sink) Terminate(reason error) {
	ls.sinkEnd.Store(fmt.Sprintf("%v", reason))
}

// generic command actor (on L and R)
type cmdActor struct {
	act.Actor
}
type actorCmd struct {
	do   func(p *cmdActor) error
	done chan error
}

func (c *cmdActor) Init(args ...any) error { c.SetTrapExit(true); return nil }
func (c *cmdActor) HandleMessage(from gen.PID, message any) error {
	if m, ok := message.(actorCmd); ok {
		m.done <- m.do(c)
	}
	return nil
}
func (c *cmdActor) HandleCall(from gen.PID, ref gen.Ref, request any) (any, error) {
	return request, nil
}

func runOn(n gen.Node, pid gen.PID, wait time.Duration, f func(p *cmdActor) error) error {
	ch := make(chan error, 1)
	if err := n.Send(pid, actorCmd{do: f, done: ch}); err != nil {
		return err
	}
	select {
	case err := <-ch:
		return err
	case <-time.After(wait):
		return errWatchdog
	}
}

var errWatchdog = errors.New("watchdog: command did not return")
var canaryTimeout = 5

// disposable process for link/monitor/exit traffic
type dummy struct{ act.Actor }

func (d *dummy) HandleMessage(from gen.PID, message any) error { return nil }

// byte tap ------------------------------------------------------------------------------------------

type tap struct {
	l    net.Listener
	port uint16
	mu   sync.Mutex
	c2s  []byte
	s2c  []byte
}

func startTap(target string) (*tap, error) {
	l, err := net.Listen("tcp", "127.0.0.1:0")
	if err != nil {
		return nil, err
	}
	t := &tap{l: l, port: uint16(l.Addr().(*net.TCPAddr).Port)}
	go func() {
		for {
			c, err := l.Accept()
			if err != nil {
				return
			}
			s, err := net.Dial("tcp", target)
			if err != nil {
				c.Close()
				continue
			}
			pump := func(dst, src net.Conn, rec *[]byte) {
				buf := make([]byte, 65536)
				for {
					n, err := src.Read(buf)
					if n > 0 {
						t.mu.Lock()
						*rec = append(*rec, buf[:n]...)
						t.mu.Unlock()
						dst.Write(buf[:n])
					}
					if err != nil {
						dst.Close()
						return
					}
				}
			}
			go pump(s, c, &t.c2s)
			go pump(c, s, &t.s2c)
		}
	}()
	return t, nil
}

// splitStream cuts a recorded direction into handshake messages (magic 87) and protocol frames (magic 78)
func splitStream(b []byte) (frames [][]byte) {
	for len(b) >= 8 {
		switch b[0] {
		case 87:
			l := int(binary.BigEndian.Uint32(b[2:6])) + 6
			if l > len(b) {
				return
			}
			b = b[l:]
		case 78:
			l := int(binary.BigEndian.Uint32(b[2:6]))
			if l < 8 || l > len(b) {
				return
			}
			frames = append(frames, cp(b[:l]))
			b = b[l:]
		default:
			return
		}
	}
	return
}

// live environment -------------------------------------------------------------------------------------

type liveEnv struct {
	V, L      *hk.HNode
	callerPID gen.PID
	frames    [][]byte // recorded valid frames (both directions)
	frameDesc []string
	evilSeq   int
	link      *evilLink
	queues    int
}

type evilLink struct {
	conn   net.Conn
	name   gen.Atom
	id     string // connection id the node assigned in the handshake
	closed chan struct{}
}

var env liveEnv

var frameTypeName = map[byte]string{101: "MessagePID", 102: "MessageName", 103: "MessageNameCache", 104: "MessageAlias", 105: "MessageEvent", 106: "MessageEventCache", 107: "MessageExit",
	121: "RequestPID", 122: "RequestName", 123: "RequestNameCache", 124: "RequestAlias", 129: "Response", 130: "ResponseError",
	181: "TerminatePID", 182: "TerminateName", 183: "TerminateNameCache", 184: "TerminateAlias", 185: "TerminateEvent", 186: "TerminateEventCache", 199: "Any", 200: "Z"}

func setupLive(cfg string) error {
	tweak := func(o *gen.NodeOptions) {
		if cfg == "max64k" {
			o.Network.MaxMessageSize = 65536
		}
	}
	var err error
	for attempt := 0; attempt < 4; attempt++ {
		// the registrar port may be taken by another process between FreePort and the start: retry with a new one
		regPort := hk.FreePort()
		env.V, err = hk.StartNode(hk.NodeCfg{Name: fmt.Sprintf("c16victim%d", os.Getpid()), Network: true, RegPort: regPort, Cookie: "c16-live-cookie", Tweak: tweak})
		if err != nil {
			err = fmt.Errorf("start V: %w", err)
			continue
		}
		env.L, err = hk.StartNode(hk.NodeCfg{Name: fmt.Sprintf("c16legit%d", os.Getpid()), Network: true, RegPort: regPort, Cookie: "c16-live-cookie"})
		if err != nil {
			err = fmt.Errorf("start L: %w", err)
			env.V.Stop()
			continue
		}
		break
	}
	if err != nil {
		return err
	}
	env.queues = 4 // hk starts acceptors with handshake pool size 1: 4 receive queues per connection
	ls.sinkPID, err = env.V.SpawnRegister("sink", func() gen.ProcessBehavior { return &sink{} }, gen.ProcessOptions{})
	if err != nil {
		return fmt.Errorf("spawn sink: %w", err)
	}
	// sink: alias, event, node monitor for L
	if err := sinkDo(func(s *sink) {
		ls.sinkAlias, _ = s.CreateAlias()
		ls.evToken, _ = s.RegisterEvent("c16ev", gen.EventOptions{})
	}); err != nil {
		return err
	}
	env.callerPID, err = env.L.Spawn(func() gen.ProcessBehavior { return &cmdActor{} }, gen.ProcessOptions{})
	if err != nil {
		return err
	}
	for try := 0; ; try++ {
		if _, err = hk.Connect(env.L, env.V); err == nil {
			break
		}
		if try == 4 {
			return fmt.Errorf("connect L->V: %w", err)
		}
	}
	if err := sinkDo(func(s *sink) { s.MonitorNode(env.L.Name()) }); err != nil {
		return err
	}
	// the very first call over a fresh connection is occasionally lost (seen on the unchanged tree, not a C16 matter): retry
	for try := 0; ; try++ {
		if err = canaryCall(); err == nil {
			break
		}
		if try == 3 {
			sinfo, serr := env.V.ProcessInfo(ls.sinkPID)
			return fmt.Errorf("initial canary call: %w (V log: %v; L log: %v; V nodes %v; L nodes %v; sink %v %v end=%v)", err, env.V.Cap.Lines(), env.L.Cap.Lines(),
				env.V.Network().Nodes(), env.L.Network().Nodes(), sinfo.State, serr, ls.sinkEnd.Load())
		}
	}
	canaryTimeout = 15
	if err := record(); err != nil {
		return err
	}
	if err := canaryCall(); err != nil {
		info, ierr := env.V.ProcessInfo(ls.sinkPID)
		return fmt.Errorf("canary call after the recording: %w (sink: %+v %v end=%v; panics on V: %v; panics on L: %v)", err, info.State, ierr, ls.sinkEnd.Load(), env.V.Cap.PanicLines(), env.L.Cap.PanicLines())
	}
	return nil
}

func sinkDo(f func(s *sink)) error {
	done := make(chan struct{})
	if err := env.V.Send(ls.sinkPID, sinkCmd{do: f, done: done}); err != nil {
		return err
	}
	select {
	case <-done:
		return nil
	case <-time.After(10 * time.Second):
		return errWatchdog
	}
}

// a Call from an actor on L to the canary on V: exercises the legitimate connection and the canary
func canaryCall() error {
	return runOn(env.L, env.callerPID, time.Duration(canaryTimeout+5)*time.Second, func(p *cmdActor) error {
		v, err := p.CallWithTimeout(gen.ProcessID{Name: "sink", Node: env.V.Name()}, "ping", canaryTimeout)
		if err != nil {
			return err
		}
		if v != "ping" {
			return fmt.Errorf("canary answered %v", v)
		}
		return nil
	})
}

// record valid traffic of every kind between a recorder node R and V through a tap
func record() error {
	t, err := startTap(fmt.Sprintf("127.0.0.1:%d", env.V.Port))
	if err != nil {
		return err
	}
	defer t.l.Close()
	R, err := hk.StartNode(hk.NodeCfg{Name: fmt.Sprintf("c16recorder%d", os.Getpid()), Network: true, RegPort: env.V.RegPort, Cookie: "c16-live-cookie"})
	if err != nil {
		return err
	}
	env.V.Network().EnableSpawn("c16dummy", func() gen.ProcessBehavior { return &dummy{} }, R.Name())
	for try := 0; ; try++ {
		// the handshake has 1 s read deadlines: on a loaded machine a connect can fail for that reason alone
		if _, err = hk.ConnectVia(R, env.V, "127.0.0.1", t.port); err == nil {
			break
		}
		if try == 4 {
			return fmt.Errorf("connect R->V via tap: %w", err)
		}
	}
	rpid, err := R.Spawn(func() gen.ProcessBehavior { return &cmdActor{} }, gen.ProcessOptions{})
	if err != nil {
		return err
	}
	victim, _ := env.V.Spawn(func() gen.ProcessBehavior { return &dummy{} }, gen.ProcessOptions{})
	vhelper, err := env.V.Spawn(func() gen.ProcessBehavior { return &cmdActor{} }, gen.ProcessOptions{})
	if err != nil {
		return err
	}
	vname := env.V.Name()
	sinkName := gen.ProcessID{Name: "sink", Node: vname}
	ev := gen.Event{Name: "c16ev", Node: vname}
	big := strings.Repeat("compress me ", 400)
	err = runOn(R, rpid, 30*time.Second, func(p *cmdActor) error {
		p.Send(ls.sinkPID, "to pid")
		p.Send(sinkName, map[string]any{"k": []int{1, 2, 3}})
		p.Send(ls.sinkAlias, NStruct{A: 1, B: "x"})
		p.SendWithPriority(ls.sinkPID, 12345, gen.MessagePriorityHigh)
		p.SendImportant(ls.sinkPID, "important")
		p.Call(ls.sinkPID, "call pid")
		p.Call(sinkName, gen.Atom("c16atom"))
		p.Call(ls.sinkAlias, []any{1, "a"})
		p.CallImportant(ls.sinkPID, "call important")
		p.LinkPID(ls.sinkPID)
		p.UnlinkPID(ls.sinkPID)
		p.LinkProcessID(sinkName)
		p.UnlinkProcessID(sinkName)
		p.LinkAlias(ls.sinkAlias)
		p.UnlinkAlias(ls.sinkAlias)
		p.MonitorPID(ls.sinkPID)
		p.DemonitorPID(ls.sinkPID)
		p.MonitorProcessID(sinkName)
		p.DemonitorProcessID(sinkName)
		p.MonitorAlias(ls.sinkAlias)
		p.DemonitorAlias(ls.sinkAlias)
		p.LinkEvent(ev)
		p.UnlinkEvent(ev)
		p.MonitorEvent(ev)
		p.MonitorPID(victim)
		p.SendExit(victim, errors.New("c16 exit"))
		p.RemoteSpawn(vname, "c16dummy", gen.ProcessOptions{}, 1, "arg")
		p.RegisterEvent("c16rev", gen.EventOptions{})
		for _, ct := range []gen.CompressionType{gen.CompressionTypeGZIP, gen.CompressionTypeLZW, gen.CompressionTypeZLIB} {
			p.SetCompression(true)
			p.SetCompressionType(ct)
			p.SetCompressionThreshold(128)
			p.Send(ls.sinkPID, big)
		}
		p.SetCompression(false)
		return nil
	})
	if err != nil {
		return fmt.Errorf("record script: %w", err)
	}
	// V -> R traffic: event message, link/monitor of an R process and of an R event, then R's process ends
	sinkDo(func(s *sink) {
		s.SendEvent("c16ev", ls.evToken, "event payload")
		s.Send(rpid, "v to r")
	})
	// links and monitors towards R live in a helper process: when R goes away the linked process is
	// terminated by the framework ("no connection" comes from the core, which trap-exit does not cover)
	runOn(env.V, vhelper, 10*time.Second, func(p *cmdActor) error {
		p.LinkPID(rpid)
		p.MonitorPID(rpid)
		p.MonitorEvent(gen.Event{Name: "c16rev", Node: R.Name()})
		return nil
	})
	runOn(R, rpid, 10*time.Second, func(p *cmdActor) error {
		p.SendEvent("c16rev", gen.Ref{}, "x")
		p.UnregisterEvent("c16rev")
		p.Send(ls.sinkPID, "last")
		return nil
	})
	R.Kill(rpid) // -> terminate frames R -> V for the link and the monitor
	// quiescence: the last message and the terminate notifications have reached the sink
	hk.WaitUntil(5*time.Second, func() bool {
		t.mu.Lock()
		defer t.mu.Unlock()
		return bytes.Contains(t.c2s, []byte{78, 1, 0, 0}) && ls.other.Load() > 8
	})
	time.Sleep(50 * time.Millisecond) // let trailing frames pass the tap (recording only, no verdict depends on it)
	t.mu.Lock()
	c2s, s2c := cp(t.c2s), cp(t.s2c)
	t.mu.Unlock()
	R.Stop()
	seen := map[string]int{}
	for _, f := range append(splitStream(c2s), splitStream(s2c)...) {
		name := frameTypeName[f[7]]
		if name == "" {
			name = fmt.Sprintf("type%d", f[7])
		}
		if f[7] == 200 && len(f) > 8 {
			name += fmt.Sprintf("/%d", f[8])
		}
		seen[name]++
		if seen[name] > 3 && f[7] != 199 || seen[name] > 14 {
			continue // a few of each kind are enough (type Any carries link/monitor/spawn/result messages: keep more)
		}
		env.frames = append(env.frames, f)
		env.frameDesc = append(env.frameDesc, name)
	}
	if len(env.frames) < 10 {
		return fmt.Errorf("recorded only %d frames", len(env.frames))
	}
	// wait until V has dropped the recorder connection
	hk.WaitUntil(5*time.Second, func() bool {
		_, err := env.V.Network().Node(R.Name())
		return err != nil
	})
	return nil
}

// attacker link ---------------------------------------------------------------------------------------

func dialEvil() (*evilLink, error) {
	env.evilSeq++
	name := gen.Atom(fmt.Sprintf("evil%d@localhost", env.evilSeq))
	conn, err := net.DialTimeout("tcp", fmt.Sprintf("127.0.0.1:%d", env.V.Port), 5*time.Second)
	if err != nil {
		return nil, err
	}
	hs := handshake.Create(handshake.Options{PoolSize: 1})
	res, err := hs.Start(stubNode{name: name, creation: time.Now().Unix()}, conn, gen.HandshakeOptions{Cookie: "c16-live-cookie", Flags: gen.NetworkFlags{Enable: true, EnableRemoteSpawn: true, EnableImportantDelivery: true}})
	if err != nil {
		conn.Close()
		return nil, fmt.Errorf("handshake with V: %w", err)
	}
	conn.SetDeadline(time.Time{})
	l := &evilLink{conn: conn, name: name, id: res.ConnectionID, closed: make(chan struct{})}
	go func() {
		io.Copy(io.Discard, conn)
		close(l.closed)
	}()
	return l, nil
}

func (l *evilLink) isClosed() bool {
	select {
	case <-l.closed:
		return true
	default:
		return false
	}
}

func markerFrame(order byte, text string) []byte {
	b := lib.TakeBuffer()
	defer lib.ReleaseBuffer(b)
	b.Allocate(33)
	for i := range b.B {
		b.B[i] = 0
	}
	b.B[0], b.B[1], b.B[6], b.B[7] = 78, 1, order, 101
	binary.BigEndian.PutUint64(b.B[8:16], 4242)
	binary.BigEndian.PutUint64(b.B[25:33], ls.sinkPID.ID)
	edf.Encode(text, b, edf.Options{})
	binary.BigEndian.PutUint32(b.B[2:6], uint32(b.Len()))
	return cp(b.B)
}

// pidFrame: a MessagePID frame to the sink with the given (hostile) EDF payload
func pidFrame(order byte, payload []byte) []byte {
	b := make([]byte, 33, 33+len(payload))
	b[0], b[1], b[6], b[7] = 78, 1, order, 101
	binary.BigEndian.PutUint64(b[8:16], 4242)
	binary.BigEndian.PutUint64(b[25:33], ls.sinkPID.ID)
	b = append(b, payload...)
	binary.BigEndian.PutUint32(b[2:6], uint32(len(b)))
	return b
}

func anyFrame(order byte, payload []byte) []byte {
	b := []byte{78, 1, 0, 0, 0, 0, order, 199}
	b = append(b, payload...)
	binary.BigEndian.PutUint32(b[2:6], uint32(len(b)))
	return b
}

func fixLen(f []byte) []byte {
	if len(f) >= 6 {
		binary.BigEndian.PutUint32(f[2:6], uint32(len(f)))
	}
	return f
}

// framing as V's reader sees it: in sync after these bytes? missing = bytes a last, incomplete frame still wants
func framing(data []byte) (inSync bool, missing int, lenLt8 bool) {
	pos := 0
	for {
		if pos == len(data) {
			return true, 0, false
		}
		if len(data)-pos < 8 {
			return false, 8 - (len(data) - pos), false
		}
		l := int(binary.BigEndian.Uint32(data[pos+2 : pos+6]))
		if l < 8 {
			return false, 0, true
		}
		if pos+l > len(data) {
			return false, pos + l - len(data), false
		}
		pos += l
	}
}

// largest declared frame length in a byte string that is a sequence of whole frames
func maxDeclared(data []byte) int {
	pos, m := 0, 0
	for pos+8 <= len(data) {
		l := int(binary.BigEndian.Uint32(data[pos+2 : pos+6]))
		if l > m {
			m = l
		}
		if l < 8 {
			break
		}
		pos += l
	}
	return m
}

// frame mutation classes --------------------------------------------------------------------------------

func zEnvelope(ctype byte, declared uint32, compressed []byte, order byte) []byte {
	b := []byte{78, 1, 0, 0, 0, 0, order, 200, ctype}
	b = append(b, be32(declared)...)
	b = append(b, compressed...)
	return fixLen(b)
}

func compressWith(ctype byte, plain []byte) []byte {
	var out bytes.Buffer
	switch ctype {
	case 100: // gzip
		w := gzip.NewWriter(&out)
		w.Write(plain)
		w.Close()
	case 101: // lzw
		w := lzw.NewWriter(&out, lzw.LSB, 8)
		w.Write(plain)
		w.Close()
	default:
		w := zlib.NewWriter(&out)
		w.Write(plain)
		w.Close()
	}
	return out.Bytes()
}

var ctypes []byte

func liveCaseCount(cs caseSpec) int {
	switch cs.Class {
	case "frame-len":
		return 1
	case "trunc-fix":
		n := 0
		for _, f := range env.frames {
			n += len(f) - 8
		}
		return n
	case "type-swap":
		return len(env.frames) * len(frameTypes)
	case "replay":
		return len(env.frames)
	}
	return cs.N
}

var frameTypes = []byte{101, 102, 103, 104, 105, 106, 107, 121, 122, 123, 124, 129, 130, 181, 182, 183, 184, 185, 186, 199, 200, 201, 202, 203, 0, 255}

func liveInput(cs caseSpec, idx int) []byte {
	rng := inputRng(cs.ID, idx)
	pickFrame := func() []byte { return cp(env.frames[rng.Intn(len(env.frames))]) }
	switch cs.Class {
	case "frame-len":
		// a valid frame whose declared length is cs.Item (0..8), the rest of the frame follows as it is
		f := cp(env.frames[0])
		binary.BigEndian.PutUint32(f[2:6], uint32(cs.Item))
		return f
	case "replay":
		return cp(env.frames[idx])
	case "trunc-fix":
		for _, f := range env.frames {
			if idx < len(f)-8 {
				return fixLen(cp(f[:8+idx])) // keep 8..len-1 bytes, length field fixed up
			}
			idx -= len(f) - 8
		}
		return nil
	case "type-swap":
		f := cp(env.frames[idx/len(frameTypes)])
		f[7] = frameTypes[idx%len(frameTypes)]
		return f
	case "order":
		f := pickFrame()
		f[6] = byte(rng.Intn(256))
		return f
	case "body-edits":
		f := pickFrame()
		body := f[8:]
		for i := 0; i < 1+rng.Intn(3); i++ {
			body = randEdit(rng, body)
		}
		return fixLen(append(cp(f[:8]), body...))
	case "header-edits":
		f := pickFrame()
		switch rng.Intn(3) {
		case 0:
			f[0] = byte(rng.Intn(256))
		case 1:
			f[1] = byte(rng.Intn(256))
		default:
			vals := []uint32{8, 9, 10, 17, 18, 25, 26, 29, 30, 33, 34, uint32(len(f) - 1)}
			v := vals[rng.Intn(len(vals))]
			if int(v) <= len(f) {
				f = f[:v]
			}
			binary.BigEndian.PutUint32(f[2:6], v)
		}
		return f
	case "len-over":
		f := pickFrame()
		vals := []uint32{65537, 65536 + 4096, 1 << 17, 1 << 20, 1 << 24, 1 << 31, 0xffffffff, uint32(len(f) + 1), uint32(len(f) + 4096)}
		if cs.Opt == "max64k" {
			vals = vals[:4] // completed with filler bytes: the node must have closed the link before
		}
		binary.BigEndian.PutUint32(f[2:6], vals[rng.Intn(len(vals))])
		return f
	case "payload-pid", "payload-any":
		var pl []byte
		classes := []string{"edits", "bitflip", "splice", "cacheid", "prngtags", "typedesc", "anywrap"}
		pl = randomInput(classes[rng.Intn(len(classes))], rng, corpora["cache"])
		if predictedBomb(pl) {
			pl = []byte{145, 1}
		}
		if cs.Class == "payload-any" {
			return anyFrame(byte(1+rng.Intn(8)), pl)
		}
		return pidFrame(byte(1+rng.Intn(8)), pl)
	case "z-envelope":
		ct := ctypes[rng.Intn(len(ctypes))]
		inner := markerFrame(1, "zz-not-a-marker")
		if rng.Intn(3) == 0 {
			inner = pickFrame()
		}
		comp := compressWith(ct, inner)
		real := uint32(len(inner))
		switch rng.Intn(9) {
		case 0:
			return zEnvelope(ct, real, comp, 1) // valid
		case 1:
			vals := []uint32{0, 1, 7, 8, real - 1, real + 1, real * 2, 1 << 16, 1 << 20, 1 << 24}
			return zEnvelope(ct, vals[rng.Intn(len(vals))], comp, 1) // false size
		case 2:
			return zEnvelope(ct, real, randBytes(rng, rng.Intn(40)), 1) // garbage body
		case 3:
			return zEnvelope(ct, real, comp[:rng.Intn(len(comp))], 1) // truncated body
		case 4:
			return zEnvelope(byte(rng.Intn(256)), real, comp, 1) // unknown type
		case 5:
			// chain of envelopes
			f := inner
			for d := 0; d < 2+rng.Intn(30); d++ {
				c := ctypes[rng.Intn(len(ctypes))]
				f = zEnvelope(c, uint32(len(f)), compressWith(c, f), 1)
			}
			return f
		case 6:
			// envelope around a short / headerless inner frame
			short := inner[:rng.Intn(9)]
			return zEnvelope(ct, uint32(len(short)), compressWith(ct, short), 1)
		case 7:
			b := zEnvelope(ct, real, comp, 1)
			return fixLen(b[:9+rng.Intn(5)]) // envelope shorter than its own header
		default:
			c := cp(comp)
			if len(c) > 0 {
				c[rng.Intn(len(c))] ^= byte(1 << uint(rng.Intn(8)))
			}
			return zEnvelope(ct, real, c, 1)
		}
	case "z-declared-big":
		// declared decompressed size far beyond the data: allocation by declared size
		ct := ctypes[idx%len(ctypes)]
		inner := markerFrame(1, "zz")
		vals := []uint32{1 << 27, 1 << 28, 1 << 30, 1 << 31, 0xffffffff}
		return zEnvelope(ct, vals[(idx/len(ctypes))%len(vals)], compressWith(ct, inner), 1)
	case "multi":
		var b []byte
		for i := 0; i < 2+rng.Intn(4); i++ {
			f := pickFrame()
			if rng.Intn(3) == 0 {
				body := randEdit(rng, f[8:])
				f = fixLen(append(cp(f[:8]), body...))
			}
			b = append(b, f...)
		}
		if rng.Intn(3) == 0 {
			b = b[:len(b)-rng.Intn(12)%len(b)]
		}
		return b
	case "join":
		// frames sent on the joined socket before the markers: nothing, a valid frame, or a hostile one
		switch {
		case idx == 0:
			return markerFrame(1, "zz-not-a-marker")
		case idx%3 == 1:
			return pickFrame()
		case idx%3 == 2:
			f := pickFrame()
			body := randEdit(rng, f[8:])
			return fixLen(append(cp(f[:8]), body...))
		default:
			b := randBytes(rng, 8+rng.Intn(40))
			b[0], b[1] = 78, 1
			return fixLen(b)
		}
	case "prng":
		n := 8 + rng.Intn(60)
		b := randBytes(rng, n)
		b[0], b[1] = 78, 1
		if rng.Intn(4) > 0 {
			fixLen(b)
		}
		if rng.Intn(2) == 0 {
			b[7] = frameTypes[rng.Intn(len(frameTypes))]
		}
		return b
	}
	return nil
}

// authenticated JOIN exchanges --------------------------------------------------------------------------------

var joinVariants = []string{"unknown-id", "closed-id", "other-peers-live-id", "own-live-id"}

// dialJoin performs a well-formed Join handshake (correct cookie digest) under the given peer name and connection id
func dialJoin(name gen.Atom, id string) (*evilLink, error) {
	conn, err := net.DialTimeout("tcp", fmt.Sprintf("127.0.0.1:%d", env.V.Port), 5*time.Second)
	if err != nil {
		return nil, err
	}
	hs := handshake.Create(handshake.Options{PoolSize: 1})
	if _, err := hs.Join(stubNode{name: name, creation: time.Now().Unix()}, conn, id, gen.HandshakeOptions{Cookie: "c16-live-cookie"}); err != nil {
		conn.Close()
		return nil, err
	}
	conn.SetDeadline(time.Time{})
	l := &evilLink{conn: conn, name: name, id: id, closed: make(chan struct{})}
	go func() {
		io.Copy(io.Discard, conn)
		close(l.closed)
	}()
	return l, nil
}

// liveJoinOne: a socket is joined to the node with an authenticated Join handshake naming a connection id the
// node does not have / had / has for another peer / has for this peer, then valid and hostile frames follow on
// that socket. Whether the node accepts the extra link is not judged here (C15), only what the frames do to it.
func liveJoinOne(ci int, cs caseSpec, idx int, data []byte, a *agg) {
	variant := joinVariants[cs.Item]
	mk := func(sig, what string, detail any) {
		violation(vrec{Case: cs.ID, Idx: idx, Sig: sig, What: what, Hex: hexOf(data), Len: len(data), Detail: detail, Raw: data})
	}
	ensureBase := func() bool {
		if env.link != nil && !env.link.isClosed() {
			return true
		}
		l, err := dialEvil()
		for try := 0; err != nil && try < 3; try++ {
			l, err = dialEvil()
		}
		if err != nil {
			return false
		}
		env.link = l
		return true
	}
	var name gen.Atom
	var id string
	base := false // a Start-established connection of the attacker that must survive (variant other-peers-live-id)
	env.evilSeq++
	switch variant {
	case "unknown-id":
		name, id = gen.Atom(fmt.Sprintf("eviljoin%d@localhost", env.evilSeq)), lib.RandomString(32)
	case "closed-id":
		l, err := dialEvil()
		if err != nil {
			a.add("trivial: no link", false, 0)
			a.extra["watchdog"]++
			return
		}
		name, id = l.name, l.id
		l.conn.Close()
		<-l.closed
		hk.WaitUntil(5*time.Second, func() bool { _, err := env.V.Network().Node(name); return err != nil })
	case "other-peers-live-id":
		if !ensureBase() {
			a.add("trivial: no link", false, 0)
			a.extra["watchdog"]++
			return
		}
		base = true
		name, id = gen.Atom(fmt.Sprintf("eviljoin%d@localhost", env.evilSeq)), env.link.id
	case "own-live-id":
		if !ensureBase() {
			a.add("trivial: no link", false, 0)
			a.extra["watchdog"]++
			return
		}
		name, id = env.link.name, env.link.id
	}
	drainMarkers()
	panics0 := env.V.Cap.Panics.Load()
	downs0 := ls.downs.Load()
	progress(ci, idx, data)
	info := &callInfo{caseIdx: ci, caseID: cs.ID, idx: idx, data: data, marker: "proto.(*connection)"}
	beginCall(info)
	a0 := totalAlloc()
	class := ""
	incon := ""
	jl, jerr := dialJoin(name, id)
	if jerr != nil {
		class = "join handshake refused"
	} else {
		jl.conn.SetWriteDeadline(time.Now().Add(10 * time.Second))
		markerSeq++
		want := map[string]bool{}
		out := cp(data)
		for q := 1; q <= env.queues; q++ {
			m := fmt.Sprintf("%s%d-%d", markerPrefix, markerSeq, q)
			want[m] = true
			out = append(out, markerFrame(byte(q), m)...)
		}
		jl.conn.Write(out)
		deadline := time.After(20 * time.Second)
	wait:
		for len(want) > 0 {
			select {
			case m := <-ls.markers:
				delete(want, m)
			case <-jl.closed:
				class = "joined socket closed by the node"
				break wait
			case <-deadline:
				incon = "watchdog: neither the markers arrived nor the joined socket was closed"
				break wait
			}
		}
		if class == "" && incon == "" {
			class = "join accepted, frames consumed"
		}
		jl.conn.Close()
	}
	allocd := totalAlloc() - a0
	defer endCall()
	if env.V.Cap.Panics.Load() > panics0 {
		a.extra["recovered_panics"] += env.V.Cap.Panics.Load() - panics0
		class += " (panic recovered in the receive handler)"
	}
	events := int64(2)
	herr := canaryCall()
	downs := ls.downs.Load() - downs0
	_, lerr := env.V.Network().Node(env.L.Name())
	switch {
	case downs > 0 || lerr != nil:
		mk("unrelated-connection-dropped", fmt.Sprintf("after a Join (%s) and frames on the joined socket the node reported the legitimate node down (%d down events, lookup error %v)", variant, downs, lerr), nil)
	case base && env.link.isClosed():
		mk("unrelated-connection-dropped", fmt.Sprintf("a Join under another peer name naming the live connection id of peer %s, followed by frames, closed that peer's connection", env.link.name), nil)
	case herr != nil && herr != errWatchdog && !errors.Is(herr, gen.ErrTimeout):
		mk("canary-call-failed", fmt.Sprintf("a call to the canary over the legitimate connection failed after Join (%s) and frames: %v", variant, herr), nil)
	case herr != nil:
		incon = "watchdog: canary call timed out"
	}
	if allocd > allocBound(len(data)) {
		site, stack := allocSiteSince()
		mk("alloc-amplification/"+site, fmt.Sprintf("Join (%s) plus %d hostile bytes allocated %d bytes in the node process (bound %d)", variant, len(data), allocd, allocBound(len(data))), map[string]any{"alloc_stack": stack})
		a.add(class+" ALLOC OUT OF PROPORTION", true, events)
		leaveAfterExpensive(cs.ID, a)
	}
	if incon != "" {
		a.extra["watchdog"]++
		a.add("trivial: "+incon, false, events)
		return
	}
	if a.sample == nil {
		a.sample = map[string]any{"idx": idx, "variant": variant, "hex": trunc(hexOf(data), 160), "outcome": class}
	}
	a.add(class, true, events)
}

// one input ----------------------------------------------------------------------------------------------

var markerSeq int

func drainMarkers() {
	for {
		select {
		case <-ls.markers:
		default:
			return
		}
	}
}

type liveOutcome struct {
	class      string
	nontrivial bool
	incon      string
}

func liveOne(ci int, cs caseSpec, idx int, data []byte, a *agg) {
	mk := func(sig, what string, detail any) {
		violation(vrec{Case: cs.ID, Idx: idx, Sig: sig, What: what, Hex: hexOf(data), Len: len(data), Detail: detail, Raw: data})
	}
	if env.link == nil || env.link.isClosed() {
		l, err := dialEvil()
		for try := 0; err != nil && try < 3; try++ {
			l, err = dialEvil() // 1 s handshake deadlines on a loaded machine
		}
		if err != nil {
			// V does not accept an authenticated connection any more?
			if herr := canaryCall(); herr != nil {
				mk("node-unreachable-after-hostile-frames", fmt.Sprintf("cannot establish a new authenticated link to the node (%v) and the canary call over the legitimate connection fails (%v)", err, herr), nil)
			}
			a.add("trivial: no link", false, 0)
			a.extra["watchdog"]++
			return
		}
		env.link = l
	}
	link := env.link
	drainMarkers()
	panics0 := env.V.Cap.Panics.Load()
	downs0 := ls.downs.Load()
	progress(ci, idx, data)
	info := &callInfo{caseIdx: ci, caseID: cs.ID, idx: idx, data: data, marker: "handleRecvQueue"}
	beginCall(info)
	a0 := totalAlloc()
	link.conn.SetWriteDeadline(time.Now().Add(10 * time.Second))
	_, werr := link.conn.Write(data)
	inSync, missing, lt8 := framing(data)
	class := ""
	incon := ""
	waitMarkers := func() {
		markerSeq++
		want := map[string]bool{}
		var out []byte
		for q := 1; q <= env.queues; q++ {
			m := fmt.Sprintf("%s%d-%d", markerPrefix, markerSeq, q)
			want[m] = true
			out = append(out, markerFrame(byte(q), m)...)
		}
		link.conn.Write(out)
		deadline := time.After(20 * time.Second)
		for len(want) > 0 {
			select {
			case m := <-ls.markers:
				delete(want, m)
			case <-link.closed:
				class = "link closed by the node"
				return
			case <-deadline:
				incon = "watchdog: neither the markers arrived nor the link was closed"
				return
			}
		}
		class = "frame consumed, link alive"
	}
	switch {
	case werr != nil:
		class = "link closed by the node"
	case lt8:
		// declared frame length below the header size: no framing rule says where the next frame starts;
		// wait for whatever the node does (it must stay alive), then drop the link
		waitMarkers()
		if incon != "" {
			incon = ""
			class = "declared length < 8: node keeps the link, no progress"
		}
		link.conn.Close()
		<-link.closed
	case inSync:
		waitMarkers()
	case missing <= 1<<20:
		link.conn.Write(make([]byte, missing))
		waitMarkers()
		if class == "frame consumed, link alive" {
			class = "frame completed with filler consumed, link alive"
		}
	default:
		// the node waits for a huge frame body: end the link from our side
		link.conn.Close()
		<-link.closed
		class = "node waits for declared body; link closed by the peer"
	}
	allocd := totalAlloc() - a0
	defer endCall() // the CPU watchdog also covers the health checks: a node that spins after the input is caught there
	if cs.Opt == "max64k" && strings.Contains(class, "link alive") && maxDeclared(data) > 65536 {
		mk("max-message-size-not-enforced", fmt.Sprintf("the node runs with MaxMessageSize=65536, a frame declaring %d bytes was completed and consumed, the link stayed alive", maxDeclared(data)), nil)
	}
	if env.V.Cap.Panics.Load() > panics0 {
		a.extra["recovered_panics"] += env.V.Cap.Panics.Load() - panics0
		class += " (panic recovered in the receive handler)"
	}
	// health: canary over the legitimate connection, L never went down, process alive (we are still here)
	events := int64(1)
	herr := canaryCall()
	events++
	downs := ls.downs.Load() - downs0
	_, lerr := env.V.Network().Node(env.L.Name())
	switch {
	case downs > 0 || lerr != nil:
		mk("unrelated-connection-dropped", fmt.Sprintf("after the hostile frame the node reported the legitimate node down (%d down events, lookup error %v)", downs, lerr), nil)
	case herr != nil && herr != errWatchdog && !errors.Is(herr, gen.ErrTimeout):
		mk("canary-call-failed", fmt.Sprintf("a call to the canary over the legitimate connection failed after the hostile frame: %v", herr), nil)
	case herr != nil:
		incon = "watchdog: canary call timed out"
	}
	if allocd > allocBound(len(data)) {
		// attribute: the stack that allocated most since the baseline; then, for precision, the same bytes once more
		// on a fresh link against a fresh baseline (used if they allocate out of proportion again)
		site, stack := allocSiteSince() // since the periodic baseline; resets the baseline
		if inSync {
			b0 := totalAlloc()
			resendForSite(data)
			if totalAlloc()-b0 > allocBound(len(data)) {
				site, stack = allocSiteSince()
			}
		}
		mk("alloc-amplification/"+site, fmt.Sprintf("handling %d hostile bytes allocated %d bytes in the node process (bound %d = 64MiB + 4096 x input)", len(data), allocd, allocBound(len(data))), map[string]any{"alloc_stack": stack})
		a.add(class+" ALLOC OUT OF PROPORTION", true, events)
		leaveAfterExpensive(cs.ID, a)
	}
	a.extra["max_alloc_per_call"] = max64(a.extra["max_alloc_per_call"], int64(allocd))
	if incon != "" {
		a.extra["watchdog"]++
		a.add("trivial: "+incon, false, events)
		if env.link != nil {
			env.link.conn.Close()
		}
		return
	}
	nontrivial := len(data) >= 8
	if a.sample == nil && nontrivial {
		a.sample = map[string]any{"idx": idx, "hex": trunc(hexOf(data), 160), "outcome": class}
	}
	a.add(class, nontrivial, events)
}

// resendForSite delivers the bytes of an input that allocated out of proportion once more and waits until the
// node has processed them (markers on every queue) or closed the link; used only to attribute the allocation
func resendForSite(data []byte) {
	if env.link != nil {
		env.link.conn.Close()
	}
	l, err := dialEvil()
	if err != nil {
		return
	}
	env.link = l
	drainMarkers()
	l.conn.SetWriteDeadline(time.Now().Add(10 * time.Second))
	l.conn.Write(data)
	markerSeq++
	want := map[string]bool{}
	var out []byte
	for q := 1; q <= env.queues; q++ {
		m := fmt.Sprintf("%s%d-%d", markerPrefix, markerSeq, q)
		want[m] = true
		out = append(out, markerFrame(byte(q), m)...)
	}
	l.conn.Write(out)
	deadline := time.After(60 * time.Second)
	for len(want) > 0 {
		select {
		case m := <-ls.markers:
			delete(want, m)
		case <-l.closed:
			return
		case <-deadline:
			return
		}
	}
}

func childLive() {
	setupEDF()
	ctypes = []byte{gen.CompressionTypeGZIP.ID(), gen.CompressionTypeLZW.ID(), gen.CompressionTypeZLIB.ID()}
	cfg := "default"
	if len(spec.Cases) > 0 {
		cfg = spec.Cases[0].Opt
	}
	// the inputs are generated from recorded frames: the recording is logged so that a crash during setup is visible
	err := setupLive(cfg)
	for try := 0; err != nil && try < 2; try++ {
		// a setup failure says nothing about the property; start over with fresh nodes
		fmt.Fprintln(os.Stderr, "live setup failed, retrying:", err)
		if env.V != nil && env.V.Node != nil {
			env.V.Stop()
		}
		if env.L != nil && env.L.Node != nil {
			env.L.Stop()
		}
		env = liveEnv{}
		ls = &liveState{markers: make(chan string, 4096)}
		err = setupLive(cfg)
	}
	if err != nil {
		fmt.Fprintln(os.Stderr, "live setup failed:", err)
		for ci := spec.ResumeCase; ci < len(spec.Cases); ci++ {
			g := newAgg().rec(spec.Cases[ci].ID)
			g.Incon = "setup: " + err.Error()
			writeRec(g)
		}
		return
	}
	profBase = profSnapshot()
	for ci := spec.ResumeCase; ci < len(spec.Cases); ci++ {
		cs := spec.Cases[ci]
		from := 0
		if ci == spec.ResumeCase {
			from = spec.ResumeIdx
		}
		n := liveCaseCount(cs)
		a := newAgg()
		expensive := 0
		if ci == spec.ResumeCase {
			expensive = spec.ResumeExpensive
		}
		for idx := from; idx < n; idx++ {
			if cs.Only >= 0 && idx != cs.Only {
				continue
			}
			data := liveInput(cs, idx)
			if len(data) == 0 {
				continue
			}
			if expensive >= expensiveBudget && cs.Only < 0 {
				a.extra["not_executed_after_expensive_budget"]++
				continue
			}
			if sinceBase++; sinceBase >= 64 {
				profBase, sinceBase = profSnapshot(), 0
			}
			before := a.extra["expensive"]
			if cs.Class == "join" {
				liveJoinOne(ci, cs, idx, data, a)
			} else {
				liveOne(ci, cs, idx, data, a)
			}
			expensive += int(a.extra["expensive"] - before)
		}
		g := a.rec(cs.ID)
		if cs.Class == "replay" {
			for _, d := range env.frameDesc {
				g.Extra["recorded_frames/"+d]++
			}
		}
		writeRec(g)
	}
}

func liveJobs() []job {
	var jobs []job
	m := hk.Pick(1, 10)
	wall := time.Duration(hk.Pick(480, 1500)) * time.Second
	mem := uint64(1536 << 10)
	// declared frame length 0..8: one child each (the suspicion is that the node process dies)
	for l := 0; l <= 8; l++ {
		if !hk.Thorough() && (l == 2 || l == 3 || l == 4 || l == 5) {
			continue
		}
		id := fmt.Sprintf("live/default/frame-len/%d", l)
		if want(id) {
			jobs = append(jobs, job{name: fmt.Sprintf("live-framelen-%d", l), mode: "live", memKB: mem, wall: wall, procs: 4,
				cases: []caseSpec{{ID: id, Target: "live", Opt: "default", Class: "frame-len", Item: l, Only: -1}}})
		}
	}
	type cl struct {
		name string
		n    int
	}
	for _, cfg := range []string{"default", "max64k"} {
		classes := []cl{{"replay", 0}, {"trunc-fix", 0}, {"type-swap", 0}, {"order", 60 * m}, {"body-edits", 500 * m}, {"header-edits", 150 * m}, {"len-over", 40 * m},
			{"payload-pid", 400 * m}, {"payload-any", 400 * m}, {"z-envelope", 400 * m}, {"multi", 150 * m}, {"prng", 150 * m}}
		if cfg == "max64k" {
			classes = []cl{{"replay", 0}, {"len-over", 60 * m}, {"header-edits", 60 * m}, {"z-envelope", 100 * m}, {"multi", 60 * m}}
		}
		var cases []caseSpec
		for _, c := range classes {
			id := fmt.Sprintf("live/%s/%s", cfg, c.name)
			if want(id) {
				cases = append(cases, caseSpec{ID: id, Target: "live", Opt: cfg, Class: c.name, N: c.n, Only: onlyIdx(id)})
			}
		}
		if len(cases) == 0 {
			continue
		}
		// two children per configuration
		half := (len(cases) + 1) / 2
		if cfg == "max64k" || len(cases) < 4 {
			half = len(cases)
		}
		jobs = append(jobs, job{name: "live-" + cfg + "-a", mode: "live", memKB: mem, wall: wall, procs: 4, cases: cases[:half]})
		if half < len(cases) {
			jobs = append(jobs, job{name: "live-" + cfg + "-b", mode: "live", memKB: mem, wall: wall, procs: 4, cases: cases[half:]})
		}
	}
	// authenticated Join handshakes followed by frames
	var jc []caseSpec
	for vi, v := range joinVariants {
		id := "live/default/join/" + v
		if want(id) {
			jc = append(jc, caseSpec{ID: id, Target: "live", Opt: "default", Class: "join", Item: vi, N: 12 * m, Only: onlyIdx(id)})
		}
	}
	if len(jc) > 0 {
		jobs = append(jobs, job{name: "live-join", mode: "live", memKB: mem, wall: wall, procs: 4, cases: jc})
	}
	// declared decompressed size: each input may end the child
	id := "live/default/z-declared-big"
	if want(id) {
		jobs = append(jobs, job{name: "live-zbig", mode: "live", memKB: mem, wall: wall, procs: 4,
			cases: []caseSpec{{ID: id, Target: "live", Opt: "default", Class: "z-declared-big", N: hk.Pick(6, 15), Only: onlyIdx(id)}}})
	}
	return jobs
}

var _ = rand.Int
