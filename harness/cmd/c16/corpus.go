package main

// Corpus of valid values and their valid EDF encodings; harness-registered
// named types (slice / map / array / struct / marshaler); decode/encode option
// sets (with and without caches); structural value equality for the
// re-encode oracle.

import (
	"errors"
	"fmt"
	"io"
	"math"
	"os"
	"reflect"
	"sort"
	"strings"
	"sync"
	"time"

	"ergo.services/ergo/gen"
	"ergo.services/ergo/lib"
	"ergo.services/ergo/net/edf"
	"ergo.services/ergo/net/handshake"
	"ergo.services/ergo/net/proto"
)

// harness-registered named types
type NInt int64
type NStr string
type NBool bool
type NF64 float64
type NSlice []int32
type NStrs []string
type NAnys []any
type NMap map[string]int16
type NMapAny map[uint8]any
type NArr [4]uint16
type NArr0 [0]uint8
type NEmpty struct{}
type NEmpties []NEmpty
type NStruct struct {
	A int
	B string
	C []byte
	D NSlice
	E NMap
	F NArr
	G any
	H error
	I gen.PID
	J time.Time
	K []any
	L map[gen.Atom]float64
	M gen.Atom
}
type NNested struct {
	X NStruct
	Y []NStruct
	Z map[string]NStruct
	W NMapAny
}

// custom marshalers
type NMarsh struct {
	V []byte
	N uint32
}

func (m NMarsh) MarshalEDF(w io.Writer) error {
	var b [4]byte
	b[0], b[1], b[2], b[3] = byte(m.N>>24), byte(m.N>>16), byte(m.N>>8), byte(m.N)
	w.Write(b[:])
	w.Write(m.V)
	return nil
}
func (m *NMarsh) UnmarshalEDF(b []byte) error {
	if len(b) < 4 {
		return fmt.Errorf("NMarsh: short")
	}
	m.N = uint32(b[0])<<24 | uint32(b[1])<<16 | uint32(b[2])<<8 | uint32(b[3])
	m.V = append([]byte{}, b[4:]...)
	return nil
}

type NBin struct {
	S string
}

func (m NBin) MarshalBinary() ([]byte, error) { return []byte(m.S), nil }
func (m *NBin) UnmarshalBinary(b []byte) error {
	m.S = string(b)
	return nil
}

var errCustom = errors.New("c16 custom registered error")

func registerTypes() {
	for _, t := range []any{
		NInt(0), NStr(""), NBool(false), NF64(0), NSlice{}, NStrs{}, NAnys{}, NMap{}, NMapAny{}, NArr{}, NArr0{}, NEmpty{}, NEmpties{},
		NStruct{}, NNested{}, NMarsh{}, NBin{},
	} {
		if err := edf.RegisterTypeOf(t); err != nil && err != gen.ErrTaken {
			panic(fmt.Sprintf("register %T: %v", t, err))
		}
	}
	edf.RegisterError(errCustom)
	for _, a := range []gen.Atom{"c16atom", "victim@localhost", "a_rather_long_cached_atom_value_for_c16"} {
		edf.RegisterAtom(a)
	}
	// make sure the packages whose init() registers message types are linked in, as in a real node
	_ = handshake.MessageHello{}
	_ = proto.MessageResult{}
}

// option sets -----------------------------------------------------------------

type optset struct {
	name string
	enc  edf.Options
	dec  edf.Options
}

func makeOptsets() []optset {
	plain := optset{name: "plain"}
	cached := optset{name: "cache"}
	// the same construction as net/handshake does from the Introduce messages
	atoms := edf.GetAtomCache()
	regs := edf.GetRegCache()
	errs := edf.GetErrCache()
	cached.enc.AtomCache = new(sync.Map)
	cached.dec.AtomCache = new(sync.Map)
	for id, a := range atoms {
		cached.enc.AtomCache.Store(a, id)
		cached.dec.AtomCache.Store(id, a)
	}
	var names []string
	cached.dec.RegCache = new(sync.Map)
	for id, n := range regs {
		names = append(names, n)
		cached.dec.RegCache.Store(id, n)
	}
	cached.enc.RegCache = edf.MakeEncodeRegTypeCache(names)
	cached.enc.ErrCache = new(sync.Map)
	cached.dec.ErrCache = new(sync.Map)
	for id, e := range errs {
		cached.enc.ErrCache.Store(e, id)
		cached.dec.ErrCache.Store(id, e)
	}
	cached.enc.Cache = new(sync.Map)
	cached.dec.Cache = new(sync.Map)
	return []optset{plain, cached}
}

// values ------------------------------------------------------------------------

func validValues() []any {
	pid := gen.PID{Node: "victim@localhost", ID: 1001, Creation: 1700000000}
	pid2 := gen.PID{Node: "other@host", ID: math.MaxUint64, Creation: -1}
	ref := gen.Ref{Node: "c16atom", Creation: 77, ID: [3]uint64{1, 2, 3}}
	alias := gen.Alias{Node: "victim@localhost", Creation: 78, ID: [3]uint64{9, 8, 7}}
	tm := time.Date(2024, 5, 17, 13, 14, 15, 123456789, time.UTC)
	tmz := time.Date(1999, 12, 31, 23, 59, 59, 0, time.FixedZone("X", 3*3600+1800))
	ns := NStruct{A: -5, B: "bee", C: []byte{1, 2, 3}, D: NSlice{1, -2, 3}, E: NMap{"k": 1, "l": -2}, F: NArr{1, 2, 3, 4},
		G: int16(7), H: errors.New("plain error"), I: pid, J: tm, K: []any{"x", 1, nil, 2.5, true}, L: map[gen.Atom]float64{"c16atom": 1.5}, M: "c16atom"}
	ns2 := NStruct{G: []string{"in", "any"}, H: gen.ErrTimeout, K: []any{}, M: "uncached_atom"}
	long := strings.Repeat("abcdefghij", 26)
	vals := []any{
		true, false,
		int(-1), int(math.MaxInt64), int8(-128), int16(-300), int32(1 << 30), int64(math.MinInt64),
		uint(7), uint8(255), uint16(65535), uint32(math.MaxUint32), uint64(math.MaxUint64),
		float32(1.5), float32(math.Inf(-1)), float64(math.Pi), math.NaN(), math.Inf(1),
		"", "hello", long,
		[]byte{}, []byte{0, 255, 1, 254}, []byte(long[:40]),
		gen.Atom(""), gen.Atom("c16atom"), gen.Atom("some_uncached_atom"), gen.Atom(strings.Repeat("a", 255)),
		pid, pid2, gen.ProcessID{Name: "canary", Node: "victim@localhost"}, ref, alias, gen.Event{Name: "ev", Node: "c16atom"},
		tm, tmz, time.Time{},
		errors.New("plain error"), gen.ErrTimeout, gen.TerminateReasonNormal, errCustom, fmt.Errorf("wrapped: %w", gen.ErrTaken),
		[]int{1, 2, 3}, []int{}, []string{"a", "", "ccc"}, []any{1, "two", 3.0, nil, []any{int8(4), []byte{5}}, map[string]any{"k": uint16(6)}},
		[]float64{math.NaN(), 1}, [][]uint8{{1}, {}, {2, 3}}, []error{errors.New("e1"), nil, gen.ErrUnknown},
		[]gen.PID{pid, pid2}, []gen.Atom{"c16atom", "zz"}, []time.Time{tm},
		map[string]int{"a": 1, "b": 2}, map[int][]string{1: {"x"}, 2: nil}, map[string]any{"n": nil, "s": "v", "m": map[uint8]bool{1: true}},
		map[gen.Atom]gen.PID{"c16atom": pid}, map[uint16]gen.Atom{300: "c16atom"}, map[uint16]error{40000: gen.ErrTimeout}, map[bool]float32{true: 1},
		[3]int{1, 2, 3}, [2][2]uint8{{1, 2}, {3, 4}}, [0]string{}, [2]any{"a", 1}, [1]map[string]int{{"z": 26}}, [2][]int16{{1}, nil},
		NInt(-9), NStr("named"), NBool(true), NF64(2.25), NSlice{5, 6}, NSlice{}, NStrs{"q", "r"}, NAnys{1, "s", NInt(3), nil}, NMap{"x": 1}, NMap{},
		NMapAny{1: "one", 2: NSlice{2}, 3: nil}, NArr{9, 8, 7, 6}, NArr0{}, NEmpty{}, NEmpties{},
		ns, ns2, NNested{X: ns, Y: []NStruct{ns2, ns}, Z: map[string]NStruct{"one": ns2}, W: NMapAny{7: ns2}},
		[]NStruct{ns, ns2}, map[NStr]NStruct{"k": ns2}, []NMarsh{{V: []byte("abc"), N: 7}},
		NMarsh{V: []byte{1, 2, 3, 4, 5}, N: 0xdeadbeef}, NMarsh{}, NBin{S: "binary marshaler"}, NBin{},
		// framework types as they travel between nodes
		gen.Version{Name: "n", Release: "r", License: "l"},
		gen.NetworkFlags{Enable: true, EnableRemoteSpawn: true, EnableImportantDelivery: true},
		gen.MessageEvent{Event: gen.Event{Name: "ev", Node: "victim@localhost"}, Timestamp: 12345, Message: "payload"},
		gen.ProcessOptionsExtra{},
		gen.ProcessInfo{PID: pid, Name: "canary", Application: "app", Behavior: "b", Env: map[gen.Env]any{"E": 1}, LinksPID: []gen.PID{pid2}, Aliases: []gen.Alias{alias}},
		gen.Compression{Enable: true, Type: gen.CompressionTypeGZIP, Level: gen.CompressionBestSize, Threshold: 1024},
		gen.MessagePriority(1), gen.LogLevel(2), gen.Env("ENVNAME"),
		handshake.MessageHello{Salt: "salt", Digest: "digest"},
		handshake.MessageJoin{Node: "evil@localhost", ConnectionID: "id", Salt: "s", Digest: "d"},
		handshake.MessageIntroduce{Node: "evil@localhost", Version: gen.Version{Name: "x"}, Flags: gen.NetworkFlags{Enable: true}, Creation: 5, MaxMessageSize: 0,
			AtomCache: map[uint16]gen.Atom{300: "c16atom"}, RegCache: map[uint16]string{5000: "#pkg/T"}, ErrCache: map[uint16]error{40000: gen.ErrTimeout}, Digest: "dd"},
		handshake.MessageAccept{ID: "cid", PoolSize: 3, PoolDSN: []string{"127.0.0.1:1", "127.0.0.1:2"}, Digest: "x"},
		proto.MessageLinkPID{Source: pid2, Target: pid, Ref: ref},
		proto.MessageMonitorEvent{Source: pid2, Target: gen.Event{Name: "ev", Node: "victim@localhost"}, Ref: ref},
		proto.MessageSpawn{Name: "factory", Options: gen.ProcessOptionsExtra{ParentPID: pid2, Args: []any{1, "a"}}, Ref: ref},
		proto.MessageResult{Error: gen.ErrProcessUnknown, Result: []gen.MessageEvent{{Message: 1}}, Ref: ref},
		proto.MessageResult{Result: pid, Ref: ref},
		proto.MessageUpdateCache{AtomCache: map[uint16]gen.Atom{301: "zz"}, AtomMapping: map[gen.Atom]gen.Atom{"a": "b"}, RegCache: map[uint16]string{1: "x"}, ErrCache: map[uint16]error{2: gen.ErrTaken}, Ref: ref},
	}
	return vals
}

type citem struct {
	idx  int
	desc string
	val  any
	enc  []byte
}

// buildCorpus encodes all valid values under the option set; values that the
// encoder refuses are skipped (C11 is about them, not C16)
func buildCorpus(o optset) []citem {
	var items []citem
	for i, v := range validValues() {
		b := lib.TakeBuffer()
		err := edf.Encode(v, b, o.enc)
		if err != nil && os.Getenv("C16_PLAN") != "" {
			fmt.Fprintf(os.Stderr, "corpus: %s: value %d (%T) not encodable: %v\n", o.name, i, v, err)
		}
		if err == nil {
			items = append(items, citem{idx: i, desc: fmt.Sprintf("%T", v), val: v, enc: append([]byte{}, b.B...)})
		}
		lib.ReleaseBuffer(b)
	}
	return items
}

// structural equality -----------------------------------------------------------

var errorIface = reflect.TypeOf((*error)(nil)).Elem()
var timeType = reflect.TypeOf(time.Time{})

// sameValue: equality of decoded values as the property means it: same dynamic
// type, same content; floats by bits (NaN == NaN), errors by text (identity is
// not claimed over the wire), nil and empty slices/maps are not distinguished,
// time.Time by instant and zone offset.
func sameValue(a, b any) (bool, string) {
	return eqv(reflect.ValueOf(a), reflect.ValueOf(b), "v")
}

func eqv(a, b reflect.Value, path string) (bool, string) {
	if a.IsValid() != b.IsValid() {
		return false, path + ": nil vs non-nil"
	}
	if !a.IsValid() {
		return true, ""
	}
	if a.Type() != b.Type() {
		return false, fmt.Sprintf("%s: type %v vs %v", path, a.Type(), b.Type())
	}
	t := a.Type()
	if t.Implements(errorIface) && (a.Kind() == reflect.Interface || a.Kind() == reflect.Pointer) {
		an, bn := a.IsNil(), b.IsNil()
		if an != bn {
			return false, path + ": nil error vs error"
		}
		if an {
			return true, ""
		}
		ea, eb := a.Interface().(error).Error(), b.Interface().(error).Error()
		if ea != eb {
			return false, fmt.Sprintf("%s: error text %q vs %q", path, trunc(ea, 80), trunc(eb, 80))
		}
		return true, ""
	}
	if t == timeType {
		ta, tb := a.Interface().(time.Time), b.Interface().(time.Time)
		_, oa := ta.Zone()
		_, ob := tb.Zone()
		if !ta.Equal(tb) || oa != ob {
			return false, fmt.Sprintf("%s: time %v vs %v", path, ta, tb)
		}
		return true, ""
	}
	switch a.Kind() {
	case reflect.Float32, reflect.Float64:
		if math.Float64bits(a.Float()) != math.Float64bits(b.Float()) {
			return false, fmt.Sprintf("%s: float %v vs %v", path, a.Float(), b.Float())
		}
		return true, ""
	case reflect.Interface, reflect.Pointer:
		if a.IsNil() != b.IsNil() {
			return false, path + ": nil vs non-nil"
		}
		if a.IsNil() {
			return true, ""
		}
		return eqv(a.Elem(), b.Elem(), path)
	case reflect.Struct:
		for i := 0; i < a.NumField(); i++ {
			if ok, why := eqv(a.Field(i), b.Field(i), path+"."+t.Field(i).Name); !ok {
				return false, why
			}
		}
		return true, ""
	case reflect.Slice, reflect.Array:
		if a.Len() != b.Len() {
			return false, fmt.Sprintf("%s: len %d vs %d", path, a.Len(), b.Len())
		}
		if t.Elem().Size() == 0 {
			return true, "" // elements of size zero carry no content (and their number is not bounded by memory)
		}
		if t.Elem().Kind() == reflect.Uint8 && a.Kind() == reflect.Slice {
			if string(a.Bytes()) != string(b.Bytes()) {
				return false, path + ": bytes differ"
			}
			return true, ""
		}
		for i := 0; i < a.Len(); i++ {
			if ok, why := eqv(a.Index(i), b.Index(i), fmt.Sprintf("%s[%d]", path, i)); !ok {
				return false, why
			}
		}
		return true, ""
	case reflect.Map:
		if a.Len() != b.Len() {
			return false, fmt.Sprintf("%s: map len %d vs %d", path, a.Len(), b.Len())
		}
		it := a.MapRange()
		for it.Next() {
			k := it.Key()
			bv := b.MapIndex(k)
			if !bv.IsValid() {
				if k.Interface() != k.Interface() { // NaN-like key: cannot be looked up, skip
					continue
				}
				// keys holding errors/any: look up by structural equality
				found := false
				it2 := b.MapRange()
				for it2.Next() {
					if ok, _ := eqv(k, it2.Key(), path); ok {
						bv = it2.Value()
						found = true
						break
					}
				}
				if !found {
					return false, fmt.Sprintf("%s: key %v missing", path, k)
				}
			}
			if ok, why := eqv(it.Value(), bv, fmt.Sprintf("%s[%v]", path, k)); !ok {
				return false, why
			}
		}
		return true, ""
	case reflect.Bool:
		return a.Bool() == b.Bool(), path + ": bool"
	case reflect.Int, reflect.Int8, reflect.Int16, reflect.Int32, reflect.Int64:
		return a.Int() == b.Int(), path + ": int"
	case reflect.Uint, reflect.Uint8, reflect.Uint16, reflect.Uint32, reflect.Uint64, reflect.Uintptr:
		return a.Uint() == b.Uint(), path + ": uint"
	case reflect.String:
		if a.String() != b.String() {
			return false, fmt.Sprintf("%s: string %q vs %q", path, trunc(a.String(), 60), trunc(b.String(), 60))
		}
		return true, ""
	}
	return false, path + ": unsupported kind " + a.Kind().String()
}

func trunc(s string, n int) string {
	if len(s) > n {
		return s[:n] + "..."
	}
	return s
}

func sortedKeys[V any](m map[string]V) []string {
	var k []string
	for x := range m {
		k = append(k, x)
	}
	sort.Strings(k)
	return k
}
