package main

// Corpus of valid values and their valid EDF encodings; harness-registered
// named types (slice / map / array / struct / marshaler); decode/encode option
// sets (with and without caches); structural value equality for the
// re-encode oracle.

import (
	"bytes"
	"errors"
	"fmt"
	"io"
	"math"
	"os"
	"reflect"
	"sort"
	"strings"
	"sync"
	"time"

	"ergo.services/ergo/gen"
	"ergo.services/ergo/lib"
	"ergo.services/ergo/net/edf"
	"ergo.services/ergo/net/handshake"
	"ergo.services/ergo/net/proto"
)

// harness-registered named types
type NInt int64
type NStr string
type NBool bool
type NF64 float64
type NSlice []int32
type NStrs []string
type NAnys []any
type NMap map[string]int16
type NMapAny map[uint8]any
type NArr [4]uint16
type NArr0 [0]uint8
type NEmpty struct{}
type NEmpties []NEmpty
type NStruct struct {
	A int
	B string
	C []byte
	D NSlice
	E NMap
	F NArr
	G any
	H error
	I gen.PID
	J time.Time
	K []any
	L map[gen.Atom]float64
	M gen.Atom
}
type NNested struct {
	X NStruct
	Y []NStruct
	Z map[string]NStruct
	W NMapAny
}

type NTime struct {
	T time.Time
	N int8
}

// custom marshalers
type NMarsh struct {
	V []byte
	N uint32
}

func (m NMarsh) MarshalEDF(w io.Writer) error {
	var b [4]byte
	b[0], b[1], b[2], b[3] = byte(m.N>>24), byte(m.N>>16), byte(m.N>>8), byte(m.N)
	w.Write(b[:])
	w.Write(m.V)
	return nil
}
func (m *NMarsh) UnmarshalEDF(b []byte) error {
	if len(b) < 4 {
		return fmt.Errorf("NMarsh: short")
	}
	m.N = uint32(b[0])<<24 | uint32(b[1])<<16 | uint32(b[2])<<8 | uint32(b[3])
	m.V = append([]byte{}, b[4:]...)
	return nil
}

type NBin struct {
	S string
}

func (m NBin) MarshalBinary() ([]byte, error) { return []byte(m.S), nil }
func (m *NBin) UnmarshalBinary(b []byte) error {
	m.S = string(b)
	return nil
}

var errCustom = errors.New("c16 custom registered error")

func registerTypes() {
	for _, t := range []any{
		NInt(0), NStr(""), NBool(false), NF64(0), NSlice{}, NStrs{}, NAnys{}, NMap{}, NMapAny{}, NArr{}, NArr0{}, NEmpty{}, NEmpties{},
		NStruct{}, NNested{}, NMarsh{}, NBin{}, NTime{},
	} {
		if err := edf.RegisterTypeOf(t); err != nil && err != gen.ErrTaken {
			panic(fmt.Sprintf("register %T: %v", t, err))
		}
	}
	edf.RegisterError(errCustom)
	for _, a := range []gen.Atom{"c16atom", "victim@localhost", "a_rather_long_cached_atom_value_for_c16"} {
		edf.RegisterAtom(a)
	}
	// make sure the packages whose init() registers message types are linked in, as in a real node
	_ = handshake.MessageHello{}
	_ = proto.MessageResult{}
}

// option sets -----------------------------------------------------------------

type optset struct {
	name string
	enc  edf.Options
	dec  edf.Options
}

func makeOptsets() []optset {
	plain := optset{name: "plain"}
	cached := optset{name: "cache"}
	// the same construction as net/handshake does from the Introduce messages
	atoms := edf.GetAtomCache()
	regs := edf.GetRegCache()
	errs := edf.GetErrCache()
	cached.enc.AtomCache = new(sync.Map)
	cached.dec.AtomCache = new(sync.Map)
	for id, a := range atoms {
		cached.enc.AtomCache.Store(a, id)
		cached.dec.AtomCache.Store(id, a)
	}
	var names []string
	cached.dec.RegCache = new(sync.Map)
	for id, n := range regs {
		names = append(names, n)
		cached.dec.RegCache.Store(id, n)
	}
	cached.enc.RegCache = edf.MakeEncodeRegTypeCache(names)
	cached.enc.ErrCache = new(sync.Map)
	cached.dec.ErrCache = new(sync.Map)
	for id, e := range errs {
		cached.enc.ErrCache.Store(e, id)
		cached.dec.ErrCache.Store(id, e)
	}
	cached.enc.Cache = new(sync.Map)
	cached.dec.Cache = new(sync.Map)
	return []optset{plain, cached}
}

// values ------------------------------------------------------------------------

func validValues() []any {
	pid := gen.PID{Node: "victim@localhost", ID: 1001, Creation: 1700000000}
	pid2 := gen.PID{Node: "other@host", ID: math.MaxUint64, Creation: -1}
	ref := gen.Ref{Node: "c16atom", Creation: 77, ID: [3]uint64{1, 2, 3}}
	alias := gen.Alias{Node: "victim@localhost", Creation: 78, ID: [3]uint64{9, 8, 7}}
	tm := time.Date(2024, 5, 17, 13, 14, 15, 123456789, time.UTC)
	tmz := time.Date(1999, 12, 31, 23, 59, 59, 0, time.FixedZone("X", 3*3600+1800))
	ns := NStruct{A: -5, B: "bee", C: []byte{1, 2, 3}, D: NSlice{1, -2, 3}, E: NMap{"k": 1, "l": -2}, F: NArr{1, 2, 3, 4},
		G: int16(7), H: errors.New("plain error"), I: pid, J: tm, K: []any{"x", 1, nil, 2.5, true}, L: map[gen.Atom]float64{"c16atom": 1.5}, M: "c16atom"}
	ns2 := NStruct{G: []string{"in", "any"}, H: gen.ErrTimeout, K: []any{}, M: "uncached_atom"}
	long := strings.Repeat("abcdefghij", 26)
	tmsec := time.Date(2001, 2, 3, 4, 5, 6, 7, time.FixedZone("x", 3600+17))     // zone offset with seconds: 16 byte binary form (version 2)
	tmlmt := time.Date(1880, 1, 1, 12, 0, 0, 0, time.FixedZone("LMT", 19*60+32)) // local mean time style (Amsterdam +0:19:32)
	vals := []any{
		true, false,
		int(-1), int(math.MaxInt64), int8(-128), int16(-300), int32(1 << 30), int64(math.MinInt64),
		uint(7), uint8(255), uint16(65535), uint32(math.MaxUint32), uint64(math.MaxUint64),
		float32(1.5), float32(math.Inf(-1)), float64(math.Pi), math.NaN(), math.Inf(1),
		"", "hello", long,
		[]byte{}, []byte{0, 255, 1, 254}, []byte(long[:40]),
		gen.Atom(""), gen.Atom("c16atom"), gen.Atom("some_uncached_atom"), gen.Atom(strings.Repeat("a", 255)),
		pid, pid2, gen.ProcessID{Name: "canary", Node: "victim@localhost"}, ref, alias, gen.Event{Name: "ev", Node: "c16atom"},
		tm, tmz, time.Time{}, tmsec, tmlmt, []time.Time{tmsec, tm, tmlmt}, []any{tmsec, 1}, map[string]time.Time{"k": tmlmt}, NTime{T: tmsec, N: 5},
		errors.New("plain error"), gen.ErrTimeout, gen.TerminateReasonNormal, errCustom, fmt.Errorf("wrapped: %w", gen.ErrTaken),
		[]int{1, 2, 3}, []int{}, []string{"a", "", "ccc"}, []any{1, "two", 3.0, nil, []any{int8(4), []byte{5}}, map[string]any{"k": uint16(6)}},
		[]float64{math.NaN(), 1}, [][]uint8{{1}, {}, {2, 3}}, []error{errors.New("e1"), nil, gen.ErrUnknown},
		[]gen.PID{pid, pid2}, []gen.Atom{"c16atom", "zz"}, []time.Time{tm},
		map[string]int{"a": 1, "b": 2}, map[int][]string{1: {"x"}, 2: nil}, map[string]any{"n": nil, "s": "v", "m": map[uint8]bool{1: true}},
		map[gen.Atom]gen.PID{"c16atom": pid}, map[uint16]gen.Atom{300: "c16atom"}, map[uint16]error{40000: gen.ErrTimeout}, map[bool]float32{true: 1},
		[3]int{1, 2, 3}, [2][2]uint8{{1, 2}, {3, 4}}, [0]string{}, [2]any{"a", 1}, [1]map[string]int{{"z": 26}}, [2][]int16{{1}, nil},
		NInt(-9), NStr("named"), NBool(true), NF64(2.25), NSlice{5, 6}, NSlice{}, NStrs{"q", "r"}, NAnys{1, "s", NInt(3), nil}, NMap{"x": 1}, NMap{},
		NMapAny{1: "one", 2: NSlice{2}, 3: nil}, NArr{9, 8, 7, 6}, NArr0{}, NEmpty{}, NEmpties{},
		ns, ns2, NNested{X: ns, Y: []NStruct{ns2, ns}, Z: map[string]NStruct{"one": ns2}, W: NMapAny{7: ns2}},
		[]NStruct{ns, ns2}, map[NStr]NStruct{"k": ns2}, []NMarsh{{V: []byte("abc"), N: 7}},
		NMarsh{V: []byte{1, 2, 3, 4, 5}, N: 0xdeadbeef}, NMarsh{}, NBin{S: "binary marshaler"}, NBin{},
		// framework types as they travel between nodes
		gen.Version{Name: "n", Release: "r", License: "l"},
		gen.NetworkFlags{Enable: true, EnableRemoteSpawn: true, EnableImportantDelivery: true},
		gen.MessageEvent{Event: gen.Event{Name: "ev", Node: "victim@localhost"}, Timestamp: 12345, Message: "payload"},
		gen.ProcessOptionsExtra{},
		gen.ProcessInfo{PID: pid, Name: "canary", Application: "app", Behavior: "b", Env: map[gen.Env]any{"E": 1}, LinksPID: []gen.PID{pid2}, Aliases: []gen.Alias{alias}},
		gen.Compression{Enable: true, Type: gen.CompressionTypeGZIP, Level: gen.CompressionBestSize, Threshold: 1024},
		gen.MessagePriority(1), gen.LogLevel(2), gen.Env("ENVNAME"),
		handshake.MessageHello{Salt: "salt", Digest: "digest"},
		handshake.MessageJoin{Node: "evil@localhost", ConnectionID: "id", Salt: "s", Digest: "d"},
		handshake.MessageIntroduce{Node: "evil@localhost", Version: gen.Version{Name: "x"}, Flags: gen.NetworkFlags{Enable: true}, Creation: 5, MaxMessageSize: 0,
			AtomCache: map[uint16]gen.Atom{300: "c16atom"}, RegCache: map[uint16]string{5000: "#pkg/T"}, ErrCache: map[uint16]error{40000: gen.ErrTimeout}, Digest: "dd"},
		handshake.MessageAccept{ID: "cid", PoolSize: 3, PoolDSN: []string{"127.0.0.1:1", "127.0.0.1:2"}, Digest: "x"},
		proto.MessageLinkPID{Source: pid2, Target: pid, Ref: ref},
		proto.MessageMonitorEvent{Source: pid2, Target: gen.Event{Name: "ev", Node: "victim@localhost"}, Ref: ref},
		proto.MessageSpawn{Name: "factory", Options: gen.ProcessOptionsExtra{ParentPID: pid2, Args: []any{1, "a"}}, Ref: ref},
		proto.MessageResult{Error: gen.ErrProcessUnknown, Result: []gen.MessageEvent{{Message: 1}}, Ref: ref},
		proto.MessageResult{Result: pid, Ref: ref},
		proto.MessageUpdateCache{AtomCache: map[uint16]gen.Atom{301: "zz"}, AtomMapping: map[gen.Atom]gen.Atom{"a": "b"}, RegCache: map[uint16]string{1: "x"}, ErrCache: map[uint16]error{2: gen.ErrTaken}, Ref: ref},
	}
	return vals
}

type citem struct {
	idx  int
	desc string
	val  any
	enc  []byte
}

// buildCorpus encodes all valid values under the option set; values that the
// encoder refuses are skipped (C11 is about them, not C16)
func buildCorpus(o optset) []citem {
	var items []citem
	for i, v := range validValues() {
		b := lib.TakeBuffer()
		err := edf.Encode(v, b, o.enc)
		if err != nil && os.Getenv("C16_PLAN") != "" {
			fmt.Fprintf(os.Stderr, "corpus: %s: value %d (%T) not encodable: %v\n", o.name, i, v, err)
		}
		if err == nil {
			items = append(items, citem{idx: i, desc: fmt.Sprintf("%T", v), val: v, enc: append([]byte{}, b.B...)})
		}
		lib.ReleaseBuffer(b)
	}
	// small hand-built encodings join the corpus (appended: the indices of the other items do not move)
	for i, h := range handEncodings() {
		if len(h.enc) <= 64 {
			items = append(items, citem{idx: 1000 + i, desc: "hand:" + h.name, enc: h.enc})
		}
	}
	return items
}

// hand-built valid encodings --------------------------------------------------------
//
// Built by a reference encoder of the harness, NOT by the encoder under test: a defect of the encoder cannot
// bend them. They cover every length variant an encoding can take: time.Time in its 15 byte (version 1) and
// 16 byte (version 2, zone offset with seconds) binary form as a plain value, in []time.Time, in []any, as a
// map value and as a struct field; strings, binaries, atoms and error texts at the thresholds of their 1/2/4
// byte length fields. Each is decoded once with all oracles (class "valid"); the small ones also join the
// corpus that the mutation classes work on.

type handEnc struct {
	name string
	enc  []byte
}

func refTime(t time.Time) []byte {
	bin, _ := t.MarshalBinary()
	return append([]byte{byte(len(bin))}, bin...)
}

func handEncodings() []handEnc {
	var out []handEnc
	add := func(name string, parts ...[]byte) { out = append(out, handEnc{name, cat(parts...)}) }
	times := []struct {
		n string
		t time.Time
	}{
		{"utc", time.Date(2024, 5, 17, 13, 14, 15, 123456789, time.UTC)},
		{"zone-minutes", time.Date(1999, 12, 31, 23, 59, 59, 0, time.FixedZone("X", 3*3600+1800))},
		{"zone-seconds", time.Date(2001, 2, 3, 4, 5, 6, 7, time.FixedZone("x", 3600+17))},
		{"zone-lmt", time.Date(1880, 1, 1, 12, 0, 0, 0, time.FixedZone("LMT", 19*60+32))},
		{"zone-west", time.Date(1970, 1, 1, 0, 0, 0, 0, time.FixedZone("W", -(9*3600+30*60)))},
		{"zero", time.Time{}},
	}
	for _, x := range times {
		rt := refTime(x.t)
		add("time-"+x.n+"/plain", []byte{175}, rt)
		add("time-"+x.n+"/slice", []byte{130, 0, 2, 157, 175, 157}, be32(2), rt, rt)
		add("time-"+x.n+"/any-slice", []byte{130, 0, 2, 157, 132, 157}, be32(2), []byte{175}, rt, []byte{150, 0, 0, 0, 0, 0, 0, 0, 1})
		add("time-"+x.n+"/map-value", []byte{130, 0, 3, 159, 141, 175, 159}, be32(1), []byte{0, 1, 'k'}, rt)
		add("time-"+x.n+"/struct-field", regName("#main/NTime"), rt, []byte{5})
		add("time-"+x.n+"/array", []byte{130, 0, 6, 158, 0, 0, 0, 1, 175}, rt)
	}
	rep := func(n int) []byte { return bytes.Repeat([]byte{'s'}, n) }
	be16 := func(n int) []byte { return []byte{byte(n >> 8), byte(n)} }
	for _, n := range []int{0, 1, 255, 256, 65534, 65535} {
		add(fmt.Sprintf("string-%d", n), []byte{141}, be16(n), rep(n))
	}
	for _, n := range []int{0, 1, 255, 256, 65535, 65536, 70000} {
		add(fmt.Sprintf("binary-%d", n), []byte{142}, be32(uint32(n)), rep(n))
	}
	for _, n := range []int{0, 1, 254, 255} {
		add(fmt.Sprintf("atom-%d", n), []byte{140}, be16(n), rep(n))
	}
	for _, n := range []int{1, 255, 256, 32766, 32767} {
		add(fmt.Sprintf("error-%d", n), []byte{156}, be16(n), rep(n))
	}
	// the same thresholds inside containers (no type tag per item)
	add("strings-in-slice", []byte{130, 0, 2, 157, 141, 157}, be32(3), be16(0), be16(255), rep(255), be16(256), rep(256))
	add("binaries-in-any-slice", []byte{130, 0, 2, 157, 132, 157}, be32(2), []byte{142}, be32(256), rep(256), []byte{142}, be32(0))
	add("marshaler-256", regName("#main/NMarsh"), be32(4+256), []byte{0, 0, 0, 9}, rep(256))
	add("binmarshaler-0", regName("#main/NBin"), be32(0))
	return out
}

// structural equality -----------------------------------------------------------

var errorIface = reflect.TypeOf((*error)(nil)).Elem()
var timeType = reflect.TypeOf(time.Time{})

// sameValue: equality of decoded values as the property means it: same dynamic
// type, same content; floats by bits (NaN == NaN), errors by text (identity is
// not claimed over the wire), nil and empty slices/maps are not distinguished,
// time.Time by instant and zone offset.
func sameValue(a, b any) (bool, string) {
	return eqv(reflect.ValueOf(a), reflect.ValueOf(b), "v")
}

func eqv(a, b reflect.Value, path string) (bool, string) {
	if a.IsValid() != b.IsValid() {
		return false, path + ": nil vs non-nil"
	}
	if !a.IsValid() {
		return true, ""
	}
	if a.Type() != b.Type() {
		return false, fmt.Sprintf("%s: type %v vs %v", path, a.Type(), b.Type())
	}
	t := a.Type()
	if t.Implements(errorIface) && (a.Kind() == reflect.Interface || a.Kind() == reflect.Pointer) {
		an, bn := a.IsNil(), b.IsNil()
		if an != bn {
			return false, path + ": nil error vs error"
		}
		if an {
			return true, ""
		}
		ea, eb := a.Interface().(error).Error(), b.Interface().(error).Error()
		if ea != eb {
			return false, fmt.Sprintf("%s: error text %q vs %q", path, trunc(ea, 80), trunc(eb, 80))
		}
		return true, ""
	}
	if t == timeType {
		ta, tb := a.Interface().(time.Time), b.Interface().(time.Time)
		_, oa := ta.Zone()
		_, ob := tb.Zone()
		// a time that the standard library itself does not round-trip (see goTimeRoundTrips): only the instant counts
		if !goTimeRoundTrips(ta) {
			ob = oa
		}
		if !ta.Equal(tb) || oa != ob {
			return false, fmt.Sprintf("%s: time %v vs %v", path, ta, tb)
		}
		return true, ""
	}
	switch a.Kind() {
	case reflect.Float32, reflect.Float64:
		if math.Float64bits(a.Float()) != math.Float64bits(b.Float()) {
			return false, fmt.Sprintf("%s: float %v vs %v", path, a.Float(), b.Float())
		}
		return true, ""
	case reflect.Interface, reflect.Pointer:
		if a.IsNil() != b.IsNil() {
			return false, path + ": nil vs non-nil"
		}
		if a.IsNil() {
			return true, ""
		}
		return eqv(a.Elem(), b.Elem(), path)
	case reflect.Struct:
		for i := 0; i < a.NumField(); i++ {
			if ok, why := eqv(a.Field(i), b.Field(i), path+"."+t.Field(i).Name); !ok {
				return false, why
			}
		}
		return true, ""
	case reflect.Slice, reflect.Array:
		if a.Len() != b.Len() {
			return false, fmt.Sprintf("%s: len %d vs %d", path, a.Len(), b.Len())
		}
		if t.Elem().Size() == 0 {
			return true, "" // elements of size zero carry no content (and their number is not bounded by memory)
		}
		if t.Elem().Kind() == reflect.Uint8 && a.Kind() == reflect.Slice {
			if string(a.Bytes()) != string(b.Bytes()) {
				return false, path + ": bytes differ"
			}
			return true, ""
		}
		for i := 0; i < a.Len(); i++ {
			if ok, why := eqv(a.Index(i), b.Index(i), fmt.Sprintf("%s[%d]", path, i)); !ok {
				return false, why
			}
		}
		return true, ""
	case reflect.Map:
		if a.Len() != b.Len() {
			return false, fmt.Sprintf("%s: map len %d vs %d", path, a.Len(), b.Len())
		}
		it := a.MapRange()
		for it.Next() {
			k := it.Key()
			bv := b.MapIndex(k)
			if !bv.IsValid() {
				if k.Interface() != k.Interface() { // NaN-like key: cannot be looked up, skip
					continue
				}
				// keys holding errors/any: look up by structural equality
				found := false
				it2 := b.MapRange()
				for it2.Next() {
					if ok, _ := eqv(k, it2.Key(), path); ok {
						bv = it2.Value()
						found = true
						break
					}
				}
				if !found {
					return false, fmt.Sprintf("%s: key %v missing", path, k)
				}
			}
			if ok, why := eqv(it.Value(), bv, fmt.Sprintf("%s[%v]", path, k)); !ok {
				return false, why
			}
		}
		return true, ""
	case reflect.Bool:
		return a.Bool() == b.Bool(), path + ": bool"
	case reflect.Int, reflect.Int8, reflect.Int16, reflect.Int32, reflect.Int64:
		return a.Int() == b.Int(), path + ": int"
	case reflect.Uint, reflect.Uint8, reflect.Uint16, reflect.Uint32, reflect.Uint64, reflect.Uintptr:
		return a.Uint() == b.Uint(), path + ": uint"
	case reflect.String:
		if a.String() != b.String() {
			return false, fmt.Sprintf("%s: string %q vs %q", path, trunc(a.String(), 60), trunc(b.String(), 60))
		}
		return true, ""
	}
	return false, path + ": unsupported kind " + a.Kind().String()
}

// goTimeRoundTrips: the Go standard library itself can marshal this time and gets the same time back. It cannot
// for some zone offsets that UnmarshalBinary accepts (negative offsets with a seconds part: seconds are written
// signed and read unsigned; offsets in -119..-61 s collide with the UTC marker; minutes near the int16 limits).
func goTimeRoundTrips(t time.Time) bool {
	bin, err := t.MarshalBinary()
	if err != nil {
		return false
	}
	var t2 time.Time
	if err := t2.UnmarshalBinary(bin); err != nil {
		return false
	}
	_, o1 := t.Zone()
	_, o2 := t2.Zone()
	return t.Equal(t2) && o1 == o2
}

// hasQuirkTime: the value holds a time.Time that the standard library itself does not round-trip; the
// re-encode oracle says nothing about the code under test for such values.
func hasQuirkTime(v reflect.Value, depth int) bool {
	if !v.IsValid() || depth > 16 {
		return false
	}
	if v.Type() == timeType {
		return !goTimeRoundTrips(v.Interface().(time.Time))
	}
	switch v.Kind() {
	case reflect.Interface, reflect.Pointer:
		if v.IsNil() {
			return false
		}
		return hasQuirkTime(v.Elem(), depth+1)
	case reflect.Slice, reflect.Array:
		if v.Type().Elem().Size() == 0 {
			return false
		}
		for i := 0; i < v.Len() && i < 4096; i++ {
			if hasQuirkTime(v.Index(i), depth+1) {
				return true
			}
		}
	case reflect.Map:
		it := v.MapRange()
		for n := 0; it.Next() && n < 4096; n++ {
			if hasQuirkTime(it.Key(), depth+1) || hasQuirkTime(it.Value(), depth+1) {
				return true
			}
		}
	case reflect.Struct:
		for i := 0; i < v.NumField(); i++ {
			if v.Type().Field(i).IsExported() && hasQuirkTime(v.Field(i), depth+1) {
				return true
			}
		}
	}
	return false
}

func trunc(s string, n int) string {
	if len(s) > n {
		return s[:n] + "..."
	}
	return s
}

func sortedKeys[V any](m map[string]V) []string {
	var k []string
	for x := range m {
		k = append(k, x)
	}
	sort.Strings(k)
	return k
}
