package main

// Mutation classes over valid encodings. Enumerative classes (trunc, inflate,
// tagswap) are complete enumerations for one corpus item; the random classes
// are functions of (seed, case id, index).

import (
	"encoding/binary"
	"math/rand"
)

var edfTags = []byte{130, 131, 132, 140, 141, 142, 143, 144, 145, 146, 147, 148, 149, 150, 151, 152, 153, 154, 155, 156, 157, 158, 159, 170, 171, 172, 173, 174, 175, 255, 0, 1}

// values written over 1/2/4 byte windows by the inflate class
var inflate1 = []uint64{0, 1, 0x7f, 0x80, 0xfe, 0xff}
var inflate2 = []uint64{0, 0x00ff, 0x0100, 0x0fff, 0x1000, 0x7fff, 0x8000, 0xfffd, 0xfffe, 0xffff}
var inflate4 = []uint64{0, 0xff, 0x100, 0xffff, 0x10000, 0xffffff, 0x1000000, 0x7fffffff, 0x80000000, 0xfffffffb, 0xfffffffc, 0xfffffffe, 0xffffffff}

func cp(b []byte) []byte { return append([]byte{}, b...) }

// number of inputs of an enumerative class for a valid encoding of length n
func enumCount(class string, n int) int {
	switch class {
	case "trunc":
		return n // prefixes of length 0..n-1
	case "inflate":
		c := n * len(inflate1)
		if n >= 2 {
			c += (n - 1) * len(inflate2)
		}
		if n >= 4 {
			c += (n - 3) * len(inflate4)
		}
		return c
	case "tagswap":
		return n * len(edfTags)
	}
	return 0
}

// k-th input of an enumerative class
func enumInput(class string, valid []byte, k int) []byte {
	n := len(valid)
	switch class {
	case "trunc":
		return cp(valid[:k])
	case "inflate":
		if k < n*len(inflate1) {
			o, v := k/len(inflate1), inflate1[k%len(inflate1)]
			b := cp(valid)
			b[o] = byte(v)
			return b
		}
		k -= n * len(inflate1)
		if n >= 2 {
			if k < (n-1)*len(inflate2) {
				o, v := k/len(inflate2), inflate2[k%len(inflate2)]
				b := cp(valid)
				binary.BigEndian.PutUint16(b[o:], uint16(v))
				return b
			}
			k -= (n - 1) * len(inflate2)
		}
		o, v := k/len(inflate4), inflate4[k%len(inflate4)]
		b := cp(valid)
		binary.BigEndian.PutUint32(b[o:], uint32(v))
		return b
	case "tagswap":
		o, v := k/len(edfTags), edfTags[k%len(edfTags)]
		b := cp(valid)
		b[o] = v
		return b
	}
	return nil
}

// byte window (offset, width) modified by the k-th input of an enumerative class
func enumWindow(class string, n int, k int) (int, int) {
	switch class {
	case "trunc":
		return k, 1
	case "inflate":
		if k < n*len(inflate1) {
			return k / len(inflate1), 1
		}
		k -= n * len(inflate1)
		if n >= 2 {
			if k < (n-1)*len(inflate2) {
				return k / len(inflate2), 2
			}
			k -= (n - 1) * len(inflate2)
		}
		return k / len(inflate4), 4
	case "tagswap":
		return k / len(edfTags), 1
	}
	return 0, 0
}

// random classes -----------------------------------------------------------------

func pick(rng *rand.Rand, corpus []citem) []byte {
	return corpus[rng.Intn(len(corpus))].enc
}

func randBytes(rng *rand.Rand, n int) []byte {
	b := make([]byte, n)
	rng.Read(b)
	return b
}

// one random structure-unaware edit
func randEdit(rng *rand.Rand, b []byte) []byte {
	if len(b) == 0 {
		return []byte{edfTags[rng.Intn(len(edfTags))]}
	}
	o := rng.Intn(len(b))
	switch rng.Intn(9) {
	case 0: // bit flip
		b[o] ^= 1 << uint(rng.Intn(8))
	case 1: // tag
		b[o] = edfTags[rng.Intn(len(edfTags))]
	case 2: // 16 bit field
		if o+2 <= len(b) {
			binary.BigEndian.PutUint16(b[o:], uint16(inflate2[rng.Intn(len(inflate2))]))
		}
	case 3: // 32 bit field
		if o+4 <= len(b) {
			binary.BigEndian.PutUint32(b[o:], uint32(inflate4[rng.Intn(len(inflate4))]))
		}
	case 4: // delete a run
		e := o + 1 + rng.Intn(8)
		if e > len(b) {
			e = len(b)
		}
		b = append(b[:o], b[e:]...)
	case 5: // insert random/tag bytes
		ins := randBytes(rng, 1+rng.Intn(6))
		if rng.Intn(2) == 0 {
			for i := range ins {
				ins[i] = edfTags[rng.Intn(len(edfTags))]
			}
		}
		b = append(b[:o], append(ins, b[o:]...)...)
	case 6: // duplicate a run
		e := o + 1 + rng.Intn(16)
		if e > len(b) {
			e = len(b)
		}
		b = append(b[:e], append(cp(b[o:e]), b[e:]...)...)
	case 7: // random byte
		b[o] = byte(rng.Intn(256))
	case 8: // small length-like value
		b[o] = byte(rng.Intn(8))
	}
	return b
}

// cache id mutation: overwrite a 16 bit window with an id in the cache id
// ranges (atoms >255, reg types >4095, errors >32767) that is not allocated
func cacheIDEdit(rng *rand.Rand, b []byte) []byte {
	if len(b) < 2 {
		return b
	}
	o := rng.Intn(len(b) - 1)
	var id uint16
	switch rng.Intn(4) {
	case 0:
		id = uint16(256 + rng.Intn(4096-256))
	case 1:
		id = uint16(4096 + rng.Intn(32768-4096))
	case 2:
		id = uint16(32768 + rng.Intn(32767))
	case 3:
		id = uint16(60000 + rng.Intn(5535))
	}
	binary.BigEndian.PutUint16(b[o:], id)
	return b
}

// random type descriptor (folded type) ------------------------------------------

var basicTags = []byte{132, 140, 141, 142, 143, 144, 145, 146, 147, 148, 149, 150, 151, 152, 153, 154, 155, 156, 170, 171, 172, 173, 174, 175}
var arrLens = []uint32{0, 0, 1, 2, 3, 7, 255, 256, 65535, 65536, 1 << 20, 1<<31 - 1, 1 << 31, 1<<32 - 1}
var regNames = []string{"#main/NSlice", "#main/NMap", "#main/NArr", "#main/NArr0", "#main/NStruct", "#main/NEmpty", "#main/NEmpties", "#main/NMapAny", "#main/NMarsh", "#main/NBin", "#main/NNested", "#ergo.services/ergo/gen/Version", "#ergo.services/ergo/gen/ProcessInfo", "#nosuch/T"}

func randFold(rng *rand.Rand, depth int, bigArrays bool) []byte {
	if depth <= 0 || rng.Intn(4) == 0 {
		if rng.Intn(5) == 0 {
			n := regNames[rng.Intn(len(regNames))]
			return append([]byte{131, byte(len(n) >> 8), byte(len(n))}, n...)
		}
		return []byte{basicTags[rng.Intn(len(basicTags))]}
	}
	switch rng.Intn(3) {
	case 0:
		return append([]byte{157}, randFold(rng, depth-1, bigArrays)...)
	case 1:
		var n uint32
		if bigArrays {
			n = arrLens[rng.Intn(len(arrLens))]
		} else {
			n = arrLens[rng.Intn(6)]
		}
		b := []byte{158, byte(n >> 24), byte(n >> 16), byte(n >> 8), byte(n)}
		return append(b, randFold(rng, depth-1, bigArrays)...)
	default:
		b := append([]byte{159}, randFold(rng, depth-1, bigArrays)...)
		return append(b, randFold(rng, depth-1, bigArrays)...)
	}
}

func withTypeHeader(fold []byte) []byte {
	if len(fold) == 1 || fold[0] == 131 {
		return cp(fold)
	}
	return append([]byte{130, byte(len(fold) >> 8), byte(len(fold))}, fold...)
}

// data bytes loosely following a fold: counts small so that decoding goes deep
func randDataFor(rng *rand.Rand, fold []byte, budget *int) []byte {
	if *budget <= 0 || len(fold) == 0 {
		return nil
	}
	*budget--
	switch fold[0] {
	case 157: // slice
		n := rng.Intn(4)
		out := []byte{157, 0, 0, 0, byte(n)}
		if rng.Intn(6) == 0 {
			binary.BigEndian.PutUint32(out[1:], uint32(inflate4[rng.Intn(len(inflate4))]))
		}
		for i := 0; i < n; i++ {
			out = append(out, randDataFor(rng, fold[1:], budget)...)
		}
		return out
	case 159:
		n := rng.Intn(3)
		out := []byte{159, 0, 0, 0, byte(n)}
		for i := 0; i < n; i++ {
			out = append(out, randBytes(rng, 1+rng.Intn(12))...)
		}
		return out
	case 158:
		if len(fold) < 6 {
			return nil
		}
		n := int(binary.BigEndian.Uint32(fold[1:5]))
		if n > 4 {
			n = 4
		}
		var out []byte
		for i := 0; i < n+1; i++ {
			out = append(out, randDataFor(rng, fold[5:], budget)...)
		}
		return out
	case 141:
		s := randBytes(rng, rng.Intn(6))
		return append([]byte{0, byte(len(s))}, s...)
	case 142:
		s := randBytes(rng, rng.Intn(6))
		return append([]byte{0, 0, 0, byte(len(s))}, s...)
	case 132:
		v := basicTags[1+rng.Intn(len(basicTags)-1)]
		return append([]byte{v}, randBytes(rng, 1+rng.Intn(10))...)
	}
	return randBytes(rng, 1+rng.Intn(10))
}

// randomInput: the idx-th input of a random class of the EDF target
func randomInput(class string, rng *rand.Rand, corpus []citem) []byte {
	switch class {
	case "bitflip":
		b := cp(pick(rng, corpus))
		for i := 0; i < 1+rng.Intn(3); i++ {
			if len(b) > 0 {
				b[rng.Intn(len(b))] ^= 1 << uint(rng.Intn(8))
			}
		}
		return b
	case "edits":
		b := cp(pick(rng, corpus))
		for i := 0; i < 1+rng.Intn(4); i++ {
			b = randEdit(rng, b)
		}
		return b
	case "splice":
		a, c := pick(rng, corpus), pick(rng, corpus)
		x, y := rng.Intn(len(a)+1), rng.Intn(len(c)+1)
		return append(cp(a[:x]), c[y:]...)
	case "cacheid":
		b := cp(pick(rng, corpus))
		for i := 0; i < 1+rng.Intn(2); i++ {
			b = cacheIDEdit(rng, b)
		}
		return b
	case "prng":
		return randBytes(rng, rng.Intn(48))
	case "prngtags":
		n := 1 + rng.Intn(40)
		b := make([]byte, n)
		for i := range b {
			switch rng.Intn(3) {
			case 0:
				b[i] = edfTags[rng.Intn(len(edfTags))]
			case 1:
				b[i] = byte(rng.Intn(5))
			default:
				b[i] = byte(rng.Intn(256))
			}
		}
		return b
	case "typedesc", "typedesc-big":
		fold := randFold(rng, 1+rng.Intn(5), class == "typedesc-big")
		budget := 40
		b := withTypeHeader(fold)
		b = append(b, randDataFor(rng, fold, &budget)...)
		if rng.Intn(3) == 0 {
			b = randEdit(rng, b)
		}
		return b
	case "anywrap":
		// a valid encoding wrapped as an element of []any / map[string]any, then edited
		in := pick(rng, corpus)
		b := []byte{130, 0, 2, 157, 132, 157, 0, 0, 0, 1}
		b = append(b, in...)
		if rng.Intn(2) == 0 {
			b = randEdit(rng, b)
		}
		return b
	}
	return nil
}
