package main

// Child side infrastructure: spec/result protocol, progress log (every input
// is logged before it is used), allocation / CPU meters, CPU watchdog,
// allocation site attribution.

import (
	"math/rand"

	"verif/harness/hk"

	"bufio"
	"encoding/hex"
	"encoding/json"
	"fmt"
	"os"
	"regexp"
	"runtime"
	"runtime/metrics"
	"sort"
	"strings"
	"sync"
	"sync/atomic"
	"syscall"
	"time"
)

// expensiveBudget: a case stops executing inputs after this many expensive violations (each costs a
// child process or seconds of page zeroing); the rest of its inputs is counted as not executed
const expensiveBudget = 3

// enumerative classes: after an expensive violation only the inputs that touch the same bytes are skipped;
// the case as a whole stops after this many
const expensiveBudgetEnum = 5

const (
	allocSlack   = 64 << 20 // bytes
	allocPerByte = 4096
	cpuLimit     = 30 * time.Second
)

type caseSpec struct {
	ID     string `json:"id"`
	Target string `json:"target"` // edf | hs | live
	Opt    string `json:"opt,omitempty"`
	Class  string `json:"class"`
	Item   int    `json:"item,omitempty"` // corpus item (enumerative classes), message index (hs)
	N      int    `json:"n,omitempty"`    // number of inputs (random classes)
	Only   int    `json:"only"`           // -1: all inputs, else just this index (replay)
	Side   string `json:"side,omitempty"`
	// MaxStackMB > 0: the child lowers the goroutine stack limit (default 1 GB) for this case, a scaled-down
	// environment for recursion whose depth is proportional to the input
	MaxStackMB int `json:"max_stack_mb,omitempty"`
}

type childSpec struct {
	Mode       string     `json:"mode"`
	Cases      []caseSpec `json:"cases"`
	ResumeCase int        `json:"resume_case"`
	ResumeIdx  int        `json:"resume_idx"`
	// expensive violations (child crash, CPU hang, allocation out of proportion) already seen in the resume case
	ResumeExpensive int `json:"resume_expensive"`
	// indices of those inputs (enumerative classes skip only the neighbourhood of an expensive input)
	ResumeExpensiveIdx []int  `json:"resume_expensive_idx"`
	MemKB              uint64 `json:"mem_kb"`
	Progress           string `json:"progress"`
	Result             string `json:"result"`
	BlobDir            string `json:"blob_dir"`
	Seed               int64  `json:"seed"`
	Thorough           bool   `json:"thorough"`
}

// records written by the child
type vrec struct {
	T      string `json:"t"` // "v"
	Case   string `json:"case"`
	Idx    int    `json:"idx"`
	Sig    string `json:"sig"`
	What   string `json:"what"`
	Hex    string `json:"hex,omitempty"`
	Len    int    `json:"len"`
	Detail any    `json:"detail,omitempty"`
	Fatal  bool   `json:"fatal,omitempty"` // the child exits after this record (watchdog)
	Raw    []byte `json:"-"`               // the input bytes (for the attribution by input shape)
}

type grec struct {
	T          string           `json:"t"` // "g"
	Case       string           `json:"case"`
	N          int64            `json:"n"`      // inputs used
	Events     int64            `json:"events"` // monitored calls
	Outcomes   map[string]int64 `json:"outcomes"`
	Nontrivial int64            `json:"nontrivial"`
	Incon      string           `json:"incon,omitempty"`
	Sample     any              `json:"sample,omitempty"`
	Extra      map[string]int64 `json:"extra,omitempty"`
}

var (
	spec     childSpec
	resMu    sync.Mutex
	resFile  *os.File
	progFile *os.File
)

func writeRec(v any) {
	b, _ := json.Marshal(v)
	resMu.Lock()
	resFile.Write(append(b, '\n'))
	resMu.Unlock()
}

// progress: one unbuffered write per input, so the line survives a crash of this process
func progress(caseIdx int, idx int, data []byte) {
	if len(data) > 4096 {
		name := fmt.Sprintf("%s/blob-%d-%d-%d.bin", spec.BlobDir, os.Getpid(), caseIdx, idx)
		os.WriteFile(name, data, 0o644)
		fmt.Fprintf(progFile, "%d\t%d\t%d\t@%s\n", caseIdx, idx, len(data), name)
		return
	}
	buf := make([]byte, 0, 40+2*len(data))
	buf = append(buf, fmt.Sprintf("%d\t%d\t%d\t", caseIdx, idx, len(data))...)
	buf = hex.AppendEncode(buf, data)
	buf = append(buf, '\n')
	progFile.Write(buf)
}

func hexOf(data []byte) string {
	if len(data) > 4096 {
		return hex.EncodeToString(data[:1024]) + fmt.Sprintf("...(%d bytes, head only)", len(data))
	}
	return hex.EncodeToString(data)
}

// meters -----------------------------------------------------------------------------

var allocSample = []metrics.Sample{{Name: "/gc/heap/allocs:bytes"}}
var meterMu sync.Mutex

// cumulative bytes allocated on the heap by this process (TotalAlloc)
func totalAlloc() uint64 {
	meterMu.Lock()
	defer meterMu.Unlock()
	metrics.Read(allocSample)
	return allocSample[0].Value.Uint64()
}

// process CPU time (user+system) from rusage
func cpuTime() time.Duration {
	var ru syscall.Rusage
	syscall.Getrusage(syscall.RUSAGE_SELF, &ru)
	// user time only: a hang is a loop in user space; kernel time (page zeroing of a large allocation on a
	// loaded machine) is accounted by the allocation oracle, not by this one
	return time.Duration(ru.Utime.Nano())
}

func allocBound(inputLen int) uint64 { return allocSlack + allocPerByte*uint64(inputLen) }

// CPU watchdog: while a monitored call is in progress, a poller compares the
// process CPU time consumed since the call began with the limit. The verdict
// depends on consumed CPU time only, not on wall time.
type callInfo struct {
	caseIdx int
	caseID  string
	idx     int
	data    []byte
	cpu0    atomic.Int64 // process CPU time (ns) when the current call began
	alloc0  atomic.Uint64
	marker  string // function name expected on the stack of the goroutine under test
}

var curCall atomic.Pointer[callInfo]

func beginCall(ci *callInfo) {
	ci.cpu0.Store(int64(cpuTime()))
	ci.alloc0.Store(totalAlloc())
	curCall.Store(ci)
}
func endCall() { curCall.Store(nil) }

func startWatchdog() {
	go func() {
		for {
			time.Sleep(250 * time.Millisecond)
			ci := curCall.Load()
			if ci == nil {
				continue
			}
			if used := cpuTime() - time.Duration(ci.cpu0.Load()); used > cpuLimit {
				buf := make([]byte, 1<<20)
				n := runtime.Stack(buf, true)
				site, excerpt := hangSite(string(buf[:n]), ci.marker)
				sig := friendlySigFor("cpu-hang/"+site, ci.data)
				what := fmt.Sprintf("the call consumed %.1fs of CPU time (limit %v) and has not returned; input %d bytes", used.Seconds(), cpuLimit, len(ci.data))
				if al := totalAlloc() - ci.alloc0.Load(); al > allocBound(len(ci.data)) && strings.Contains(site, ":reflect.") {
					// the time goes into a huge allocation: the same defect as an allocation out of proportion
					sig = friendlySigFor("alloc-amplification/"+site, ci.data)
					what = fmt.Sprintf("the call allocated %d bytes (bound %d) and was still busy with that memory after %.1fs of CPU time; input %d bytes", al, allocBound(len(ci.data)), used.Seconds(), len(ci.data))
				}
				if spec.Mode == "live" && strings.HasPrefix(sig, "cpu-hang/") {
					// the process that hosts the node spins after hostile traffic
					what = "node process: " + what + " (busy at " + site + ")"
					sig = "node-hang-after-hostile-input"
				}
				writeRec(vrec{T: "v", Case: ci.caseID, Idx: ci.idx, Sig: sig, Fatal: true, Len: len(ci.data), Hex: hexOf(ci.data),
					What: what, Detail: map[string]any{"stack": excerpt}})
				os.Exit(7)
			}
		}
	}()
}

var reFrame = regexp.MustCompile(`^([^\s].*)\(.*\)$`)

// frames of one goroutine block of a Go traceback: function names, innermost first
func blockFrames(block string) []string {
	var fr []string
	for _, l := range strings.Split(block, "\n") {
		if strings.HasPrefix(l, "goroutine ") || strings.HasPrefix(l, "\t") || strings.HasPrefix(l, " ") {
			continue
		}
		if m := reFrame.FindStringSubmatch(l); m != nil {
			fr = append(fr, m[1])
		} else if strings.HasPrefix(l, "created by ") {
			break
		}
	}
	return fr
}

func shortFn(f string) string {
	f = strings.TrimPrefix(f, "ergo.services/ergo/")
	f = strings.TrimPrefix(f, "net/")
	return f
}

// siteOf: name of the place in ergo where the thing happened: the innermost
// ergo frame (lib.(*Buffer) helpers skipped) plus the reflect allocator it
// called, if any
func siteOf(frames []string) string {
	via := ""
	for _, f := range frames {
		// the reflect function called by the ergo code (the outermost reflect frame below it)
		if strings.HasPrefix(f, "reflect.") && !strings.Contains(f, "unsafe_") && !strings.Contains(f, "reflect.Value.") && !strings.Contains(f, "reflect.(*") {
			via = f
		}
		if strings.HasPrefix(f, "ergo.services/ergo/") {
			if strings.Contains(f, "lib.(*Buffer)") {
				continue
			}
			s := shortFn(f)
			if via != "" {
				s += ":" + via
			}
			return s
		}
	}
	return "unknown-site"
}

// friendlySig gives the known root causes a stable, readable signature
func friendlySig(sig string) string {
	// array fdec closure of decodeType: time or garbage spent in its loop without input being consumed
	if sig == "cpu-hang/edf.decodeType.func3" || sig == "alloc-amplification/edf.decodeType.func3" {
		return "zero-size-array-elements-loop"
	}
	if !strings.HasPrefix(sig, "alloc-amplification/") {
		return sig
	}
	site := strings.TrimPrefix(sig, "alloc-amplification/")
	switch {
	case strings.Contains(site, "registerType") && (strings.Contains(site, "makemap") || strings.Contains(site, "MakeMapWithSize")):
		return "alloc-by-declared-size/registered-map"
	case strings.HasPrefix(site, "edf.") && strings.HasSuffix(site, ":reflect.New"):
		// reflect.New of a decoded type is large only for array types: the length comes from the type descriptor
		return "alloc-by-declared-size/array-type-descriptor"
	case strings.HasPrefix(site, "lib.Decompress"):
		return "alloc-by-declared-size/decompress"
	}
	return sig
}

// friendlySigFor: friendlySig plus the attribution by input shape. A CPU hang or an allocation out of proportion
// inside the decoder whose input declares an array of zero-size elements with a count far beyond the input is the
// listed finding "zero-size-array-elements-loop", whichever decoder closure (decodeType's array loop, the decoder
// of the registered zero-size element type, reflect.Value.Index ...) happened to be innermost on the stack.
func friendlySigFor(sig string, data []byte) string {
	f := friendlySig(sig)
	if f != sig && !strings.HasPrefix(f, "alloc-amplification/") && !strings.HasPrefix(f, "cpu-hang/") {
		return f
	}
	if (strings.HasPrefix(sig, "cpu-hang/") || strings.HasPrefix(sig, "alloc-amplification/")) && !strings.Contains(sig, "lib.") && declaresZeroSizeArray(data) {
		return "zero-size-array-elements-loop"
	}
	return f
}

// zero-size registered types of the harness (every registered framework type has a non-zero size)
var zeroSizeRegNames = map[string]bool{"#main/NEmpty": true, "#main/NArr0": true}

// foldZero parses one folded type; zero: values of it have size zero; bomb: it contains an array of more than
// 2^20 zero-size elements
func foldZero(f []byte, depth int) (zero, bomb bool, rest []byte, ok bool) {
	if len(f) == 0 || depth > 64 {
		return false, false, nil, false
	}
	switch f[0] {
	case 157:
		_, b, r, ok := foldZero(f[1:], depth+1)
		return false, b, r, ok
	case 159:
		_, b1, r, ok := foldZero(f[1:], depth+1)
		if !ok {
			return false, false, nil, false
		}
		_, b2, r, ok := foldZero(r, depth+1)
		return false, b1 || b2, r, ok
	case 158:
		if len(f) < 6 {
			return false, false, nil, false
		}
		n := uint32(f[1])<<24 | uint32(f[2])<<16 | uint32(f[3])<<8 | uint32(f[4])
		ez, eb, r, ok := foldZero(f[5:], depth+1)
		if !ok {
			return false, false, nil, false
		}
		return n == 0 || ez, eb || (ez && n > 1<<20), r, true
	case 131:
		if len(f) < 3 {
			return false, false, nil, false
		}
		l := int(f[1])<<8 | int(f[2])
		if l > 4095 {
			name := ""
			if len(optsets) > 1 && optsets[1].dec.RegCache != nil {
				if v, found := optsets[1].dec.RegCache.Load(uint16(l)); found {
					name = v.(string)
				}
			}
			return zeroSizeRegNames[name], false, f[3:], true
		}
		if len(f) < 3+l {
			return false, false, nil, false
		}
		return zeroSizeRegNames[string(f[3:3+l])], false, f[3+l:], true
	}
	return false, false, f[1:], true
}

// declaresZeroSizeArray: somewhere in the bytes (top level, behind an any, inside a frame) there is a well-formed
// type descriptor that declares an array of more than 2^20 zero-size elements
func declaresZeroSizeArray(in []byte) bool {
	for o := 0; o+3 < len(in); o++ {
		if in[o] != 130 {
			continue
		}
		n := int(in[o+1])<<8 | int(in[o+2])
		if n < 6 || o+3+n > len(in) {
			continue
		}
		if _, bomb, rest, ok := foldZero(in[o+3:o+3+n], 0); ok && bomb && len(rest) == 0 {
			return true
		}
	}
	return false
}

func hangSite(all string, marker string) (string, string) {
	blocks := strings.Split(all, "\n\n")
	for pass := 0; pass < 2; pass++ {
		for _, b := range blocks {
			if !strings.Contains(b, "ergo.services/ergo/") {
				continue
			}
			if pass == 0 && marker != "" && strings.Contains(b, marker) {
				return siteOf(blockFrames(b)), trunc(b, 3000)
			}
			if pass == 1 && (strings.Contains(b, "[running]") || strings.Contains(b, "[runnable]")) {
				return siteOf(blockFrames(b)), trunc(b, 3000)
			}
		}
	}
	return "unknown-site", trunc(all, 3000)
}

// allocation site attribution through the heap profile -----------------------------------

var profBase map[[32]uintptr]int64

func profSnapshot() map[[32]uintptr]int64 {
	runtime.GC()
	runtime.GC()
	n, _ := runtime.MemProfile(nil, true)
	recs := make([]runtime.MemProfileRecord, n+64)
	n, ok := runtime.MemProfile(recs, true)
	if !ok {
		return nil
	}
	m := make(map[[32]uintptr]int64, n)
	for _, r := range recs[:n] {
		m[r.Stack0] += r.AllocBytes
	}
	return m
}

// allocSiteSince returns the site of the stack that allocated most since the last snapshot
func allocSiteSince() (string, []string) {
	cur := profSnapshot()
	type cand struct {
		k [32]uintptr
		d int64
	}
	var cands []cand
	for k, v := range cur {
		if d := v - profBase[k]; d > 0 {
			cands = append(cands, cand{k, d})
		}
	}
	profBase = cur
	sort.Slice(cands, func(i, j int) bool { return cands[i].d > cands[j].d })
	var first []string
	for i, c := range cands {
		if i >= 40 {
			break
		}
		var pcs []uintptr
		for _, pc := range c.k {
			if pc == 0 {
				break
			}
			pcs = append(pcs, pc)
		}
		var names []string
		ergo := false
		it := runtime.CallersFrames(pcs)
		for {
			f, more := it.Next()
			if f.Function != "" {
				names = append(names, f.Function)
				if strings.HasPrefix(f.Function, "ergo.services/ergo/") {
					ergo = true
				}
			}
			if !more {
				break
			}
		}
		if first == nil {
			first = names
		}
		// the allocation we look for happened inside the code under test
		if ergo {
			return siteOf(names), names
		}
	}
	return "unknown-site", first
}

// cheap deterministic PRNG source (no allocation, no seeding cost): splitmix64
type sm64 struct{ s uint64 }

func (r *sm64) Uint64() uint64 {
	r.s += 0x9E3779B97F4A7C15
	z := r.s
	z = (z ^ (z >> 30)) * 0xBF58476D1CE4E5B9
	z = (z ^ (z >> 27)) * 0x94D049BB133111EB
	return z ^ (z >> 31)
}
func (r *sm64) Int63() int64    { return int64(r.Uint64() >> 1) }
func (r *sm64) Seed(seed int64) { r.s = uint64(seed) }

// inputRng: PRNG for the idx-th input of a case; a function of VERIF_SEED, case id and idx
func inputRng(caseID string, idx int) *rand.Rand {
	base := hk.Hash64("c16", caseID) ^ uint64(hk.Seed())*0x9E3779B97F4A7C15
	src := &sm64{s: base + uint64(idx)*0xD1B54A32D192ED03}
	src.Uint64()
	return rand.New(src)
}

// outcome classes -----------------------------------------------------------------------

var reDigits = regexp.MustCompile(`[0-9]+`)
var reQuoted = regexp.MustCompile(`"[^"]*"|\[\]byte\{[^}]*\}|#[^ ]+`)

func errClass(err error) string {
	s := err.Error()
	s = reQuoted.ReplaceAllString(s, "Q")
	s = reDigits.ReplaceAllString(s, "N")
	if len(s) > 70 {
		s = s[:70]
	}
	s = strings.Map(func(r rune) rune {
		if r < 32 || r > 126 {
			return '?'
		}
		return r
	}, s)
	return "err: " + s
}

type agg struct {
	n, events, nontrivial int64
	outcomes              map[string]int64
	ntOutcomes            map[string]int64
	extra                 map[string]int64
	sample                any
}

func newAgg() *agg {
	return &agg{outcomes: map[string]int64{}, ntOutcomes: map[string]int64{}, extra: map[string]int64{}}
}

func (a *agg) add(class string, nontrivial bool, events int64) {
	a.n++
	a.events += events
	if len(a.outcomes) < 400 || a.outcomes[class] > 0 {
		a.outcomes[class]++
	} else {
		a.outcomes["(other)"]++
	}
	if nontrivial {
		a.nontrivial++
		a.ntOutcomes[class]++
	}
}

func (a *agg) rec(id string) grec {
	return grec{T: "g", Case: id, N: a.n, Events: a.events, Outcomes: a.outcomes, Nontrivial: a.nontrivial, Sample: a.sample, Extra: a.extra}
}

func topKeys(m map[string]int64, k int) []string {
	type kv struct {
		k string
		v int64
	}
	var l []kv
	for a, b := range m {
		l = append(l, kv{a, b})
	}
	sort.Slice(l, func(i, j int) bool {
		if l[i].v != l[j].v {
			return l[i].v > l[j].v
		}
		return l[i].k < l[j].k
	})
	var r []string
	for i := 0; i < len(l) && i < k; i++ {
		r = append(r, l[i].k)
	}
	return r
}

// violation budget: at most a few witnesses per signature per child run, the rest is counted
var violSeen = map[string]int{}

func violation(v vrec) {
	v.T = "v"
	v.Sig = friendlySigFor(v.Sig, v.Raw)
	violSeen[v.Sig]++
	if violSeen[v.Sig] > 3 {
		v.Hex = ""
		v.Detail = nil
		v.What = "(repeat) " + trunc(v.What, 120)
	}
	writeRec(v)
}

// leaveAfterExpensive: an allocation out of proportion leaves this process with a bloated heap mapping, so
// that a later out-of-memory death could not be attributed to the input in use. The child flushes the
// partial results of the case and exits; the parent resumes with a fresh child after this input.
func leaveAfterExpensive(caseID string, a *agg) {
	writeRec(a.rec(caseID))
	writeRec(vrec{T: "v", Case: caseID, Idx: -1, Sig: "", Fatal: true, What: "child left after an expensive violation"})
	resFile.Close()
	os.Exit(8)
}

// child main ----------------------------------------------------------------------------

func childMain(specPath string) {
	b, err := os.ReadFile(specPath)
	if err != nil {
		fmt.Fprintln(os.Stderr, "child: spec:", err)
		os.Exit(4)
	}
	if err := json.Unmarshal(b, &spec); err != nil {
		fmt.Fprintln(os.Stderr, "child: spec:", err)
		os.Exit(4)
	}
	if spec.MemKB > 0 {
		// every OS thread created later costs 8 MiB of the cap: let the runtime create its threads now
		var wg, gate sync.WaitGroup
		gate.Add(1)
		for i := 0; i < 10; i++ {
			wg.Add(1)
			go func() {
				runtime.LockOSThread()
				wg.Done()
				gate.Wait()
				runtime.UnlockOSThread()
			}()
		}
		wg.Wait()
		gate.Done()
		// memory cap: RLIMIT_AS = the address space mapped now + the allowance. (RLIMIT_DATA is not reliable
		// for a Go process: mapping the heap over address space that was reserved before passes the check.)
		cur := uint64(0)
		if b, err := os.ReadFile("/proc/self/statm"); err == nil {
			var pages uint64
			fmt.Sscan(string(b), &pages)
			cur = pages * uint64(os.Getpagesize())
		}
		lim := syscall.Rlimit{Cur: cur + spec.MemKB*1024, Max: cur + spec.MemKB*1024}
		if err := syscall.Setrlimit(syscall.RLIMIT_AS, &lim); err != nil {
			fmt.Fprintln(os.Stderr, "child: setrlimit:", err)
			os.Exit(4)
		}
	}
	resFile, err = os.OpenFile(spec.Result, os.O_CREATE|os.O_WRONLY|os.O_TRUNC, 0o644)
	if err != nil {
		fmt.Fprintln(os.Stderr, "child:", err)
		os.Exit(4)
	}
	progFile, err = os.OpenFile(spec.Progress, os.O_CREATE|os.O_WRONLY|os.O_TRUNC, 0o644)
	if err != nil {
		fmt.Fprintln(os.Stderr, "child:", err)
		os.Exit(4)
	}
	os.Setenv("VERIF_SEED", fmt.Sprint(spec.Seed))
	registerTypes()
	startWatchdog()
	switch spec.Mode {
	case "edf":
		childEDF()
	case "hs":
		childHS()
	case "live":
		childLive()
	default:
		fmt.Fprintln(os.Stderr, "child: unknown mode", spec.Mode)
		os.Exit(4)
	}
	writeRec(map[string]any{"t": "done"})
	resFile.Close()
	os.Exit(0)
}

// reading records back (parent) ------------------------------------------------------------

func readRecords(path string) (viols []vrec, groups []grec, done bool) {
	f, err := os.Open(path)
	if err != nil {
		return
	}
	defer f.Close()
	sc := bufio.NewScanner(f)
	sc.Buffer(make([]byte, 1<<20), 64<<20)
	for sc.Scan() {
		line := sc.Bytes()
		var head struct {
			T string `json:"t"`
		}
		if json.Unmarshal(line, &head) != nil {
			continue
		}
		switch head.T {
		case "v":
			var v vrec
			if json.Unmarshal(line, &v) == nil {
				viols = append(viols, v)
			}
		case "g":
			var g grec
			if json.Unmarshal(line, &g) == nil {
				groups = append(groups, g)
			}
		case "done":
			done = true
		}
	}
	return
}
