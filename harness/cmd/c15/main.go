// C15 — remote access control: cookie authentication and spawn/start permissions.
//
// Three scenario families, all against the real code:
//
//	(a) matrix.go     node/acceptor/route cookie matrix between two live nodes, agreement of
//	                  names / creations / flags / message-size limits on success
//	(b) adversary.go  a peer without the cookie: garbage, truncation at every byte, wrong digests,
//	                  replay of recorded transcripts at every step, digest transplanting, reflection;
//	                  in-process over net.Pipe against handshake.Start/Accept/Join and over TCP
//	                  against live nodes (hook conn.join observes pool links)
//	(c) perms.go      model-based histories of Enable/Disable Spawn/ApplicationStart, flags on both
//	                  ends, env exposure; attempts from two peers (and one peer that ignores flags)
package main

import (
	"fmt"
	"net"
	"os"
	"strings"
	"sync"
	"sync/atomic"
	"time"

	"ergo.services/ergo/gen"

	"verif/harness/hk"
)

// result of one case
type res struct {
	viol  []string
	sig   string
	incon string
}

func (r *res) violate(sig, format string, a ...any) {
	if r.sig == "" {
		r.sig = sig
	}
	r.viol = append(r.viol, "["+sig+"] "+fmt.Sprintf(format, a...))
}

func (r *res) inconclusive(format string, a ...any) {
	if r.incon == "" {
		r.incon = fmt.Sprintf(format, a...)
	}
}

var totalEvents atomic.Int64

func finish(id, scenario, key string, nontrivial bool, events int64, r *res, detail any) {
	c := hk.Case{ID: id, Scenario: scenario, Key: key, Nontrivial: nontrivial, Events: events, Detail: detail}
	switch {
	case len(r.viol) > 0:
		c.Verdict = hk.Violated
		c.Sig = r.sig
		c.What = strings.Join(r.viol, "; ")
	case r.incon != "":
		c.Verdict = hk.Inconclusive
		c.What = r.incon
	default:
		c.Verdict = hk.Held
	}
	totalEvents.Add(events)
	if c.Verdict == hk.Violated {
		// the driver keeps replay files for the first 50 violations only: emit violations at the end,
		// round-robin over the signatures, so that every signature gets witnesses on file
		pendMu.Lock()
		if _, seen := pending[c.Sig]; !seen {
			pendOrder = append(pendOrder, c.Sig)
		}
		pending[c.Sig] = append(pending[c.Sig], c)
		pendMu.Unlock()
		return
	}
	hk.Emit(c)
}

var (
	pendMu    sync.Mutex
	pending   = map[string][]hk.Case{}
	pendOrder []string
)

func flushViolations() {
	pendMu.Lock()
	defer pendMu.Unlock()
	for more := true; more; {
		more = false
		for _, sig := range pendOrder {
			if l := pending[sig]; len(l) > 0 {
				hk.Emit(l[0])
				pending[sig] = l[1:]
				more = true
			}
		}
	}
}

// fence returns once the acceptor listening on port has completely processed every TCP
// connection that was established before the call: node/network.go accept() handles one
// connection at a time (handshake, registerConnection/Join) before it accepts the next one,
// so when it closes our throw-away connection (which it does after reading the malformed
// 6 bytes) everything earlier is decided. false = watchdog expired.
func fence(port uint16) bool {
	c, err := net.DialTimeout("tcp", fmt.Sprintf("127.0.0.1:%d", port), 5*time.Second)
	if err != nil {
		return false
	}
	defer c.Close()
	c.SetDeadline(time.Now().Add(20 * time.Second))
	if _, err := c.Write([]byte{0, 0, 0, 0, 0, 0}); err != nil {
		return false
	}
	var b [64]byte
	for {
		_, err := c.Read(b[:])
		if err != nil {
			if ne, ok := err.(net.Error); ok && ne.Timeout() {
				return false
			}
			return true
		}
	}
}

func hasNode(n gen.Node, peer gen.Atom) bool {
	_, err := n.Network().Node(peer)
	return err == nil
}

func stopNodes(ns ...*hk.HNode) {
	for _, n := range ns {
		if n != nil && n.Node != nil {
			n.StopForce()
		}
	}
}

func main() {
	hk.InstallHook()
	hk.Rule("(a) matrix: every combination of {node, acceptor} cookie on the accepting side and {node, route} cookie on the dialing side over the values unset/x/y, for five ways of reaching the acceptor (explicit route, explicit route with resolver, static route, static route with resolver, registrar lookup), with seeded flags and message-size limits, plus cells that change a cookie at run time; non-trivial iff the two effective cookies differ (the rejection path is entered) ; " +
		"(b) adversary: attack scripts derived from transcripts recorded on a genuine handshake (cut at every byte, every frame replayed at every step, digests recomputed without the secret, digests transplanted between message kinds, first message reflected to an honest acceptor) and rogue acceptors / dialers that forge every authenticating field of every message they send (Salt x Digest x DigestCert, each from {garbage, empty, replayed, echoed from the victim, computed without / with a guessed cookie}), in-process against Start/Accept/Join and over TCP against live nodes; non-trivial iff the victim answered at least one attacker message (the run got past the first message); " +
		"(c) permissions: seeded histories of Enable/Disable(Spawn|ApplicationStart) with and without node lists on a target node under each flag setting, attempts from two peers after every operation, reference model = set of peers a name is currently enabled for; non-trivial iff the history contains a disable after an enable; distinct = scenario x parameters x observed outcome class")
	hk.Assume("nodes of one OS process connected over 127.0.0.1 TCP behave like nodes on different hosts for the handshake and the permission checks")
	hk.Assume("the adversary knows everything but the cookie: protocol, node names, connection ids seen on the wire, and can record and re-send any bytes; it cannot invert SHA-256")
	hk.Assume("TLS acceptors (certificate digest binding) are not exercised")
	hk.Assume("an over-strict refusal (a peer the reference model allows is refused a spawn / start) is counted in stats, not reported: the property only bounds what is granted")

	// C15_FAMILIES (development aid only): subset of "matrix,adversary,perms"
	fam := os.Getenv("C15_FAMILIES")
	want := func(f string) bool { return fam == "" || strings.Contains(fam, f) }
	if want("matrix") {
		t0 := time.Now()
		runMatrix()
		hk.Note("wall_matrix_s", time.Since(t0).Seconds())
	}
	if want("adversary") {
		t1 := time.Now()
		runAdversary()
		hk.Note("wall_adversary_s", time.Since(t1).Seconds())
	}
	if want("perms") {
		t2 := time.Now()
		runPerms()
		hk.Note("wall_perms_s", time.Since(t2).Seconds())
	}

	flushViolations()
	h, _ := hk.PointStats()
	hk.Note("hook_hits", h)
	os.Stdout.Sync()
	os.Exit(0)
}
