package main

import (
	"fmt"
	"strings"
	"time"

	"ergo.services/ergo/gen"
	"ergo.services/ergo/net/handshake"
	"ergo.services/ergo/net/proto"

	"verif/harness/hk"
)

// (a) cookie matrix between two live nodes

type cell struct {
	Kind    string // direct | direct-resolver | static | static-resolver | registrar
	ANode   string // node cookie of the accepting node ("" = unset: the node picks a random one)
	AAcc    string // gen.AcceptorOptions.Cookie ("" = unset)
	DNode   string // node cookie of the dialing node
	DRoute  string // gen.NetworkRoute.Cookie ("" = unset)
	Runtime string // "" | a-net-setcookie | a-acc-setcookie | d-net-setcookie (applied after start, before the dial)
	New     string // cookie set at run time

	AFlags, DFlags         gen.NetworkFlags
	AAccFlags, DRouteFlags *gen.NetworkFlags
	AMMS, AAccMMS, DMMS    int
	RouteFirst             bool // static kinds: AddRoute BEFORE the run-time cookie change (default: after it)
	Stagger                bool // start the dialing node in a later wall-clock second, so that the two creations differ
}

func orUnset(s string) string {
	if s == "" {
		return "-"
	}
	return s
}

func (c cell) id() string {
	s := fmt.Sprintf("M/%s/A:node=%s,acc=%s/D:node=%s,route=%s", c.Kind, orUnset(c.ANode), orUnset(c.AAcc), orUnset(c.DNode), orUnset(c.DRoute))
	if c.Runtime != "" {
		s += "/" + c.Runtime + "=" + c.New
	}
	if c.Stagger {
		s += "/staggered-start"
	}
	if c.RouteFirst {
		s += "/route-added-before-change"
	}
	return s
}

// effective cookies by the property statement
func (c cell) accEff() string {
	switch {
	case c.Runtime == "a-acc-setcookie":
		return c.New
	case c.AAcc != "":
		return c.AAcc
	case c.Runtime == "a-net-setcookie":
		return c.New
	case c.ANode != "":
		return c.ANode
	}
	return "<random of A>"
}

func (c cell) dialEff() string {
	switch {
	case c.DRoute != "":
		return c.DRoute
	case c.Runtime == "d-net-setcookie":
		return c.New
	case c.DNode != "":
		return c.DNode
	}
	return "<random of D>"
}

type fixedResolver struct {
	routes []gen.Route
}

func (f *fixedResolver) Resolve(gen.Atom) ([]gen.Route, error) { return f.routes, nil }
func (f *fixedResolver) ResolveProxy(gen.Atom) ([]gen.ProxyRoute, error) {
	return nil, gen.ErrNoRoute
}
func (f *fixedResolver) ResolveApplication(gen.Atom) ([]gen.ApplicationRoute, error) {
	return nil, gen.ErrNoRoute
}

func mkFlags(rng interface{ Intn(int) int }) gen.NetworkFlags {
	return gen.NetworkFlags{
		Enable:                       true,
		EnableRemoteSpawn:            rng.Intn(2) == 0,
		EnableRemoteApplicationStart: rng.Intn(2) == 0,
		EnableFragmentation:          false,
		EnableProxyTransit:           rng.Intn(2) == 0,
		EnableProxyAccept:            rng.Intn(2) == 0,
		EnableImportantDelivery:      rng.Intn(2) == 0,
	}
}

func startPair(c cell) (a, d *hk.HNode, err error) {
	reg := hk.FreePort()
	a, err = hk.StartNode(hk.NodeCfg{Name: hk.UniqueName("ma"), Network: true, RegPort: reg, Tweak: func(o *gen.NodeOptions) {
		o.Version = gen.Version{Name: "c15-accepting-node", Release: "r1"}
		o.Network.Cookie = c.ANode
		o.Network.Flags = c.AFlags
		o.Network.MaxMessageSize = c.AMMS
		acc := &o.Network.Acceptors[0]
		acc.Cookie = c.AAcc
		if c.AAccFlags != nil {
			acc.Flags = *c.AAccFlags
		}
		acc.MaxMessageSize = c.AAccMMS
	}})
	if err != nil {
		return nil, nil, err
	}
	if c.Stagger {
		// input preparation, not a verdict: node creation is the start time in seconds
		hk.WaitUntil(3*time.Second, func() bool { return time.Now().Unix() != a.Creation() })
	}
	d, err = hk.StartNode(hk.NodeCfg{Name: hk.UniqueName("md"), Network: true, RegPort: reg, Tweak: func(o *gen.NodeOptions) {
		o.Version = gen.Version{Name: "c15-dialing-node", Release: "r2"}
		o.Network.Cookie = c.DNode
		o.Network.Flags = c.DFlags
		o.Network.MaxMessageSize = c.DMMS
	}})
	if err != nil {
		stopNodes(a)
		return nil, nil, err
	}
	return a, d, nil
}

// dial connects d to a the way the cell says; addOnly = only install the static route (RouteFirst cells)
func dial(c cell, a, d *hk.HNode, addOnly bool) error {
	route := gen.NetworkRoute{Cookie: c.DRoute}
	if c.DRouteFlags != nil {
		route.Flags = *c.DRouteFlags
	}
	r := gen.Route{Host: "127.0.0.1", Port: a.Port}
	rv := r
	rv.HandshakeVersion = handshake.Create(handshake.Options{}).Version()
	rv.ProtoVersion = proto.Create().Version()
	var err error
	switch c.Kind {
	case "direct":
		route.Route = r
		_, err = d.Network().GetNodeWithRoute(a.Name(), route)
	case "direct-resolver":
		route.Resolver = &fixedResolver{routes: []gen.Route{rv}}
		_, err = d.Network().GetNodeWithRoute(a.Name(), route)
	case "static":
		route.Route = r
		if addOnly || !c.RouteFirst {
			if e := d.Network().AddRoute(string(a.Name()), route, 1); e != nil {
				return fmt.Errorf("harness: AddRoute: %w", e)
			}
		}
		if addOnly {
			return nil
		}
		_, err = d.Network().GetNode(a.Name())
	case "static-resolver":
		route.Resolver = &fixedResolver{routes: []gen.Route{rv}}
		if addOnly || !c.RouteFirst {
			if e := d.Network().AddRoute(string(a.Name()), route, 1); e != nil {
				return fmt.Errorf("harness: AddRoute: %w", e)
			}
		}
		if addOnly {
			return nil
		}
		_, err = d.Network().GetNode(a.Name())
	case "registrar":
		_, err = d.Network().GetNode(a.Name())
	}
	return err
}

// explainCell finds which deviation from the stated cookie precedence reproduces what the real
// code did, and names the violation after it.
func explainCell(c cell, connected bool, probe func(cookie string) bool) (sig, why string) {
	rnd := func(s, who string) string {
		if s == "" {
			return "<random of " + who + ">"
		}
		return s
	}
	startAcc := rnd(c.ANode, "A") // cookie of the endpoint as configured at start (run-time changes ignored)
	if c.AAcc != "" {
		startAcc = c.AAcc
	}
	startNode := rnd(c.ANode, "A") // node cookie given at start (acceptor cookie and run-time changes ignored)
	dialNode := c.DNode            // node cookie of the dialer (route cookie ignored)
	if c.Runtime == "d-net-setcookie" {
		dialNode = c.New
	}
	dialNode = rnd(dialNode, "D")
	runtimeSig := map[string]string{"a-net-setcookie": "node-setcookie-not-applied-to-acceptor", "a-acc-setcookie": "acceptor-setcookie-ignored"}[c.Runtime]
	routeSig := "route-cookie-ignored"
	if c.Kind == "static-resolver" {
		routeSig = "route-cookie-ignored-with-resolver"
	}
	// which cookie does the acceptor really honour? ask it with a third node that presents each candidate
	type cand struct{ cookie, sig string }
	cands := []cand{{c.accEff(), ""}}
	if runtimeSig != "" && startAcc != c.accEff() {
		cands = append(cands, cand{startAcc, runtimeSig})
	}
	if c.AAcc != "" && startNode != c.accEff() && startNode != startAcc {
		cands = append(cands, cand{startNode, "acceptor-cookie-ignored"})
	}
	accActual, accSig, found := c.accEff(), "", len(cands) == 1
	if len(cands) > 1 {
		var unprobed []cand
		for _, cd := range cands {
			if strings.HasPrefix(cd.cookie, "<random") {
				unprobed = append(unprobed, cd) // a cookie the node picked itself cannot be presented by a probe
				continue
			}
			if probe(cd.cookie) {
				accActual, accSig, found = cd.cookie, cd.sig, true
				break
			}
		}
		if !found && len(unprobed) == 1 {
			accActual, accSig, found = unprobed[0].cookie, unprobed[0].sig, true // by elimination
		}
	}
	if found {
		dialSig := "?"
		dialUsed := ""
		switch {
		case connected == (accActual == c.dialEff()):
			dialSig, dialUsed = "", c.dialEff()
		case c.DRoute != "" && connected == (accActual == dialNode):
			dialSig, dialUsed = routeSig, dialNode
		case c.DRoute == "" && c.Runtime == "d-net-setcookie" && c.RouteFirst && connected == (accActual == rnd(c.DNode, "D")):
			// the node cookie as it was when the route was added, not the current one
			dialSig, dialUsed = "static-route-freezes-node-cookie", rnd(c.DNode, "D")
		}
		if dialSig != "?" && (accSig != "" || dialSig != "") {
			sig = accSig
			if sig == "" {
				sig = dialSig
			}
			return sig, fmt.Sprintf("a probe shows the acceptor honours %q (%s); the dialer then must have presented %q (%s)", accActual, accSig, dialUsed, dialSig)
		}
	}
	if connected {
		return "connected-with-different-cookies", "no single cookie-source mix-up explains it"
	}
	return "refused-with-equal-cookies", "no single cookie-source mix-up explains it"
}

func runCell(c cell) {
	id := c.id()
	if !hk.Want(id) {
		return
	}
	r := &res{}
	var events int64
	expect := c.accEff() == c.dialEff()
	key := fmt.Sprintf("M/%s/acc-cookie-set=%v/route-cookie-set=%v/runtime=%s/route-first=%v/equal=%v", c.Kind, c.AAcc != "", c.DRoute != "", c.Runtime, c.RouteFirst, expect)
	detail := map[string]any{"cell": c, "acceptor_effective_cookie": c.accEff(), "dialer_effective_cookie": c.dialEff(), "expect_connected": expect}

	a, d, err := startPair(c)
	if err != nil {
		r.inconclusive("start nodes: %v", err)
		finish(id, "matrix", key, false, 0, r, detail)
		return
	}
	defer stopNodes(d, a)

	if c.RouteFirst {
		if err := dial(c, a, d, true); err != nil {
			r.inconclusive("%v", err)
			finish(id, "matrix", key, false, 0, r, detail)
			return
		}
	}
	switch c.Runtime {
	case "a-net-setcookie":
		a.Network().SetCookie(c.New)
	case "a-acc-setcookie":
		accs, err := a.Network().Acceptors()
		if err != nil || len(accs) != 1 {
			r.inconclusive("acceptors: %v", err)
			finish(id, "matrix", key, false, 0, r, detail)
			return
		}
		accs[0].SetCookie(c.New)
	case "d-net-setcookie":
		d.Network().SetCookie(c.New)
	}

	derr := dial(c, a, d, false)
	if !fence(a.Port) {
		r.inconclusive("watchdog: fence on acceptor")
		finish(id, "matrix", key, false, 0, r, detail)
		return
	}
	conD := derr == nil && hasNode(d, a.Name())
	conA := hasNode(a, d.Name())
	events += 2
	tornDown := false
	if conD != conA {
		// one end only: a stable state is a finding; a transient one is what remains of a handshake whose
		// last read hit the framework's 1 s read deadline on an overloaded machine (the other end then
		// closes the socket and this end follows)
		detail["one_sided_at_first_look"] = fmt.Sprintf("dialer=%v acceptor=%v", conD, conA)
		hk.WaitUntil(10*time.Second, func() bool { return hasNode(d, a.Name()) == hasNode(a, d.Name()) })
		conD, conA = hasNode(d, a.Name()), hasNode(a, d.Name())
		tornDown = !conD && !conA
	}
	if derr != nil && strings.Contains(derr.Error(), "i/o timeout") {
		tornDown = true
	}
	if tornDown && expect {
		r.inconclusive("watchdog: the handshake ran into a read deadline (dial error: %v); not a refusal", derr)
		finish(id, "matrix", key, false, events, r, detail)
		return
	}
	detail["dial_error"] = fmt.Sprint(derr)
	detail["connected_dialer_side"] = conD
	detail["connected_acceptor_side"] = conA

	if conD != conA {
		r.violate("connected-on-one-side-only", "dialer side connected=%v, acceptor side connected=%v (dial error: %v)", conD, conA, derr)
	} else if conD != expect {
		sig, why := explainCell(c, conD, func(cookie string) bool {
			p, err := hk.StartNode(hk.NodeCfg{Name: hk.UniqueName("mp"), Network: true, Cookie: cookie, RegPort: a.RegPort})
			if err != nil {
				return false
			}
			defer stopNodes(p)
			_, err = p.Network().GetNodeWithRoute(a.Name(), gen.NetworkRoute{Route: gen.Route{Host: "127.0.0.1", Port: a.Port}, Cookie: cookie})
			fence(a.Port)
			return err == nil && hasNode(a, p.Name())
		})
		detail["explained_by"] = why
		r.violate(sig, "connected=%v but the acceptor's effective cookie is %q and the dialer's effective cookie is %q (dial error: %v)", conD, c.accEff(), c.dialEff(), derr)
	}

	if conD && conA {
		// agreement of both ends
		ra, _ := d.Network().Node(a.Name()) // D's view of A
		rd, _ := a.Network().Node(d.Name()) // A's view of D
		ia, id2 := ra.Info(), rd.Info()
		wantAFlags := c.AFlags
		if c.AAccFlags != nil {
			wantAFlags = *c.AAccFlags
		}
		wantDFlags := c.DFlags
		if c.DRouteFlags != nil {
			wantDFlags = *c.DRouteFlags
		}
		wantAMMS := c.AMMS
		if c.AAccMMS != 0 {
			wantAMMS = c.AAccMMS
		}
		type cmp struct {
			what      string
			got, want any
		}
		for _, x := range []cmp{
			{"dialer's view: peer name", ra.Name(), a.Name()},
			{"acceptor's view: peer name", rd.Name(), d.Name()},
			{"dialer's view: peer creation", ra.Creation(), a.Creation()},
			{"acceptor's view: peer creation", rd.Creation(), d.Creation()},
			{"dialer's view: peer flags", ia.NetworkFlags, wantAFlags},
			{"acceptor's view: peer flags", id2.NetworkFlags, wantDFlags},
			{"dialer's view: peer max message size", ia.MaxMessageSize, wantAMMS},
			{"acceptor's view: peer max message size", id2.MaxMessageSize, c.DMMS},
			{"dialer's view: peer node version", ra.Version(), a.Version()},
			{"acceptor's view: peer node version", rd.Version(), d.Version()},
		} {
			events++
			if x.got != x.want {
				r.violate("ends-disagree", "%s is %v, the peer itself uses %v", x.what, x.got, x.want)
			}
		}
	}
	finish(id, "matrix", key, !expect, events, r, detail)
}

func runMatrix() {
	rng := hk.Rng("c15", "matrix")
	vals := []string{"", "x", "y"}
	var cells []cell
	add := func(c cell) {
		c.AFlags, c.DFlags = mkFlags(rng), mkFlags(rng)
		if rng.Intn(2) == 0 {
			f := mkFlags(rng)
			c.AAccFlags = &f
		}
		if rng.Intn(2) == 0 && (c.Kind == "direct" || c.Kind == "static" || c.Kind == "direct-resolver") {
			f := mkFlags(rng)
			c.DRouteFlags = &f
		}
		c.AMMS = []int{0, 1 << 20, 65000}[rng.Intn(3)]
		c.AAccMMS = []int{0, 0, 1 << 16, 4096}[rng.Intn(4)]
		c.DMMS = []int{0, 1 << 21, 70000}[rng.Intn(3)]
		cells = append(cells, c)
	}
	for _, kind := range []string{"direct", "direct-resolver", "static", "static-resolver", "registrar"} {
		for _, an := range []string{"x", "y"} {
			for _, aa := range vals {
				for _, dn := range []string{"x", "y"} {
					for _, dr := range vals {
						if kind == "registrar" && dr != "" {
							continue
						}
						add(cell{Kind: kind, ANode: an, AAcc: aa, DNode: dn, DRoute: dr})
					}
				}
			}
		}
	}
	// equal cookies with the two nodes started in different seconds: creations differ, so a mixed-up
	// incarnation shows
	for _, kind := range []string{"direct", "static", "registrar"} {
		add(cell{Kind: kind, ANode: "x", DNode: "x", Stagger: true})
		add(cell{Kind: kind, ANode: "y", AAcc: "y", DNode: "y", Stagger: true})
	}
	// unset node cookies (each node then picks a random one)
	add(cell{Kind: "direct", ANode: "", DNode: ""})
	add(cell{Kind: "direct", ANode: "", AAcc: "x", DNode: "", DRoute: "x"})
	add(cell{Kind: "direct", ANode: "", AAcc: "x", DNode: "x"})
	add(cell{Kind: "registrar", ANode: "", DNode: "x"})
	// cookies changed at run time
	// dialer-side histories: static route added BEFORE / AFTER Network().SetCookie on the dialer; a route
	// without its own cookie presents the node's CURRENT cookie, a route with its own cookie keeps it
	for _, kind := range []string{"static", "static-resolver"} {
		for _, first := range []bool{true, false} {
			for _, dr := range []string{"", "x", "y"} {
				add(cell{Kind: kind, ANode: "x", DNode: "x", DRoute: dr, Runtime: "d-net-setcookie", New: "y", RouteFirst: first}) // old cookie revoked
				add(cell{Kind: kind, ANode: "x", DNode: "y", DRoute: dr, Runtime: "d-net-setcookie", New: "x", RouteFirst: first}) // new cookie is the peer's
			}
		}
	}
	for _, kind := range []string{"direct", "registrar"} {
		add(cell{Kind: kind, ANode: "x", DNode: "x", Runtime: "a-net-setcookie", New: "z"})
		add(cell{Kind: kind, ANode: "x", DNode: "z", Runtime: "a-net-setcookie", New: "z"})
		add(cell{Kind: kind, ANode: "x", DNode: "x", Runtime: "a-acc-setcookie", New: "z"})
		add(cell{Kind: kind, ANode: "x", DNode: "z", Runtime: "a-acc-setcookie", New: "z"})
		add(cell{Kind: kind, ANode: "x", DNode: "y", Runtime: "d-net-setcookie", New: "x"})
		add(cell{Kind: kind, ANode: "x", DNode: "x", Runtime: "d-net-setcookie", New: "y"})
	}
	add(cell{Kind: "direct", ANode: "x", AAcc: "y", DNode: "z", Runtime: "a-acc-setcookie", New: "z"})
	add(cell{Kind: "direct", ANode: "x", AAcc: "y", DNode: "y", Runtime: "a-acc-setcookie", New: "z"})
	for i, c := range cells {
		if i < 3 {
			hk.Sample(map[string]any{"family": "matrix", "cell": c.id()})
		}
		runCell(c)
	}
	hk.Stat("matrix_cells", int64(len(cells)))
}
