package main

import (
	"fmt"

	"ergo.services/ergo/gen"
	"ergo.services/ergo/lib"
	"ergo.services/ergo/net/handshake"

	"verif/harness/hk"
)

// Rogue peers with FIELD-level forgeries: a hand-written acceptor / dialer that speaks the handshake
// framing without the cookie and fills every authenticating field of every message it sends
// (Salt, Digest, DigestCert) from everything it can know: garbage, empty, replayed from a recorded
// exchange, echoed from the victim's own message, computed with a guessed / without the cookie.
// No honest acceptor is used as an oracle here (that is the separate, listed reflection finding),
// so any nil error / registered connection in this family is a check that can be talked out of.

type forge struct {
	name string
	f    func(k *known) string
}

// known: what the rogue peer has on the table when it fills a field
type known struct {
	victimSalt, victimDigest string // from the victim's message on this connection ("" if it has not spoken)
	recSalt, recDigest       string // the same field of a recorded exchange with the secret cookie
	ownSalt                  string // the salt the rogue sends in this message
	honest                   []string
}

func digestForges() []forge {
	return []forge{
		{"garbage", func(k *known) string { return lib.RandomString(64) }},
		{"empty", func(k *known) string { return "" }},
		{"replayed", func(k *known) string { return k.recDigest }},
		{"echo-victim-digest", func(k *known) string { return k.victimDigest }},
		{"echo-victim-salt", func(k *known) string { return k.victimSalt }},
		{"guessed-cookie", func(k *known) string { return sha(append(append([]string{}, k.honest...), "guess")...) }},
		{"empty-cookie", func(k *known) string { return sha(append(append([]string{}, k.honest...), "")...) }},
		{"no-cookie-part", func(k *known) string { return sha(k.honest...) }},
	}
}

func certForges() []forge {
	return []forge{
		{"none", func(k *known) string { return "" }},
		{"garbage", func(k *known) string { return lib.RandomString(64) }},
		{"one-char", func(k *known) string { return "x" }},
		{"replayed-digest", func(k *known) string { return k.recDigest }},
		{"echo-victim-digest", func(k *known) string { return k.victimDigest }},
		{"sha-of-salts", func(k *known) string { return sha(k.ownSalt, k.victimSalt) }},
	}
}

func saltForges() []forge {
	return []forge{
		{"fresh", func(k *known) string { return lib.RandomString(64) }},
		{"empty", func(k *known) string { return "" }},
		{"replayed", func(k *known) string { return k.recSalt }},
		{"echo-victim-salt", func(k *known) string { return k.victimSalt }},
	}
}

// forged messages of a rogue ACCEPTOR after its Hello was (wrongly) believed: every shape of the rest
func rogueTail(i int) (handshake.MessageAccept, handshake.MessageIntroduce) {
	acc := handshake.MessageAccept{ID: "rogue-connection", PoolSize: 1}
	intro := handshake.MessageIntroduce{Node: "rogue@localhost", Creation: 7, Flags: gen.DefaultNetworkFlags}
	switch i % 4 {
	case 1:
		acc.Digest, acc.DigestCert = lib.RandomString(64), lib.RandomString(64)
	case 2:
		intro.Digest = lib.RandomString(64)
	case 3:
		acc.PoolSize, acc.PoolDSN = 3, []string{"127.0.0.1:1"}
		intro.Digest = "x"
	}
	return acc, intro
}

type rogueCombo struct {
	salt, digest, cert forge
	n                  int
}

func rogueCombos() []rogueCombo {
	var out []rogueCombo
	n := 0
	for _, s := range saltForges() {
		for _, d := range digestForges() {
			for _, c := range certForges() {
				if !hk.Thorough() && s.name != "fresh" && (n%3 != 0) {
					n++
					continue // quick tier: all digest x cert combinations with a fresh salt, a third of the others
				}
				out = append(out, rogueCombo{s, d, c, n})
				n++
			}
		}
	}
	return out
}

func (c rogueCombo) id() string {
	return fmt.Sprintf("salt=%s,digest=%s,cert=%s", c.salt.name, c.digest.name, c.cert.name)
}

// rogueAcceptorScript answers the victim's Hello with a forged Hello and, if the victim goes on,
// plays the rest of the acceptor's part. send/recv abstract pipe and TCP.
func rogueAcceptorScript(c rogueCombo, rec handshake.MessageHello, send func([]byte) bool, recv func() []byte) {
	h, ok := decodeFrame(recv()).(handshake.MessageHello)
	if !ok {
		return
	}
	k := &known{victimSalt: h.Salt, victimDigest: h.Digest, recSalt: rec.Salt, recDigest: rec.Digest}
	k.ownSalt = c.salt.f(k)
	k.honest = []string{k.ownSalt, h.Digest}
	send(frame(handshake.MessageHello{Salt: k.ownSalt, Digest: c.digest.f(k), DigestCert: c.cert.f(k)}))
	if recv() == nil { // the victim's Introduce: it believed the Hello
		return
	}
	acc, intro := rogueTail(c.n)
	send(frame(acc))
	send(frame(intro))
	recv()
}

func runRogue(t1, j1 transcript) {
	recHelloD := decodeFrame(t1.D[0]).(handshake.MessageHello)
	recHelloA := decodeFrame(t1.A[0]).(handshake.MessageHello)
	recIntro := decodeFrame(t1.D[1]).(handshake.MessageIntroduce)
	recJoin := decodeFrame(j1.D[0]).(handshake.MessageJoin)
	recJoinAcc := decodeFrame(j1.A[0]).(handshake.MessageAccept)
	hk.Sample(map[string]any{"family": "rogue", "combos": len(rogueCombos()), "example": rogueCombos()[1].id()})

	for _, c := range rogueCombos() {
		c := c
		// rogue acceptor against handshake.Start
		runAttack("R/start/hello/"+c.id(), "R/start/hello/cert="+c.cert.name, "forged-acceptor-hello-accepted", "start", "", func(a *atk) {
			v := a.connect("start", true)
			rogueAcceptorScript(c, recHelloA, v.send, v.recv)
		})
		// rogue dialer against handshake.Accept: forged Hello (DigestCert on a plain link included), then a forged Introduce
		runAttack("R/accept/hello/"+c.id(), "R/accept/hello/cert="+c.cert.name, "forged-dialer-hello-accepted", "accept", "", func(a *atk) {
			v := a.connect("accept", true)
			k := &known{recSalt: recHelloD.Salt, recDigest: recHelloD.Digest}
			k.ownSalt = c.salt.f(k)
			k.honest = []string{k.ownSalt}
			v.send(frame(handshake.MessageHello{Salt: k.ownSalt, Digest: c.digest.f(k), DigestCert: c.cert.f(k)}))
			h2, ok := decodeFrame(v.recv()).(handshake.MessageHello)
			if !ok {
				return
			}
			m := recIntro
			m.Node = "rogue@localhost"
			m.Digest = sha(h2.Salt, "guess")
			v.send(frame(m))
			if v.recv() != nil {
				v.recv()
				v.send(frame(handshake.MessageAccept{}))
			}
		})
	}
	// forged Introduce after a replayed (hence believed) Hello, and forged Join: Digest from every source
	for _, d := range digestForges() {
		d := d
		for _, cert := range []string{"", "x"} {
			cert := cert
			runAttack(fmt.Sprintf("R/accept/introduce/digest=%s,hello-cert=%q", d.name, cert), "R/accept/introduce/"+d.name, "forged-introduce-accepted", "accept", "", func(a *atk) {
				v := a.connect("accept", true)
				h := recHelloD
				h.DigestCert = cert
				v.send(frame(h))
				h2, ok := decodeFrame(v.recv()).(handshake.MessageHello)
				if !ok {
					return
				}
				k := &known{victimSalt: h2.Salt, victimDigest: h2.Digest, recSalt: recHelloA.Salt, recDigest: recIntro.Digest, honest: []string{h2.Salt}}
				m := recIntro
				m.Node = "rogue@localhost"
				m.Digest = d.f(k)
				v.send(frame(m))
				if v.recv() != nil {
					v.recv()
					v.send(frame(handshake.MessageAccept{DigestCert: cert}))
				}
			})
		}
		for _, s := range saltForges() {
			s := s
			runAttack(fmt.Sprintf("R/accept/join/salt=%s,digest=%s", s.name, d.name), "R/accept/join/"+d.name, "forged-join-accepted", "accept", "", func(a *atk) {
				v := a.connect("accept", true)
				// "replayed" digest = a recorded digest of another message kind; the recorded Join digest with its
				// own salt and id is the separate, listed join-replay
				k := &known{recSalt: recJoin.Salt, recDigest: recHelloD.Digest}
				k.ownSalt = s.f(k)
				k.honest = []string{t1.ID, k.ownSalt}
				v.send(frame(handshake.MessageJoin{Node: "rogue@localhost", ConnectionID: t1.ID, Salt: k.ownSalt, Digest: d.f(k)}))
				v.recv()
			})
		}
		// rogue acceptor answering a Join
		for _, c := range certForges() {
			c := c
			runAttack(fmt.Sprintf("R/join/accept/digest=%s,cert=%s", d.name, c.name), "R/join/accept/cert="+c.name, "forged-join-reply-accepted", "join", t1.ID, func(a *atk) {
				v := a.connect("join", true)
				j, ok := decodeFrame(v.recv()).(handshake.MessageJoin)
				if !ok {
					return
				}
				k := &known{victimSalt: j.Salt, victimDigest: j.Digest, recSalt: recJoin.Salt, recDigest: recJoinAcc.Digest, honest: []string{j.Digest}}
				v.send(frame(handshake.MessageAccept{ID: "rogue", PoolSize: 1, Digest: d.f(k), DigestCert: c.f(k)}))
			})
		}
	}
}

// runRogueTCP: the same forgeries against live nodes. dialer: an honest node with the secret cookie that is
// made to dial the rogue acceptor; victim: an honest node whose acceptor the rogue dialer connects to.
func runRogueTCP(dialer, victim *hk.HNode, st, jn transcript) {
	recHelloA := decodeFrame(st.A[0]).(handshake.MessageHello)
	recHelloD := decodeFrame(st.D[0]).(handshake.MessageHello)
	recIntro := decodeFrame(st.D[1]).(handshake.MessageIntroduce)
	for _, c := range rogueCombos() {
		c := c
		if !hk.Thorough() && c.salt.name != "fresh" {
			continue
		}
		name := gen.Atom("rogue@localhost")
		attackDialer("RT/dialer/hello/"+c.id(), "RT/dialer/hello/cert="+c.cert.name, "forged-acceptor-hello-accepted", dialer, name, func(w *wire) {
			rogueAcceptorScript(c, recHelloA, w.send, w.recv)
		})
		attackAcceptor("RT/acceptor/hello/"+c.id(), "RT/acceptor/hello/cert="+c.cert.name, "forged-dialer-hello-accepted", victim, func(open func() *wire) {
			w := open()
			k := &known{recSalt: recHelloD.Salt, recDigest: recHelloD.Digest}
			k.ownSalt = c.salt.f(k)
			k.honest = []string{k.ownSalt}
			w.send(frame(handshake.MessageHello{Salt: k.ownSalt, Digest: c.digest.f(k), DigestCert: c.cert.f(k)}))
			h2, ok := decodeFrame(w.recv()).(handshake.MessageHello)
			if !ok {
				return
			}
			m := recIntro
			m.Node = "rogue@localhost"
			m.Digest = sha(h2.Salt, "guess")
			w.send(frame(m))
			if w.recv() != nil {
				w.recv()
				w.send(frame(handshake.MessageAccept{}))
			}
		})
	}
	_ = jn
}
