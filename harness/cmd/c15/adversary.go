package main

import (
	"crypto/sha256"
	"encoding/binary"
	"encoding/hex"
	"fmt"
	"io"
	"net"
	"strings"
	"sync"
	"time"

	"ergo.services/ergo/gen"
	"ergo.services/ergo/lib"
	"ergo.services/ergo/net/edf"
	"ergo.services/ergo/net/handshake"

	"verif/harness/hk"
)

// (b) a peer that does not know the cookie

const secret = "c15-secret-cookie"

var hs = handshake.Create(handshake.Options{PoolSize: 3})

type stub struct {
	name     gen.Atom
	creation int64
}

func (s stub) Name() gen.Atom       { return s.name }
func (s stub) Creation() int64      { return s.creation }
func (s stub) Version() gen.Version { return gen.Version{Name: "c15", Release: "1"} }

var (
	stubDialer   = stub{"c15dialer@localhost", 1700000001}
	stubAcceptor = stub{"c15acceptor@localhost", 1700000002}
)

func hopts(cookie string) gen.HandshakeOptions {
	return gen.HandshakeOptions{Cookie: cookie, Flags: gen.DefaultNetworkFlags, MaxMessageSize: 0}
}

// ---- wire helpers

func frame(msg any) []byte {
	buf := lib.TakeBuffer()
	defer lib.ReleaseBuffer(buf)
	buf.Allocate(6)
	buf.B[0] = 87
	buf.B[1] = 1
	if err := edf.Encode(msg, buf, edf.Options{}); err != nil {
		panic("harness: cannot encode handshake message: " + err.Error())
	}
	binary.BigEndian.PutUint32(buf.B[2:6], uint32(buf.Len()-6))
	return append([]byte(nil), buf.B...)
}

func splitFrames(b []byte) [][]byte {
	var out [][]byte
	for len(b) >= 6 {
		l := int(binary.BigEndian.Uint32(b[2:6]))
		if len(b) < 6+l {
			break
		}
		out = append(out, append([]byte(nil), b[:6+l]...))
		b = b[6+l:]
	}
	if len(b) > 0 {
		out = append(out, append([]byte(nil), b...)) // trailing non-handshake bytes
	}
	return out
}

func decodeFrame(f []byte) any {
	if len(f) < 6 {
		return nil
	}
	v, _, err := edf.Decode(f[6:], edf.Options{})
	if err != nil {
		return nil
	}
	return v
}

func kindOf(f []byte) string {
	switch decodeFrame(f).(type) {
	case handshake.MessageHello:
		return "Hello"
	case handshake.MessageIntroduce:
		return "Introduce"
	case handshake.MessageAccept:
		return "Accept"
	case handshake.MessageJoin:
		return "Join"
	}
	return "?"
}

func sha(parts ...string) string {
	h := sha256.Sum256([]byte(strings.Join(parts, ":")))
	return hex.EncodeToString(h[:])
}

// recConn records what passes through a net.Conn during a handshake call
type recConn struct {
	net.Conn
	mu      sync.Mutex
	in, out []byte
}

func (r *recConn) Read(b []byte) (int, error) {
	n, err := r.Conn.Read(b)
	r.mu.Lock()
	r.in = append(r.in, b[:n]...)
	r.mu.Unlock()
	return n, err
}

func (r *recConn) Write(b []byte) (int, error) {
	n, err := r.Conn.Write(b)
	r.mu.Lock()
	r.out = append(r.out, b[:n]...)
	r.mu.Unlock()
	return n, err
}

// transcript of one handshake exchange as an eavesdropper sees it
type transcript struct {
	Kind string   // start | join
	D    [][]byte // frames sent by the dialing side
	A    [][]byte // frames sent by the accepting side
	ID   string   // connection id agreed in it
}

// recordPipe runs one genuine exchange between hs.Start/hs.Join and hs.Accept over net.Pipe
func recordPipe(kind, cookie, id string) (transcript, error) {
	c1, c2 := net.Pipe()
	rc := &recConn{Conn: c1}
	type ar struct {
		res gen.HandshakeResult
		err error
	}
	ch := make(chan ar, 1)
	go func() {
		res, err := hs.Accept(stubAcceptor, c2, hopts(cookie))
		ch <- ar{res, err}
	}()
	tr := transcript{Kind: kind}
	var derr error
	if kind == "start" {
		var res gen.HandshakeResult
		res, derr = hs.Start(stubDialer, rc, hopts(cookie))
		tr.ID = res.ConnectionID
	} else {
		_, derr = hs.Join(stubDialer, rc, id, hopts(cookie))
		tr.ID = id
	}
	a := <-ch
	c1.Close()
	c2.Close()
	if derr != nil || a.err != nil {
		return tr, fmt.Errorf("genuine %s handshake failed: dialer=%v acceptor=%v", kind, derr, a.err)
	}
	tr.D, tr.A = splitFrames(rc.out), splitFrames(rc.in)
	return tr, nil
}

// ---- victims and the attacker's view of them

type victim struct {
	role  string
	conn  net.Conn // attacker's end
	done  chan error
	judge bool
	sent  int
	rcvd  int
	res   gen.HandshakeResult
	log   []string
}

// launchPipe starts the real handshake call of the given role with the secret cookie on one
// end of a pipe and gives the other end to the attacker
func launchPipe(role, joinID string) *victim {
	a, v := net.Pipe()
	vc := &victim{role: role, conn: a, done: make(chan error, 1), judge: true}
	go func() {
		var err error
		switch role {
		case "accept":
			vc.res, err = hs.Accept(stubAcceptor, v, hopts(secret))
		case "start":
			vc.res, err = hs.Start(stubDialer, v, hopts(secret))
		case "join":
			_, err = hs.Join(stubDialer, v, joinID, hopts(secret))
		}
		v.Close()
		vc.done <- err
	}()
	return vc
}

func (v *victim) send(b []byte) bool {
	v.conn.SetWriteDeadline(time.Now().Add(3 * time.Second))
	_, err := v.conn.Write(b)
	if err == nil {
		v.sent++
		v.log = append(v.log, fmt.Sprintf("> %d bytes %s", len(b), kindOf(b)))
	} else {
		v.log = append(v.log, fmt.Sprintf("> %d bytes failed: %v", len(b), err))
	}
	return err == nil
}

// recv reads one frame sent by the victim; nil when the victim closed or stays silent
func (v *victim) recv() []byte {
	v.conn.SetReadDeadline(time.Now().Add(3 * time.Second))
	hdr := make([]byte, 6)
	if _, err := io.ReadFull(v.conn, hdr); err != nil {
		v.log = append(v.log, fmt.Sprintf("< nothing (%v)", err))
		return nil
	}
	l := int(binary.BigEndian.Uint32(hdr[2:6]))
	if l > 1<<20 {
		return nil
	}
	body := make([]byte, l)
	if _, err := io.ReadFull(v.conn, body); err != nil {
		return nil
	}
	v.rcvd++
	f := append(hdr, body...)
	v.log = append(v.log, fmt.Sprintf("< %d bytes %s", len(f), kindOf(f)))
	return f
}

// engaged: the victim answered at least one attacker message
func (v *victim) engaged() bool {
	if v.role == "accept" {
		return v.rcvd >= 1 && v.sent >= 1
	}
	return v.rcvd >= 2 && v.sent >= 1 // start/join speak first
}

// attack context: the attacker may open several connections (each one a fresh handshake call)
type atk struct {
	role    string
	joinID  string
	victims []*victim
}

func (a *atk) connect(role string, judge bool) *victim {
	v := launchPipe(role, a.joinID)
	v.judge = judge
	a.victims = append(a.victims, v)
	return v
}

// runAttack executes one attack script and judges: no judged handshake call may return nil
func runAttack(id, key, sig string, role string, joinID string, script func(a *atk)) {
	if !hk.Want(id) {
		return
	}
	r := &res{}
	a := &atk{role: role, joinID: joinID}
	script(a)
	var events int64
	engaged := false
	var logs []string
	maxRcvd := 0
	for i, v := range a.victims {
		v.conn.Close()
		select {
		case err := <-v.done:
			events += int64(v.sent+v.rcvd) + 1
			logs = append(logs, fmt.Sprintf("conn %d (%s, judged=%v): %s => %v", i, v.role, v.judge, strings.Join(v.log, " | "), err))
			if v.judge && err == nil {
				r.violate(sig, "handshake %s call returned nil to a peer that does not know the cookie (peer %q, connection id %q)", v.role, v.res.Peer, v.res.ConnectionID)
			}
			if v.judge && v.engaged() {
				engaged = true
			}
			if v.judge && v.rcvd > maxRcvd {
				maxRcvd = v.rcvd
			}
		case <-time.After(10 * time.Second):
			r.inconclusive("watchdog: handshake call did not return")
		}
	}
	finish(id, "adversary-inprocess", fmt.Sprintf("%s/answers=%d", key, maxRcvd), engaged, events, r, map[string]any{"log": logs})
}

// ---- in-process campaign

func runAdversary() {
	rng := hk.Rng("c15", "adv")

	// genuine transcripts an eavesdropper could have recorded
	t1, err1 := recordPipe("start", secret, "")
	t2, err2 := recordPipe("start", secret, "")
	to, err3 := recordPipe("start", "another-cookie", "")
	j1, err4 := recordPipe("join", secret, t1.ID)
	for _, e := range []error{err1, err2, err3, err4} {
		if e != nil {
			finish("P/record", "adversary-inprocess", "record", false, 0, &res{incon: "harness: " + e.Error()}, nil)
			return
		}
	}
	if len(t1.D) != 3 || len(t1.A) != 3 || len(j1.D) != 1 || len(j1.A) != 1 {
		finish("P/record", "adversary-inprocess", "record", false, 0, &res{incon: fmt.Sprintf("harness: unexpected transcript shape %d/%d/%d/%d", len(t1.D), len(t1.A), len(j1.D), len(j1.A))}, nil)
		return
	}
	hk.Note("transcript_frame_lengths", map[string]any{
		"dialer":   []int{len(t1.D[0]), len(t1.D[1]), len(t1.D[2])},
		"acceptor": []int{len(t1.A[0]), len(t1.A[1]), len(t1.A[2])},
		"join":     []int{len(j1.D[0]), len(j1.A[0])},
	})
	pool := map[string][]byte{
		"d0-Hello": t1.D[0], "d1-Introduce": t1.D[1], "d2-Accept": t1.D[2],
		"a0-Hello": t1.A[0], "a1-Accept": t1.A[1], "a2-Introduce": t1.A[2],
		"j0-Join": j1.D[0], "ja0-Accept": j1.A[0],
		"other-session-d1-Introduce": t2.D[1], "other-session-a0-Hello": t2.A[0],
		"other-cookie-d0-Hello": to.D[0], "other-cookie-a0-Hello": to.A[0],
	}
	poolNames := []string{"d0-Hello", "d1-Introduce", "d2-Accept", "a0-Hello", "a1-Accept", "a2-Introduce", "j0-Join", "ja0-Accept",
		"other-session-d1-Introduce", "other-session-a0-Hello", "other-cookie-d0-Hello", "other-cookie-a0-Hello"}

	// salt freshness: a fresh salt per side per exchange (otherwise whole transcripts replay)
	if hk.Want("P/salts-fresh") {
		r := &res{}
		seen := map[string]string{}
		n := hk.Pick(40, 400)
		var ev int64
		for i := 0; i < n; i++ {
			t, err := recordPipe("start", secret, "")
			if err != nil {
				r.inconclusive("harness: %v", err)
				break
			}
			j, err := recordPipe("join", secret, t.ID)
			if err != nil {
				r.inconclusive("harness: %v", err)
				break
			}
			hd, _ := decodeFrame(t.D[0]).(handshake.MessageHello)
			ha, _ := decodeFrame(t.A[0]).(handshake.MessageHello)
			ac, _ := decodeFrame(t.A[1]).(handshake.MessageAccept)
			jn, _ := decodeFrame(j.D[0]).(handshake.MessageJoin)
			for what, s := range map[string]string{"dialer hello salt": hd.Salt, "acceptor hello salt": ha.Salt, "connection id": ac.ID, "join salt": jn.Salt} {
				ev++
				if len(s) < 16 {
					r.violate("salt-not-fresh", "%s of exchange %d is %q", what, i, s)
				}
				if prev, dup := seen[s]; dup {
					r.violate("salt-not-fresh", "%s of exchange %d repeats %s: %q", what, i, prev, s)
				}
				seen[s] = fmt.Sprintf("%s of exchange %d", what, i)
			}
		}
		finish("P/salts-fresh", "adversary-inprocess", "salts-fresh", true, ev, r, nil)
	}

	// -- garbage
	ng := hk.Pick(60, 1500)
	for _, role := range []string{"accept", "start", "join"} {
		for i := 0; i < ng; i++ {
			g := make([]byte, 1+rng.Intn(300))
			rng.Read(g)
			sig := "garbage-accepted"
			switch rng.Intn(4) {
			case 0: // valid magic and version, random rest
				g[0] = 87
				if len(g) > 1 {
					g[1] = 1
				}
			case 1: // valid header with matching length, random payload
				if len(g) >= 6 {
					g[0], g[1] = 87, 1
					binary.BigEndian.PutUint32(g[2:6], uint32(len(g)-6))
				}
			case 2: // a genuine frame with a few bytes flipped
				pn := poolNames[rng.Intn(len(poolNames))]
				src := pool[pn]
				if pn == "j0-Join" {
					// the digest of a Join does not cover the node name: a damaged copy that is still
					// accepted is the replay weakness, not a parsing weakness
					sig = "join-replay"
				}
				g = append([]byte(nil), src...)
				for k := 0; k < 1+rng.Intn(4); k++ {
					g[rng.Intn(len(g))] ^= byte(1 + rng.Intn(255))
				}
			}
			id := fmt.Sprintf("P/%s/garbage/%d", role, i)
			gg := g
			runAttack(id, "P/"+role+"/garbage", sig, role, t1.ID, func(a *atk) {
				v := a.connect(role, true)
				if role != "accept" {
					v.recv()
				}
				v.send(gg)
			})
		}
	}

	// -- truncation at every byte of every recorded message (earlier frames sent whole)
	truncate := func(role string, frames [][]byte, names []string) {
		for k := range frames {
			step := 1
			if !hk.Thorough() && k > 0 {
				step = 3
			}
			for j := 0; j < len(frames[k]); j += step {
				id := fmt.Sprintf("P/%s/trunc/%s/%d", role, names[k], j)
				k, j := k, j
				runAttack(id, fmt.Sprintf("P/%s/trunc/%s", role, names[k]), "truncated-message-accepted", role, t1.ID, func(a *atk) {
					v := a.connect(role, true)
					if role != "accept" {
						v.recv()
					}
					for p := 0; p < k; p++ {
						if !v.send(frames[p]) {
							return
						}
						if p == 0 {
							if v.recv() == nil { // the victim's answer to the first message
								return
							}
						}
					}
					if j > 0 {
						v.send(frames[k][:j])
					}
				})
			}
		}
	}
	truncate("accept", t1.D, []string{"Hello", "Introduce", "Accept"})
	truncate("accept", j1.D, []string{"Join"})
	truncate("start", t1.A, []string{"Hello", "Accept", "Introduce"})
	truncate("join", j1.A, []string{"Accept"})

	// -- replay of every recorded frame at every step the attacker can reach
	for _, name := range poolNames {
		f := pool[name]
		name := name
		sig := "replayed-frame-accepted"
		if name == "j0-Join" {
			sig = "join-replay"
		}
		runAttack("P/accept/replay/step0/"+name, "P/accept/replay/step0/"+name, sig, "accept", "", func(a *atk) {
			v := a.connect("accept", true)
			v.send(f)
			v.recv()
		})
		runAttack("P/accept/replay/step1/"+name, "P/accept/replay/step1/"+name, "replayed-frame-accepted", "accept", "", func(a *atk) {
			v := a.connect("accept", true)
			v.send(t1.D[0]) // a replayed Hello is answered: the acceptor cannot know the salt is stale
			if v.recv() == nil {
				return
			}
			v.send(f)
			if v.recv() != nil { // Accept
				v.recv() // Introduce
				v.send(t1.D[2])
			}
		})
		runAttack("P/start/replay/step0/"+name, "P/start/replay/step0/"+name, "replayed-frame-accepted", "start", "", func(a *atk) {
			v := a.connect("start", true)
			v.recv()
			v.send(f)
			if v.recv() != nil { // the dialer went on to Introduce
				v.send(t1.A[1])
				v.send(t1.A[2])
				v.recv()
			}
		})
		runAttack("P/join/replay/step0/"+name, "P/join/replay/step0/"+name, "replayed-frame-accepted", "join", t1.ID, func(a *atk) {
			v := a.connect("join", true)
			v.recv()
			v.send(f)
		})
	}
	// whole transcripts
	runAttack("P/accept/replay/whole-dialer-side", "P/accept/replay/whole", "replayed-transcript-accepted", "accept", "", func(a *atk) {
		v := a.connect("accept", true)
		for _, f := range t1.D {
			v.send(f)
		}
	})
	runAttack("P/start/replay/whole-acceptor-side", "P/start/replay/whole", "replayed-transcript-accepted", "start", "", func(a *atk) {
		v := a.connect("start", true)
		v.recv()
		for _, f := range t1.A {
			v.send(f)
		}
	})
	// a replayed Join with the node name rewritten (the digest does not cover it)
	runAttack("P/accept/replay/join-renamed", "P/accept/replay/join-renamed", "join-replay", "accept", "", func(a *atk) {
		m := decodeFrame(j1.D[0]).(handshake.MessageJoin)
		m.Node = "somebody-else@localhost"
		v := a.connect("accept", true)
		v.send(frame(m))
		v.recv()
	})

	// -- digests computed without the secret
	type variant struct {
		name string
		f    func(parts ...string) string // parts = what the honest side would hash, without the cookie
	}
	variants := []variant{
		{"empty-cookie", func(p ...string) string { return sha(append(p, "")...) }},
		{"wrong-cookie", func(p ...string) string { return sha(append(p, "guess")...) }},
		{"no-cookie-part", func(p ...string) string { return sha(p...) }},
		{"empty-digest", func(p ...string) string { return "" }},
		{"echo-first-part", func(p ...string) string { return p[0] }},
		{"zero-digest", func(p ...string) string { return strings.Repeat("0", 64) }},
		{"recorded-digest-of-other-session", nil},
	}
	recHelloD := decodeFrame(t1.D[0]).(handshake.MessageHello)
	recHelloA := decodeFrame(t1.A[0]).(handshake.MessageHello)
	recIntro := decodeFrame(t1.D[1]).(handshake.MessageIntroduce)
	recJoin := decodeFrame(j1.D[0]).(handshake.MessageJoin)
	recJoinAcc := decodeFrame(j1.A[0]).(handshake.MessageAccept)
	for _, vr := range variants {
		vr := vr
		dg := func(rec string, parts ...string) string {
			if vr.f == nil {
				return rec
			}
			return vr.f(parts...)
		}
		runAttack("P/accept/wrong-digest/hello/"+vr.name, "P/accept/wrong-digest/hello", "wrong-digest-accepted", "accept", "", func(a *atk) {
			salt := lib.RandomString(64)
			v := a.connect("accept", true)
			v.send(frame(handshake.MessageHello{Salt: salt, Digest: dg(recHelloD.Digest, salt)}))
			v.recv()
		})
		runAttack("P/accept/wrong-digest/introduce/"+vr.name, "P/accept/wrong-digest/introduce", "wrong-digest-accepted", "accept", "", func(a *atk) {
			v := a.connect("accept", true)
			v.send(t1.D[0])
			h2, ok := decodeFrame(v.recv()).(handshake.MessageHello)
			if !ok {
				return
			}
			m := recIntro
			m.Node = "intruder@localhost"
			m.Digest = dg(recIntro.Digest, h2.Salt)
			v.send(frame(m))
			if v.recv() != nil {
				v.recv()
				v.send(frame(handshake.MessageAccept{}))
			}
		})
		// the acceptor's own answer echoed back as the Introduce digest
		runAttack("P/accept/wrong-digest/join/"+vr.name, "P/accept/wrong-digest/join", "wrong-digest-accepted", "accept", "", func(a *atk) {
			salt := lib.RandomString(64)
			v := a.connect("accept", true)
			v.send(frame(handshake.MessageJoin{Node: recJoin.Node, ConnectionID: t1.ID, Salt: salt, Digest: dg(recJoin.Digest, t1.ID, salt)}))
			v.recv()
		})
		runAttack("P/start/wrong-digest/hello/"+vr.name, "P/start/wrong-digest/hello", "wrong-digest-accepted", "start", "", func(a *atk) {
			v := a.connect("start", true)
			h, ok := decodeFrame(v.recv()).(handshake.MessageHello)
			if !ok {
				return
			}
			salt := lib.RandomString(64)
			v.send(frame(handshake.MessageHello{Salt: salt, Digest: dg(recHelloA.Digest, salt, h.Digest)}))
			if v.recv() != nil {
				v.send(frame(handshake.MessageAccept{ID: "intruder", PoolSize: 1}))
				v.send(frame(handshake.MessageIntroduce{Node: "intruder@localhost", Creation: 7, Flags: gen.DefaultNetworkFlags}))
				v.recv()
			}
		})
		runAttack("P/join/wrong-digest/accept/"+vr.name, "P/join/wrong-digest/accept", "wrong-digest-accepted", "join", t1.ID, func(a *atk) {
			v := a.connect("join", true)
			j, ok := decodeFrame(v.recv()).(handshake.MessageJoin)
			if !ok {
				return
			}
			v.send(frame(handshake.MessageAccept{Digest: dg(recJoinAcc.Digest, j.Digest)}))
		})
	}
	runAttack("P/accept/wrong-digest/introduce/echo-acceptor-digest", "P/accept/wrong-digest/introduce", "wrong-digest-accepted", "accept", "", func(a *atk) {
		v := a.connect("accept", true)
		v.send(t1.D[0])
		h2, ok := decodeFrame(v.recv()).(handshake.MessageHello)
		if !ok {
			return
		}
		m := recIntro
		m.Digest = h2.Digest
		v.send(frame(m))
		v.recv()
	})

	// -- digest transplant: the acceptor's answer to a replayed Hello is H(salt':digest:cookie) for a
	// salt' of its choice; a Join is authenticated by H(id:salt:cookie). Same shape, no domain separation.
	runAttack("P/accept/transplant/hello-answer-as-join-digest", "P/accept/transplant/hello-answer-as-join-digest", "hello-digest-accepted-as-join-digest", "accept", "", func(a *atk) {
		o := a.connect("accept", false) // oracle use of the same acceptor; this call fails (EOF) and is not judged
		o.send(t1.D[0])
		h2, ok := decodeFrame(o.recv()).(handshake.MessageHello)
		if !ok {
			return
		}
		v := a.connect("accept", true)
		v.send(frame(handshake.MessageJoin{Node: "intruder@localhost", ConnectionID: h2.Salt, Salt: recHelloD.Digest, Digest: h2.Digest}))
		v.recv()
	})
	// the join answer H(digest:cookie) has the shape of a Hello digest H(salt:cookie): use a replayed Join as oracle
	runAttack("P/accept/transplant/join-answer-as-hello-digest", "P/accept/transplant/join-answer-as-hello-digest", "join-digest-accepted-as-hello-digest", "accept", "", func(a *atk) {
		o := a.connect("accept", false) // replayed Join: returns nil by itself (join-replay), judged elsewhere
		o.send(j1.D[0])
		acc, ok := decodeFrame(o.recv()).(handshake.MessageAccept)
		if !ok {
			return
		}
		v := a.connect("accept", true)
		v.send(frame(handshake.MessageHello{Salt: recJoin.Digest, Digest: acc.Digest}))
		h2, ok := decodeFrame(v.recv()).(handshake.MessageHello)
		if !ok {
			return
		}
		// ... and the Introduce digest H(salt2:cookie) would need a second oracle answer for a salt the attacker does not choose
		m := recIntro
		m.Node = "intruder@localhost"
		m.Digest = sha(h2.Salt, "")
		v.send(frame(m))
		v.recv()
	})

	// -- reflection: the dialer's challenge is answered by any honest acceptor with the same cookie
	// (e.g. the dialer's own); everything after the acceptor's Hello carries no digest at all
	reflect := func(id string, after func(v *victim)) {
		runAttack(id, id, "dialer-accepts-reflected-hello", "start", "", func(a *atk) {
			v := a.connect("start", true)
			h := v.recv()
			if h == nil {
				return
			}
			o := a.connect("accept", false) // honest acceptor used as an oracle; its call fails with EOF
			o.send(h)
			h2 := o.recv()
			if h2 == nil {
				return
			}
			v.send(h2)
			if v.recv() == nil { // Introduce of the victim
				return
			}
			after(v)
		})
	}
	reflect("P/start/reflect/forged-identity", func(v *victim) {
		v.send(frame(handshake.MessageAccept{ID: "intruder-connection", PoolSize: 1}))
		v.send(frame(handshake.MessageIntroduce{Node: "intruder@localhost", Creation: 7, Flags: gen.DefaultNetworkFlags}))
		v.recv()
	})
	reflect("P/start/reflect/replayed-accept-introduce", func(v *victim) {
		v.send(t1.A[1])
		v.send(t1.A[2])
		v.recv()
	})

	runRogue(t1, j1)
	runAdversaryTCP(t1, j1)
}
