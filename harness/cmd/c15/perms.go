package main

import (
	"fmt"
	"sort"
	"strings"
	"sync"
	"time"

	"ergo.services/ergo/act"
	"ergo.services/ergo/gen"

	"verif/harness/hk"
)

// (c) spawn / application-start permissions, flags, env exposure

// ---- instrumented behaviours

type initRec struct {
	Token  string
	Node   gen.Atom
	Parent gen.PID
	Env    map[string]string
}

var (
	initMu   sync.Mutex
	initRecs = map[string][]initRec{} // token -> inits observed on a target
)

func initsOf(token string) []initRec {
	initMu.Lock()
	defer initMu.Unlock()
	return append([]initRec(nil), initRecs[token]...)
}

// spawned is what the target node creates for a remote spawn / as the member of a remotely started application
type spawned struct {
	act.Actor
}

func factorySpawned() gen.ProcessBehavior { return &spawned{} }

func (s *spawned) Init(args ...any) error {
	rec := initRec{Node: s.Node().Name(), Parent: s.Parent(), Env: map[string]string{}}
	if len(args) > 0 {
		rec.Token = fmt.Sprint(args[0])
	}
	for k, v := range s.EnvList() {
		rec.Env[strings.ToUpper(string(k))] = fmt.Sprint(v)
	}
	initMu.Lock()
	initRecs[rec.Token] = append(initRecs[rec.Token], rec)
	initMu.Unlock()
	return nil
}

// runner executes closures in the context of a process of a requesting node (process.RemoteSpawn
// may only be called from the process itself)
type runner struct {
	act.Actor
}

type doMsg struct {
	f    func(p *runner)
	done chan struct{}
}

func factoryRunner() gen.ProcessBehavior { return &runner{} }

func (r *runner) HandleMessage(from gen.PID, message any) error {
	if m, ok := message.(doMsg); ok {
		m.f(r)
		close(m.done)
	}
	return nil
}

type permApp struct {
	name  gen.Atom
	token string
}

func (a *permApp) Load(node gen.Node, args ...any) (gen.ApplicationSpec, error) {
	return gen.ApplicationSpec{
		Name:  a.name,
		Mode:  gen.ApplicationModeTemporary,
		Group: []gen.ApplicationMemberSpec{{Factory: factorySpawned, Name: gen.Atom(string(a.name) + "_member"), Args: []any{a.token}}},
	}, nil
}
func (a *permApp) Start(mode gen.ApplicationMode) {}
func (a *permApp) Terminate(reason error)         {}

// ---- reference model: whom a name is currently enabled for

type permModel struct {
	exists bool
	all    bool
	listed map[gen.Atom]bool
	denied map[gen.Atom]bool
}

func newModel() *permModel {
	return &permModel{listed: map[gen.Atom]bool{}, denied: map[gen.Atom]bool{}}
}

func (m *permModel) enable(nodes []gen.Atom) {
	if len(nodes) == 0 {
		m.exists, m.all = true, true
		m.listed, m.denied = map[gen.Atom]bool{}, map[gen.Atom]bool{}
		return
	}
	if !m.exists {
		m.exists, m.all = true, false
	}
	for _, n := range nodes {
		m.listed[n] = true
		delete(m.denied, n)
	}
}

func (m *permModel) disable(nodes []gen.Atom) {
	if len(nodes) == 0 {
		*m = *newModel()
		return
	}
	if !m.exists {
		return
	}
	for _, n := range nodes {
		delete(m.listed, n)
		m.denied[n] = true
	}
}

// allowed is the most permissive reading of "explicitly enabled for it": a name enabled for
// everybody stays enabled for the peers that were not named in a later Disable / Enable call
func (m *permModel) allowed(p gen.Atom) bool {
	return m.exists && !m.denied[p] && (m.all || m.listed[p])
}

func (m *permModel) String() string {
	if !m.exists {
		return "not enabled"
	}
	l := []string{}
	for n := range m.listed {
		l = append(l, "+"+string(n))
	}
	for n := range m.denied {
		l = append(l, "-"+string(n))
	}
	sort.Strings(l)
	return fmt.Sprintf("all=%v %s", m.all, strings.Join(l, " "))
}

// ---- world: one target, two honest requesters, one requester that ignores the target's flags

type requester struct {
	label     string
	node      *hk.HNode
	remote    gen.RemoteNode // its view of the target
	runnerPID gen.PID
	exposeSp  bool
	exposeApp bool
	envKey    string
}

type world struct {
	id       string
	target   *hk.HNode
	spawnOK  bool
	appOK    bool
	reqs     []*requester
	liar     *requester
	overStr  int64
	expected map[string]int // token -> number of creations the verdicts so far account for
	timeouts map[string]int // kind -> requests that got no answer at all (watchdog budget)
	envMiss  int64
	attempts int64
}

func startWorld(idx int, spawnOK, appOK bool) (*world, error) {
	w := &world{id: fmt.Sprintf("w%d", idx), spawnOK: spawnOK, appOK: appOK, expected: map[string]int{}, timeouts: map[string]int{}}
	reg := hk.FreePort()
	flags := gen.DefaultNetworkFlags
	flags.EnableRemoteSpawn = spawnOK
	flags.EnableRemoteApplicationStart = appOK
	var err error
	w.target, err = hk.StartNode(hk.NodeCfg{Name: hk.UniqueName("target"), Network: true, Cookie: secret, RegPort: reg, Tweak: func(o *gen.NodeOptions) {
		o.Network.Flags = flags
		o.Env = map[gen.Env]any{"C15_ENV_OF_TARGET": "target"}
	}})
	if err != nil {
		return nil, err
	}
	mk := func(label string, exposeSp, exposeApp bool, rec *recHS) (*requester, error) {
		r := &requester{label: label, exposeSp: exposeSp, exposeApp: exposeApp, envKey: "C15_ENV_OF_" + strings.ToUpper(label)}
		tweak := func(o *gen.NodeOptions) {
			o.Env = map[gen.Env]any{gen.Env(r.envKey): "secret-of-" + label}
			o.Security.ExposeEnvRemoteSpawn = exposeSp
			o.Security.ExposeEnvRemoteApplicationStart = exposeApp
		}
		var err error
		if rec != nil {
			r.node, err = startRecNode(label, secret, reg, rec, tweak)
		} else {
			r.node, err = hk.StartNode(hk.NodeCfg{Name: hk.UniqueName(label), Network: true, Cookie: secret, RegPort: reg, Tweak: tweak})
		}
		if err != nil {
			return nil, err
		}
		r.runnerPID, err = r.node.Spawn(factoryRunner, gen.ProcessOptions{})
		return r, err
	}
	swap := idx%2 == 1
	r1, err := mk("ra", !swap, swap, nil)
	if err != nil {
		return w, err
	}
	w.reqs = append(w.reqs, r1)
	r2, err := mk("rb", swap, !swap, nil)
	if err != nil {
		return w, err
	}
	w.reqs = append(w.reqs, r2)
	// ra dials the target, the target dials rb: the target is acceptor on one connection and dialer on the other
	if r1.remote, err = hk.Connect(r1.node, w.target); err != nil {
		return w, fmt.Errorf("connect ra: %w", err)
	}
	if _, err = hk.Connect(w.target, r2.node); err != nil {
		return w, fmt.Errorf("connect rb: %w", err)
	}
	if !fence(r2.node.Port) {
		return w, fmt.Errorf("fence rb")
	}
	if r2.remote, err = r2.node.Network().Node(w.target.Name()); err != nil {
		return w, fmt.Errorf("rb has no connection: %w", err)
	}
	if !spawnOK || !appOK {
		rec := newRecHS(1)
		rec.lie = func(r *gen.HandshakeResult) {
			r.PeerFlags.EnableRemoteSpawn = true
			r.PeerFlags.EnableRemoteApplicationStart = true
		}
		w.liar, err = mk("rliar", true, true, rec)
		if err != nil {
			return w, err
		}
		if w.liar.remote, err = connectRec(w.liar.node, w.target, rec); err != nil {
			return w, fmt.Errorf("connect rliar: %w", err)
		}
	}
	return w, nil
}

func (w *world) stop() {
	for _, r := range w.reqs {
		stopNodes(r.node)
	}
	if w.liar != nil {
		stopNodes(w.liar.node)
	}
	stopNodes(w.target)
}

type attempt struct {
	By      string `json:"by"`
	Via     string `json:"via"`
	Err     string `json:"err"`
	Granted bool   `json:"granted"`
	Allowed bool   `json:"model_allows"`
	Model   string `json:"model"`
}

// trySpawn makes one spawn attempt and reports whether a process came into being on the target
func (w *world) trySpawn(r *requester, name gen.Atom, token string, viaProcess bool) (bool, error) {
	var err error
	if viaProcess {
		m := doMsg{done: make(chan struct{})}
		m.f = func(p *runner) {
			_, err = p.RemoteSpawn(w.target.Name(), name, gen.ProcessOptions{}, token)
		}
		if e := r.node.Send(r.runnerPID, m); e != nil {
			return false, fmt.Errorf("harness: %w", e)
		}
		select {
		case <-m.done:
		case <-time.After(20 * time.Second):
			return false, fmt.Errorf("harness: watchdog")
		}
	} else {
		_, err = r.remote.Spawn(name, gen.ProcessOptions{}, token)
	}
	return len(initsOf(token)) > 0, err
}

func classify(kind string, m *permModel, peer gen.Atom, flagOK bool) string {
	switch {
	case !flagOK:
		return kind + "-granted-flag-disabled"
	case m.exists && !m.all && len(m.listed) == 0:
		return "disable-widens-to-all"
	case m.exists && m.all && m.denied[peer]:
		return "disable-node-ignored-when-enabled-for-all"
	case !m.exists:
		return kind + "-granted-name-not-enabled"
	}
	return kind + "-granted-to-unlisted-peer"
}

type op struct {
	Enable bool
	Nodes  []gen.Atom
}

func (o op) String() string {
	s := "Disable"
	if o.Enable {
		s = "Enable"
	}
	l := []string{}
	for _, n := range o.Nodes {
		l = append(l, string(n))
	}
	return s + "(" + strings.Join(l, ",") + ")"
}

func (w *world) runHistory(h int, kind string, ops []op) {
	id := fmt.Sprintf("H/%s/%s/%d", w.id, kind, h)
	if !hk.Want(id) {
		return
	}
	r := &res{}
	if w.timeouts[kind] >= hk.Pick(5, 25) {
		// every unanswered request costs gen.DefaultRequestTimeout; do not let a tree on which the
		// requester no longer refuses locally turn the check into a harness timeout. (A few unanswered
		// requests are normal on the unchanged tree: net/proto/connection.go delivers a MessageResult with a
		// non-blocking send on an unbuffered channel, so an answer that arrives before the requester
		// reaches waitResult is dropped and the request "times out" although it was executed.)
		r.inconclusive("watchdog: %d %s requests of this world got no answer from the target; remaining histories skipped", w.timeouts[kind], kind)
		finish(id, "permissions", id, false, 0, r, nil)
		return
	}
	rng := hk.Rng("c15", "hist-run", id)
	name := gen.Atom(fmt.Sprintf("c15_%s_%s_%d", w.id, kind, h))
	net := w.target.Network()
	model := newModel()
	flagOK := w.spawnOK
	if kind == "app" {
		flagOK = w.appOK
		if _, err := w.target.ApplicationLoad(&permApp{name: name, token: string(name)}); err != nil {
			r.inconclusive("harness: ApplicationLoad: %v", err)
			finish(id, "permissions", id, false, 0, r, nil)
			return
		}
	}
	var trace []any
	var events int64
	granted, deniedN := 0, 0
	seenEnable, disableAfterEnable, usesLists := false, false, false
	for step, o := range ops {
		var err error
		switch {
		case kind == "spawn" && o.Enable:
			err = net.EnableSpawn(name, factorySpawned, o.Nodes...)
		case kind == "spawn":
			err = net.DisableSpawn(name, o.Nodes...)
		case o.Enable:
			err = net.EnableApplicationStart(name, o.Nodes...)
		default:
			err = net.DisableApplicationStart(name, o.Nodes...)
		}
		if err == nil {
			if o.Enable {
				model.enable(o.Nodes)
				seenEnable = true
			} else {
				if seenEnable {
					disableAfterEnable = true
				}
				model.disable(o.Nodes)
			}
		} else if o.Enable {
			r.inconclusive("harness: %s returned %v", o, err)
			break
		}
		if len(o.Nodes) > 0 {
			usesLists = true
		}
		trace = append(trace, fmt.Sprintf("%s -> %v   model: %s", o, err, model))
		for _, rq := range w.reqs {
			peer := rq.node.Name()
			allowed := flagOK && model.allowed(peer)
			at := attempt{By: rq.label, Allowed: allowed, Model: model.String()}
			var ok bool
			var aerr error
			token := fmt.Sprintf("%s/%d/%s", name, step, rq.label)
			if kind == "spawn" {
				via := rng.Intn(2) == 0
				at.Via = "RemoteNode.Spawn"
				if via {
					at.Via = "Process.RemoteSpawn"
				}
				ok, aerr = w.trySpawn(rq, name, token, via)
			} else {
				token = string(name)
				before := len(initsOf(token))
				at.Via = "RemoteNode.ApplicationStart"
				aerr = rq.remote.ApplicationStart(name, gen.ApplicationOptions{})
				ok = len(initsOf(token)) > before
			}
			w.attempts++
			events++
			if aerr == gen.ErrTimeout {
				w.timeouts[kind]++
			}
			at.Err = fmt.Sprint(aerr)
			at.Granted = ok || aerr == nil
			trace = append(trace, at)
			if allowed || ok {
				// a creation for this request is either legitimate (it may even happen after the requester
				// gave up waiting) or was judged right here
				w.expected[token]++
			}
			if at.Granted {
				granted++
			} else {
				deniedN++
			}
			if aerr != nil && strings.HasPrefix(aerr.Error(), "harness:") {
				r.inconclusive("%v", aerr)
			}
			if at.Granted && !allowed {
				r.violate(classify(kind, model, peer, flagOK), "%s of %q requested by %s (%s) was granted (err=%v, process created=%v) after %v; reference: %s, target flag allows=%v",
					kind, name, rq.label, peer, aerr, ok, trace0(ops[:step+1]), model, flagOK)
			}
			if !at.Granted && allowed {
				w.overStr++
			}
			if ok {
				// env of what was created
				recs := initsOf(token)
				rec := recs[len(recs)-1]
				events++
				_, has := rec.Env[rq.envKey]
				expose := rq.exposeSp
				if kind == "app" {
					expose = rq.exposeApp
				}
				if has && !expose {
					r.violate("env-leaked-without-expose", "the process created on the target for %s's %s request carries %s=%q although %s did not switch exposure on", rq.label, kind, rq.envKey, rec.Env[rq.envKey], rq.label)
				}
				if !has && expose {
					w.envMiss++
				}
				for _, other := range w.reqs {
					if other != rq {
						if _, leak := rec.Env[other.envKey]; leak {
							r.violate("env-of-third-node", "the process created for %s carries the env of %s", rq.label, other.label)
						}
					}
				}
				if kind == "app" {
					w.target.ApplicationStop(name)
					if !hk.WaitUntil(10*time.Second, func() bool {
						info, err := w.target.ApplicationInfo(name)
						return err == nil && info.State == gen.ApplicationStateLoaded
					}) {
						r.inconclusive("watchdog: application did not stop")
					}
				}
			} else if aerr == nil && kind == "app" {
				// started without a member process: stop anyway
				w.target.ApplicationStop(name)
			}
		}
		if r.incon != "" {
			break
		}
	}
	// clean up
	if kind == "spawn" {
		net.DisableSpawn(name)
	} else {
		net.DisableApplicationStart(name)
		w.target.ApplicationStop(name)
		hk.WaitUntil(5*time.Second, func() bool { return w.target.ApplicationUnload(name) == nil })
	}
	key := fmt.Sprintf("H/%s/spawnflag=%v/appflag=%v/lists=%v/disable-after-enable=%v/granted=%v/denied=%v", kind, w.spawnOK, w.appOK, usesLists, disableAfterEnable, granted > 0, deniedN > 0)
	finish(id, "permissions", key, disableAfterEnable, events, r, map[string]any{"trace": trace})
}

func trace0(ops []op) string {
	l := []string{}
	for _, o := range ops {
		l = append(l, o.String())
	}
	return strings.Join(l, "; ")
}

// liarCase: a connected peer whose software ignores the target's flags asks anyway
func (w *world) liarCase(kind string, wg *sync.WaitGroup) {
	id := fmt.Sprintf("H/%s/%s/peer-ignores-flags", w.id, kind)
	if !hk.Want(id) || w.liar == nil {
		return
	}
	wg.Add(1)
	go func() {
		defer wg.Done()
		r := &res{}
		name := gen.Atom(fmt.Sprintf("c15_%s_%s_liar", w.id, kind))
		flagOK := w.spawnOK
		var err error
		granted := false
		if kind == "spawn" {
			w.target.Network().EnableSpawn(name, factorySpawned)
			_, err = w.liar.remote.Spawn(name, gen.ProcessOptions{}, string(name))
		} else {
			flagOK = w.appOK
			w.target.ApplicationLoad(&permApp{name: name, token: string(name)})
			w.target.Network().EnableApplicationStart(name)
			err = w.liar.remote.ApplicationStart(name, gen.ApplicationOptions{})
		}
		granted = err == nil || len(initsOf(string(name))) > 0
		if granted && !flagOK {
			r.violate(kind+"-granted-flag-disabled", "%s requested by a peer that ignores the target's flags was granted (err=%v, processes created=%d) although the target runs with the flag switched off", kind, err, len(initsOf(string(name))))
		}
		finish(id, "permissions", fmt.Sprintf("H/%s/peer-ignores-flags/flag=%v/granted=%v", kind, flagOK, granted), !flagOK, 2, r,
			map[string]any{"err": fmt.Sprint(err), "granted": granted, "target_flag": flagOK})
	}()
}

// census: every process the target created for this world must be accounted for by an attempt that
// was judged when it returned (catches a creation that happens after the requester was refused)
func (w *world) census() {
	id := fmt.Sprintf("H/%s/census", w.id)
	if !hk.Want(id) {
		return
	}
	r := &res{}
	initMu.Lock()
	var n int64
	for token, recs := range initRecs {
		if !strings.HasPrefix(token, "c15_"+w.id+"_") || strings.HasSuffix(token, "_liar") {
			continue
		}
		n += int64(len(recs))
		if len(recs) > w.expected[token] {
			r.violate("created-after-refusal", "the target created %d process(es) for request(s) %q; the reference model allows (or the monitor already judged) only %d", len(recs), token, w.expected[token])
		}
	}
	initMu.Unlock()
	finish(id, "permissions", "H/census", false, n+1, r, nil)
}

func genOps(rng interface{ Intn(int) int }, peers []gen.Atom) []op {
	n := 2 + rng.Intn(6)
	ops := []op{}
	pick := func() []gen.Atom {
		switch rng.Intn(5) {
		case 0, 1:
			return nil
		case 2:
			return []gen.Atom{peers[rng.Intn(2)]}
		case 3:
			return []gen.Atom{peers[rng.Intn(len(peers))]}
		}
		out := []gen.Atom{}
		for _, p := range peers {
			if rng.Intn(2) == 0 {
				out = append(out, p)
			}
		}
		if len(out) == 0 {
			out = append(out, peers[0])
		}
		return out
	}
	for i := 0; i < n; i++ {
		en := rng.Intn(2) == 0
		if i == 0 {
			en = rng.Intn(5) != 0
		}
		ops = append(ops, op{Enable: en, Nodes: pick()})
	}
	return ops
}

func runPerms() {
	gen.DefaultRequestTimeout = 3 // seconds (default 5): what a request costs that the target drops silently (flag switched off)
	nh := hk.Pick(150, 2500)
	widx := 0
	for _, spawnOK := range []bool{true, false} {
		for _, appOK := range []bool{true, false} {
			w, err := startWorld(widx, spawnOK, appOK)
			widx++
			if err != nil {
				finish(fmt.Sprintf("H/w%d/setup", widx-1), "permissions", "setup", false, 0, &res{incon: "harness: " + err.Error()}, nil)
				if w != nil {
					w.stop()
				}
				continue
			}
			var wg sync.WaitGroup
			w.liarCase("spawn", &wg)
			w.liarCase("app", &wg)
			peers := []gen.Atom{w.reqs[0].node.Name(), w.reqs[1].node.Name(), "ghost@localhost"}
			// directed shapes first, then seeded histories
			directed := [][]op{
				{{true, peers[:1]}, {false, peers[:1]}},
				{{true, peers[:2]}, {false, peers[:1]}, {false, peers[1:2]}},
				{{true, nil}, {false, peers[:1]}},
				{{true, nil}, {true, peers[:1]}, {false, peers[:1]}},
				{{true, peers[:1]}, {true, nil}, {false, nil}},
				{{false, nil}, {true, peers[1:2]}, {false, peers[2:]}},
			}
			for _, kind := range []string{"spawn", "app"} {
				n := nh
				if (kind == "spawn" && !spawnOK) || (kind == "app" && !appOK) {
					n = nh / 4 // every request is refused locally by the flag check; few are enough
				}
				for h := 0; h < n; h++ {
					var ops []op
					if h < len(directed) {
						ops = directed[h]
					} else {
						ops = genOps(hk.Rng("c15", "hist", w.id, kind, fmt.Sprint(h)), peers)
					}
					if widx == 1 && h < 2 {
						hk.Sample(map[string]any{"family": "permissions", "kind": kind, "ops": trace0(ops)})
					}
					w.runHistory(h, kind, ops)
				}
			}
			wg.Wait()
			w.census()
			hk.Stat("perm_attempts", w.attempts)
			hk.Stat("perm_refused_though_model_allows", w.overStr)
			hk.Stat("perm_env_absent_though_exposed", w.envMiss)
			w.stop()
		}
	}
}
