package main

import (
	"encoding/binary"
	"fmt"
	"io"
	"net"
	"sort"
	"strings"
	"sync"
	"time"

	"ergo.services/ergo/gen"
	"ergo.services/ergo/net/handshake"

	"verif/harness/hk"
)

// recHS wraps the real handshake of a node: it records the bytes of every outgoing handshake
// (what an eavesdropper on the wire sees) and can misreport the peer's flags to its own node
// (a peer whose software ignores the other side's flags). Registered under its own version
// string because a node keeps the built-in handshake under "EHS:R1".
type recHS struct {
	gen.NetworkHandshake
	mu  sync.Mutex
	trs []transcript
	lie func(r *gen.HandshakeResult)
}

func newRecHS(pool int) *recHS {
	return &recHS{NetworkHandshake: handshake.Create(handshake.Options{PoolSize: pool})}
}

func (r *recHS) Version() gen.Version {
	v := r.NetworkHandshake.Version()
	v.Release += "-c15"
	return v
}

func (r *recHS) Start(n gen.NodeHandshake, c net.Conn, o gen.HandshakeOptions) (gen.HandshakeResult, error) {
	rc := &recConn{Conn: c}
	res, err := r.NetworkHandshake.Start(n, rc, o)
	if err == nil {
		r.mu.Lock()
		r.trs = append(r.trs, transcript{Kind: "start", D: splitFrames(rc.out), A: splitFrames(rc.in), ID: res.ConnectionID})
		r.mu.Unlock()
		if r.lie != nil {
			r.lie(&res)
		}
	}
	return res, err
}

func (r *recHS) Join(n gen.NodeHandshake, c net.Conn, id string, o gen.HandshakeOptions) ([]byte, error) {
	rc := &recConn{Conn: c}
	tail, err := r.NetworkHandshake.Join(n, rc, id, o)
	if err == nil {
		r.mu.Lock()
		r.trs = append(r.trs, transcript{Kind: "join", D: splitFrames(rc.out), A: splitFrames(rc.in), ID: id})
		r.mu.Unlock()
	}
	return tail, err
}

func (r *recHS) recorded(kind string) []transcript {
	r.mu.Lock()
	defer r.mu.Unlock()
	var out []transcript
	for _, t := range r.trs {
		if t.Kind == kind {
			out = append(out, t)
		}
	}
	return out
}

// startRecNode starts a node whose outgoing handshakes go through a recHS
func startRecNode(prefix, cookie string, reg uint16, rec *recHS, tweak func(o *gen.NodeOptions)) (*hk.HNode, error) {
	return hk.StartNode(hk.NodeCfg{Name: hk.UniqueName(prefix), Network: true, Cookie: cookie, RegPort: reg, Tweak: func(o *gen.NodeOptions) {
		o.Network.Handshake = rec
		o.Network.Acceptors[0].Handshake = rec
		if tweak != nil {
			tweak(o)
		}
	}})
}

func connectRec(from, to *hk.HNode, rec *recHS) (gen.RemoteNode, error) {
	return from.Network().GetNodeWithRoute(to.Name(), gen.NetworkRoute{
		Route:  gen.Route{Host: "127.0.0.1", Port: to.Port, HandshakeVersion: rec.Version()},
		Cookie: to.Cookie,
	})
}

// ---- observation of pool links

type joinRec struct{ local, remote string }

var (
	joinMu  sync.Mutex
	joinLog []joinRec
)

func watchJoins() func() {
	return hk.Observe("conn.join", nil, func(_ string, subject any) {
		c, ok := subject.(net.Conn)
		if !ok || c == nil {
			return
		}
		joinMu.Lock()
		joinLog = append(joinLog, joinRec{c.LocalAddr().String(), c.RemoteAddr().String()})
		joinMu.Unlock()
	})
}

func joinMark() int {
	joinMu.Lock()
	defer joinMu.Unlock()
	return len(joinLog)
}

// joinsFrom counts pool links the hook saw since mark whose remote end is the given socket
func joinsFrom(mark int, remote string) int {
	joinMu.Lock()
	defer joinMu.Unlock()
	n := 0
	for _, j := range joinLog[mark:] {
		if j.remote == remote {
			n++
		}
	}
	return n
}

func joinsAt(local string) int {
	joinMu.Lock()
	defer joinMu.Unlock()
	n := 0
	for _, j := range joinLog {
		if j.local == local {
			n++
		}
	}
	return n
}

// gained lists the nodes present in after but not in before (a connection lost meanwhile is not the
// attacker's gain)
func gained(before, after string) string {
	b := map[string]bool{}
	for _, x := range strings.Split(before, ",") {
		b[x] = true
	}
	g := []string{}
	for _, x := range strings.Split(after, ",") {
		if x != "" && !b[x] {
			g = append(g, x)
		}
	}
	return strings.Join(g, ",")
}

func nodeSet(n gen.Node) string {
	l := []string{}
	for _, a := range n.Network().Nodes() {
		l = append(l, string(a))
	}
	sort.Strings(l)
	return strings.Join(l, ",")
}

// ---- attacker's TCP connection

type wire struct {
	c    net.Conn
	sent int
	rcvd int
	log  []string
}

func (w *wire) send(b []byte) bool {
	w.c.SetWriteDeadline(time.Now().Add(3 * time.Second))
	_, err := w.c.Write(b)
	if err == nil {
		w.sent++
		w.log = append(w.log, fmt.Sprintf("> %d bytes %s", len(b), kindOf(b)))
	}
	return err == nil
}

func (w *wire) recv() []byte {
	w.c.SetReadDeadline(time.Now().Add(3 * time.Second))
	hdr := make([]byte, 6)
	if _, err := io.ReadFull(w.c, hdr); err != nil {
		w.log = append(w.log, fmt.Sprintf("< nothing (%v)", err))
		return nil
	}
	l := int(binary.BigEndian.Uint32(hdr[2:6]))
	if l > 1<<20 {
		return nil
	}
	body := make([]byte, l)
	if _, err := io.ReadFull(w.c, body); err != nil {
		return nil
	}
	w.rcvd++
	f := append(hdr, body...)
	w.log = append(w.log, fmt.Sprintf("< %d bytes %s", len(f), kindOf(f)))
	return f
}

// attackAcceptor runs a script on fresh TCP connections to the victim's acceptor and judges:
// the victim must gain neither a connection nor a pool link from the attacker's sockets.
func attackAcceptor(id, key, sig string, v *hk.HNode, script func(open func() *wire)) {
	if !hk.Want(id) {
		return
	}
	r := &res{}
	before := nodeSet(v)
	mark := joinMark()
	var wires []*wire
	open := func() *wire {
		c, err := net.DialTimeout("tcp", fmt.Sprintf("127.0.0.1:%d", v.Port), 5*time.Second)
		if err != nil {
			r.inconclusive("harness: dial victim: %v", err)
			return &wire{c: deadConn{}}
		}
		w := &wire{c: c}
		wires = append(wires, w)
		return w
	}
	script(open)
	if !fence(v.Port) {
		r.inconclusive("watchdog: fence on the victim's acceptor")
	}
	var events int64
	engaged := false
	maxR := 0
	var logs []string
	for i, w := range wires {
		events += int64(w.sent + w.rcvd)
		if w.sent > 0 && w.rcvd > 0 {
			engaged = true
		}
		if w.rcvd > maxR {
			maxR = w.rcvd
		}
		if n := joinsFrom(mark, w.c.LocalAddr().String()); n > 0 {
			r.violate(sig, "the victim added the attacker's socket %s to a connection pool (%d conn.join observations)", w.c.LocalAddr(), n)
		}
		events++
		logs = append(logs, fmt.Sprintf("conn %d: %s", i, strings.Join(w.log, " | ")))
	}
	after := nodeSet(v)
	events++
	if g := gained(before, after); g != "" {
		r.violate(sig, "the victim gained connection(s) [%s] (connected before: [%s], after: [%s])", g, before, after)
	}
	for _, w := range wires {
		w.c.Close()
	}
	finish(id, "adversary-tcp", fmt.Sprintf("%s/answers=%d", key, maxR), engaged, events, r, map[string]any{"log": logs, "nodes_before": before, "nodes_after": after})
}

type deadConn struct{ net.Conn }

func (deadConn) Write([]byte) (int, error)        { return 0, io.ErrClosedPipe }
func (deadConn) Read([]byte) (int, error)         { return 0, io.EOF }
func (deadConn) Close() error                     { return nil }
func (deadConn) SetReadDeadline(time.Time) error  { return nil }
func (deadConn) SetWriteDeadline(time.Time) error { return nil }
func (deadConn) LocalAddr() net.Addr              { return &net.TCPAddr{} }

// attackDialer makes the victim dial the attacker's listener (as it would after a poisoned
// route / registrar answer) and judges: the dial must fail and the victim must gain no connection.
func attackDialer(id, key, sig string, v *hk.HNode, dialName gen.Atom, script func(w *wire)) {
	if !hk.Want(id) {
		return
	}
	r := &res{}
	l, err := net.Listen("tcp", "127.0.0.1:0")
	if err != nil {
		finish(id, "adversary-tcp", key, false, 0, &res{incon: "harness: listen: " + err.Error()}, nil)
		return
	}
	defer l.Close()
	before := nodeSet(v)
	w := &wire{c: deadConn{}}
	done := make(chan struct{})
	hold := make(chan struct{})
	go func() {
		defer close(done)
		c, err := l.Accept()
		if err != nil {
			return
		}
		w.c = c
		script(w)
		<-hold // keep the socket open until the verdict is taken
		c.Close()
	}()
	_, derr := v.Network().GetNodeWithRoute(dialName, gen.NetworkRoute{Route: gen.Route{Host: "127.0.0.1", Port: uint16(l.Addr().(*net.TCPAddr).Port)}})
	after := nodeSet(v)
	if derr == nil {
		r.violate(sig, "the dial to a peer that does not know the cookie succeeded; the victim now lists [%s] as connected", after)
	} else if g := gained(before, after); g != "" {
		r.violate(sig, "the dial failed (%v) but the victim gained connection(s) [%s]", derr, g)
	}
	close(hold)
	l.Close()
	select {
	case <-done:
	case <-time.After(10 * time.Second):
		r.inconclusive("watchdog: attacker script did not finish")
	}
	if derr == nil {
		if rn, err := v.Network().Node(dialName); err == nil {
			rn.Disconnect()
		}
		hk.WaitUntil(5*time.Second, func() bool { return nodeSet(v) == before })
	}
	finish(id, "adversary-tcp", fmt.Sprintf("%s/answers=%d", key, w.rcvd), w.sent > 0 && w.rcvd >= 2, int64(w.sent+w.rcvd)+2, r,
		map[string]any{"log": w.log, "dial_error": fmt.Sprint(derr), "nodes_before": before, "nodes_after": after})
}

func runAdversaryTCP(pt, pj transcript) {
	cancel := watchJoins()
	defer cancel()
	reg := hk.FreePort()
	victim, err := hk.StartNode(hk.NodeCfg{Name: hk.UniqueName("victim"), Network: true, Cookie: secret, RegPort: reg, PoolSize: 3})
	if err != nil {
		finish("T/setup", "adversary-tcp", "setup", false, 0, &res{incon: "harness: " + err.Error()}, nil)
		return
	}
	rec := newRecHS(3)
	peer, err := startRecNode("peer", secret, reg, rec, nil)
	if err != nil {
		stopNodes(victim)
		finish("T/setup", "adversary-tcp", "setup", false, 0, &res{incon: "harness: " + err.Error()}, nil)
		return
	}
	defer stopNodes(peer, victim)
	vAddr := fmt.Sprintf("127.0.0.1:%d", victim.Port)
	if _, err := connectRec(peer, victim, rec); err != nil {
		finish("T/setup", "adversary-tcp", "setup", false, 0, &res{incon: "harness: honest connect failed: " + err.Error()}, nil)
		return
	}
	// the honest peer opens two more pool links with Join handshakes
	if !hk.WaitUntil(10*time.Second, func() bool { return len(rec.recorded("join")) == 2 && joinsAt(vAddr) == 3 }) {
		finish("T/setup", "adversary-tcp", "setup", false, 0, &res{incon: fmt.Sprintf("watchdog: honest pool not complete (joins recorded %d, links at victim %d)", len(rec.recorded("join")), joinsAt(vAddr))}, nil)
		return
	}
	st := rec.recorded("start")[0]
	jn := rec.recorded("join")[0]
	if len(st.D) < 3 || len(st.A) < 3 || len(jn.D) < 1 || len(jn.A) < 1 {
		finish("T/setup", "adversary-tcp", "setup", false, 0, &res{incon: "harness: unexpected recorded transcript shape"}, nil)
		return
	}
	rng := hk.Rng("c15", "advtcp")

	// garbage
	for i := 0; i < hk.Pick(20, 300); i++ {
		g := make([]byte, 1+rng.Intn(200))
		rng.Read(g)
		if rng.Intn(2) == 0 && len(g) >= 6 {
			g[0], g[1] = 87, 1
			binary.BigEndian.PutUint32(g[2:6], uint32(len(g)-6))
		}
		attackAcceptor(fmt.Sprintf("T/acceptor/garbage/%d", i), "T/acceptor/garbage", "garbage-accepted", victim, func(open func() *wire) {
			open().send(g)
		})
	}
	// truncation (sampled in the quick tier; every byte in-process already)
	trunc := func(frames [][]byte, names []string) {
		for k := range names {
			step := hk.Pick(7, 1)
			for j := 0; j < len(frames[k]); j += step {
				k, j := k, j
				attackAcceptor(fmt.Sprintf("T/acceptor/trunc/%s/%d", names[k], j), "T/acceptor/trunc/"+names[k], "truncated-message-accepted", victim, func(open func() *wire) {
					w := open()
					for p := 0; p < k; p++ {
						if !w.send(frames[p]) {
							return
						}
						if p == 0 && w.recv() == nil {
							return
						}
					}
					if j > 0 {
						w.send(frames[k][:j])
					}
					if tc, ok := w.c.(*net.TCPConn); ok {
						tc.CloseWrite()
					}
				})
			}
		}
	}
	trunc(st.D, []string{"Hello", "Introduce", "Accept"})
	trunc(jn.D, []string{"Join"})

	// replay of every recorded frame at the two reachable steps, while the honest connection lives
	pool := map[string][]byte{"d0-Hello": st.D[0], "d1-Introduce": st.D[1], "d2-Accept": st.D[2], "a0-Hello": st.A[0], "a1-Accept": st.A[1], "a2-Introduce": st.A[2], "ja0-Accept": jn.A[0],
		"pipe-session-d0-Hello": pt.D[0], "pipe-session-j0-Join": pj.D[0]}
	names := []string{"d0-Hello", "d1-Introduce", "d2-Accept", "a0-Hello", "a1-Accept", "a2-Introduce", "ja0-Accept", "pipe-session-d0-Hello", "pipe-session-j0-Join"}
	for _, name := range names {
		f := pool[name]
		attackAcceptor("T/acceptor/replay/step0/"+name, "T/acceptor/replay/step0/"+name, "replayed-frame-accepted", victim, func(open func() *wire) {
			w := open()
			w.send(f)
			w.recv()
		})
		attackAcceptor("T/acceptor/replay/step1/"+name, "T/acceptor/replay/step1/"+name, "replayed-frame-accepted", victim, func(open func() *wire) {
			w := open()
			w.send(st.D[0])
			if w.recv() == nil {
				return
			}
			w.send(f)
			if w.recv() != nil {
				w.recv()
				w.send(st.D[2])
			}
		})
	}
	attackAcceptor("T/acceptor/replay/whole-dialer-side", "T/acceptor/replay/whole", "replayed-transcript-accepted", victim, func(open func() *wire) {
		w := open()
		for _, f := range st.D {
			w.send(f)
		}
		w.recv()
	})
	// the recorded Join of a living connection, replayed as it is
	for i, j := range rec.recorded("join") {
		j := j
		attackAcceptor(fmt.Sprintf("T/acceptor/replay/join-of-live-connection/%d", i), "T/acceptor/replay/join-of-live-connection", "join-replay", victim, func(open func() *wire) {
			w := open()
			w.send(j.D[0])
			w.recv()
		})
	}
	attackAcceptor("T/acceptor/replay/join-renamed", "T/acceptor/replay/join-renamed", "join-replay", victim, func(open func() *wire) {
		m := decodeFrame(jn.D[0]).(handshake.MessageJoin)
		m.Node = "somebody-else@localhost"
		w := open()
		w.send(frame(m))
		w.recv()
	})
	// digest transplant against the live acceptor (the handshake accepts it; does the node?)
	attackAcceptor("T/acceptor/transplant/hello-answer-as-join-digest", "T/acceptor/transplant", "hello-digest-accepted-as-join-digest", victim, func(open func() *wire) {
		o := open()
		o.send(st.D[0])
		h2, ok := decodeFrame(o.recv()).(handshake.MessageHello)
		if !ok {
			return
		}
		hd := decodeFrame(st.D[0]).(handshake.MessageHello)
		for _, node := range []gen.Atom{peer.Name(), "intruder@localhost"} {
			w := open()
			w.send(frame(handshake.MessageJoin{Node: node, ConnectionID: h2.Salt, Salt: hd.Digest, Digest: h2.Digest}))
			w.recv()
		}
	})

	// live dialer as the victim: a second honest node with the same cookie dials the attacker
	d2, err := hk.StartNode(hk.NodeCfg{Name: hk.UniqueName("dialer"), Network: true, Cookie: secret, RegPort: reg})
	if err != nil {
		finish("T/dialer/setup", "adversary-tcp", "setup", false, 0, &res{incon: "harness: " + err.Error()}, nil)
		return
	}
	defer stopNodes(d2)
	attackDialer("T/dialer/replay/whole-acceptor-side", "T/dialer/replay/whole", "replayed-transcript-accepted", d2, victim.Name(), func(w *wire) {
		w.recv()
		for _, f := range st.A[:3] {
			w.send(f)
		}
		w.recv()
	})
	for _, name := range names {
		f := pool[name]
		attackDialer("T/dialer/replay/step0/"+name, "T/dialer/replay/step0/"+name, "replayed-frame-accepted", d2, victim.Name(), func(w *wire) {
			w.recv()
			w.send(f)
			if w.recv() != nil {
				w.send(st.A[1])
				w.send(st.A[2])
				w.recv()
			}
		})
	}
	for i := 0; i < hk.Pick(5, 100); i++ {
		g := make([]byte, 1+rng.Intn(200))
		rng.Read(g)
		attackDialer(fmt.Sprintf("T/dialer/garbage/%d", i), "T/dialer/garbage", "garbage-accepted", d2, victim.Name(), func(w *wire) {
			w.recv()
			w.send(g)
		})
	}
	// reflection: the victim's own acceptor answers the victim's challenge
	reflect := func(id string, dialName, introduceAs gen.Atom) {
		attackDialer(id, id, "dialer-accepts-reflected-hello", d2, dialName, func(w *wire) {
			h := w.recv()
			if h == nil {
				return
			}
			oc, err := net.DialTimeout("tcp", fmt.Sprintf("127.0.0.1:%d", d2.Port), 5*time.Second)
			if err != nil {
				return
			}
			o := &wire{c: oc}
			o.send(h)
			h2 := o.recv()
			oc.Close()
			if h2 == nil {
				return
			}
			w.send(h2)
			if w.recv() == nil {
				return
			}
			w.send(frame(handshake.MessageAccept{ID: "intruder-connection", PoolSize: 1}))
			w.send(frame(handshake.MessageIntroduce{Node: introduceAs, Creation: 7, Flags: gen.DefaultNetworkFlags}))
			w.recv()
		})
	}
	reflect("T/dialer/reflect/forged-identity", "intruder@localhost", "intruder@localhost")
	reflect("T/dialer/reflect/impersonate-known-node", victim.Name(), victim.Name())

	runRogueTCP(d2, victim, st, jn)

	// after the honest peer has gone, its recorded Join must be worthless
	if rn, err := peer.Network().Node(victim.Name()); err == nil {
		rn.Disconnect()
	}
	if hk.WaitUntil(10*time.Second, func() bool { return nodeSet(victim) == "" }) {
		attackAcceptor("T/acceptor/replay/join-of-closed-connection", "T/acceptor/replay/join-of-closed-connection", "join-replay-after-close", victim, func(open func() *wire) {
			w := open()
			w.send(jn.D[0])
			w.recv()
		})
	} else {
		finish("T/acceptor/replay/join-of-closed-connection", "adversary-tcp", "T/acceptor/replay/join-of-closed-connection", false, 0, &res{incon: "watchdog: honest connection did not close"}, nil)
	}
}
