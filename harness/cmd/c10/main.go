// C10 — no orphans: supervisors, pools, applications and the node take the
// processes they started down with them.
//
// Fault enumeration by runtime monitoring.  Every case builds a fresh node with
// an application whose whole tree (supervisors, pools, leaf actors, workers) is
// created by instrumented factories that record (pid, parent).  A case is
// (tree shape, victim, cause, moment, locus): the moment is arranged with
// harness parks (a child held in Init, a replacement held in Init during a
// restart wave, a child held in a handler during a shutdown, the spawner held at
// the yield point proc.spawn.linked), the cause is applied to the victim, all
// parks are released and the oracles look at Node.ProcessList() at quiescence
// and at the instant a graceful stop returns success.
package main

import (
	"errors"
	"fmt"
	"math/rand"
	"os"
	"runtime"
	"sort"
	"strconv"
	"strings"
	"sync"
	"sync/atomic"
	"time"

	"ergo.services/ergo/act"
	"ergo.services/ergo/gen"

	"verif/harness/hk"
)

// ---------------------------------------------------------------------------
// shapes

func leaf(label string, trap bool) *nspec { return &nspec{Label: label, Kind: "leaf", Trap: trap} }
func pool(label string, n int) *nspec     { return &nspec{Label: label, Kind: "pool", Size: n} }
func sup(label string, t act.SupervisorType, st act.SupervisorStrategy, keep bool, kids ...*nspec) *nspec {
	return &nspec{Label: label, Kind: "sup", Type: t, Strategy: st, KeepOrder: keep, Kids: kids}
}
func sofo(label string, st act.SupervisorStrategy, n int) *nspec {
	return &nspec{Label: label, Kind: "sup", Type: act.SupervisorTypeSimpleOneForOne, Strategy: st, Size: n,
		Kids: []*nspec{leaf(label+".d", false)}}
}

const (
	ofo = act.SupervisorTypeOneForOne
	afo = act.SupervisorTypeAllForOne
	rfo = act.SupervisorTypeRestForOne

	transient = act.SupervisorStrategyTransient
	permanent = act.SupervisorStrategyPermanent
)

func sup2of(t string, st act.SupervisorStrategy) *nspec {
	switch t {
	case "sofo":
		return sofo("s1.s2", st, 3)
	case "afo":
		return sup("s1.s2", afo, st, false, leaf("s1.s2.a", false), leaf("s1.s2.b", true), leaf("s1.s2.c", false))
	case "rfo":
		return sup("s1.s2", rfo, st, false, leaf("s1.s2.a", false), leaf("s1.s2.b", true), leaf("s1.s2.c", false))
	case "rfo+keep":
		return sup("s1.s2", rfo, st, true, leaf("s1.s2.a", false), leaf("s1.s2.b", true), leaf("s1.s2.c", false))
	case "afo+keep":
		return sup("s1.s2", afo, st, true, leaf("s1.s2.a", false), leaf("s1.s2.b", true), leaf("s1.s2.c", false))
	}
	return sup("s1.s2", ofo, st, false, leaf("s1.s2.a", false), leaf("s1.s2.b", true), leaf("s1.s2.c", false))
}

func sup1of(t string, st act.SupervisorStrategy, order int, s2 *nspec) *nspec {
	kids := []*nspec{s2, pool("s1.p", 3), leaf("s1.l", true)}
	switch order % 3 {
	case 1:
		kids = []*nspec{leaf("s1.l", true), s2, pool("s1.p", 3)}
	case 2:
		kids = []*nspec{pool("s1.p", 3), leaf("s1.l", true), s2}
	}
	switch t {
	case "afo":
		return sup("s1", afo, st, false, kids...)
	case "rfo":
		return sup("s1", rfo, st, false, kids...)
	case "rfo+keep":
		return sup("s1", rfo, st, true, kids...)
	case "afo+keep":
		return sup("s1", afo, st, true, kids...)
	}
	return sup("s1", ofo, st, false, kids...)
}

func stName(s act.SupervisorStrategy) string {
	if s == permanent {
		return "perm"
	}
	return "trans"
}

func mkShape(t1 string, st1 act.SupervisorStrategy, t2 string, st2 act.SupervisorStrategy, order int, mode gen.ApplicationMode) *shape {
	name := fmt.Sprintf("%s.%s-%s.%s-o%d-%s", t1, stName(st1), t2, stName(st2), order%3, mode)
	return &shape{Name: name, Mode: mode, Group: []*nspec{
		sup1of(t1, st1, order, sup2of(t2, st2)),
		leaf("x", false),
	}}
}

// poolShape: a pool and a supervisor directly under the application
func poolShape(mode gen.ApplicationMode) *shape {
	return &shape{Name: "apppool-" + mode.String(), Mode: mode, Group: []*nspec{
		pool("p", 3),
		sup("s1", ofo, transient, false, leaf("s1.a", false), leaf("s1.b", true)),
	}}
}

// singleShape: supervisors with exactly one child (the smallest relation sets on an owner); for this shape an outside
// observer monitors and demonitors the victim before a kill/exit/handler-error/panic cause (applyCause)
func singleShape(mode gen.ApplicationMode) *shape {
	return &shape{Name: "single-" + mode.String(), Mode: mode, Group: []*nspec{
		sup("s1", ofo, transient, false, sup("s1.s2", afo, transient, false, leaf("s1.s2.a", false))),
		leaf("x", false),
	}}
}

// obsActor runs closures sent to it inside its own process (an ordinary third party that monitors other processes)
type obsActor struct{ act.Actor }

func (o *obsActor) HandleMessage(from gen.PID, m any) error {
	if f, ok := m.(func(gen.Process)); ok {
		f(o)
	}
	return nil
}

// observeAndForget: a third process monitors pid and demonitors it again; must leave every other relation of pid intact
func (x *run) observeAndForget(pid gen.PID) {
	w := x.w
	op, err := w.node.Spawn(func() gen.ProcessBehavior { return &obsActor{} }, gen.ProcessOptions{})
	if err != nil {
		w.step("observer: spawn failed: %v", err)
		return
	}
	done := make(chan string, 1)
	w.node.Send(op, func(p gen.Process) {
		e1 := p.MonitorPID(pid)
		e2 := p.DemonitorPID(pid)
		done <- fmt.Sprintf("monitor: %v, demonitor: %v", e1, e2)
	})
	select {
	case r := <-done:
		w.step("observer %s on %s: %s", op, pid, r)
	case <-time.After(5 * time.Second):
		w.step("observer %s on %s: no answer", op, pid)
	}
}

func shapes() []*shape {
	tmp := gen.ApplicationModeTemporary
	r := hk.Rng("c10", "shapes")
	out := []*shape{
		singleShape(tmp),
		mkShape("ofo", permanent, "afo", transient, 0, tmp),
		mkShape("rfo+keep", transient, "ofo", permanent, 1, tmp),
		mkShape("afo", transient, "sofo", transient, 2, tmp),
		poolShape(tmp),
	}
	if hk.Thorough() == false {
		return out
	}
	t1s := []string{"ofo", "afo", "rfo", "rfo+keep", "afo+keep"}
	t2s := []string{"ofo", "afo", "rfo", "sofo", "rfo+keep"}
	sts := []act.SupervisorStrategy{transient, permanent}
	modes := []gen.ApplicationMode{tmp, gen.ApplicationModeTransient, gen.ApplicationModePermanent}
	seen := map[string]bool{}
	for _, s := range out {
		seen[s.Name] = true
	}
	for _, t1 := range t1s {
		for _, t2 := range t2s {
			s := mkShape(t1, sts[r.Intn(2)], t2, sts[r.Intn(2)], r.Intn(3), modes[r.Intn(3)])
			if seen[s.Name] == false {
				seen[s.Name] = true
				out = append(out, s)
			}
		}
	}
	out = append(out, poolShape(gen.ApplicationModePermanent))
	return out
}

// ---------------------------------------------------------------------------
// cases

type ccase struct {
	Shape  *shape
	Victim string // node | app | label of a supervisor or pool
	Cause  string // kill exit herr panic appstop appstopforce nodestop nodestopforce childinit-err childinit-panic
	Moment string // idle startup restart shutdown gate gate-childdead
	Locus  string // supervisor / pool at which the moment is arranged
}

func (c ccase) id() string {
	return fmt.Sprintf("%s/%s/%s/%s@%s", c.Shape.Name, c.Victim, c.Cause, c.Moment, c.Locus)
}

func (c ccase) victimLabel() string {
	if c.Victim == "node" || c.Victim == "app" {
		return ""
	}
	return c.Victim
}

func enumerate(sh *shape) []ccase {
	type vic struct {
		name string
		kind string
	}
	victims := []vic{{"node", "node"}, {"app", "app"}}
	var loci []*nspec
	sh.walk(func(n, _ *nspec) {
		if n.Kind == "sup" || n.Kind == "pool" {
			victims = append(victims, vic{n.Label, n.Kind})
			loci = append(loci, n)
		}
	})
	var out []ccase
	for _, v := range victims {
		var causes []string
		switch v.kind {
		case "node":
			causes = []string{"nodestop", "nodestopforce"}
		case "app":
			causes = []string{"appstop", "appstopforce"}
		default:
			causes = []string{"kill", "exit", "herr", "panic"}
		}
		vl := v.name
		if v.kind == "node" || v.kind == "app" {
			vl = ""
		}
		for _, cause := range causes {
			out = append(out, ccase{sh, v.name, cause, "idle", ""})
			for _, l := range loci {
				if under(l.Label, vl) == false {
					continue
				}
				if l.sofo() == false {
					out = append(out, ccase{sh, v.name, cause, "startup", l.Label})
					if l.Kind == "sup" {
						out = append(out, ccase{sh, v.name, cause, "startup-childdead", l.Label})
					}
				}
				out = append(out, ccase{sh, v.name, cause, "restart", l.Label})
				if v.kind != "pool" {
					out = append(out, ccase{sh, v.name, cause, "shutdown", l.Label})
				}
				if l.Kind == "sup" {
					out = append(out, ccase{sh, v.name, cause, "gate", l.Label})
					out = append(out, ccase{sh, v.name, cause, "gate-childdead", l.Label})
				}
			}
		}
		// the victim's own start-up fails because a child's Init fails
		if (v.kind == "sup" || v.kind == "pool") && sh.find(v.name).sofo() == false {
			out = append(out, ccase{sh, v.name, "childinit-err", "startup", v.name})
			out = append(out, ccase{sh, v.name, "childinit-panic", "startup", v.name})
		}
	}
	if strings.HasPrefix(sh.Name, "single-") {
		// one-child supervisors: moments that need a sibling of the parked child (startup-childdead) or a direct
		// leaf child of the locus (startup@s1, whose only child is a supervisor) cannot be arranged in this shape
		var keep []ccase
		for _, c := range out {
			if c.Moment == "startup-childdead" || (c.Moment == "startup" && c.Locus == "s1") {
				continue
			}
			keep = append(keep, c)
		}
		out = keep
	}
	return out
}

// ---------------------------------------------------------------------------
// one run

type finding struct {
	class   string // orphan | hang | at-return
	sig     string
	what    string
	witness any
}

type call struct {
	name     string
	done     chan struct{}
	err      error
	returned atomic.Bool
	gid      atomic.Value // string: id of the goroutine that executes the call
}

func goid() string {
	b := make([]byte, 64)
	n := runtime.Stack(b, false)
	f := strings.Fields(string(b[:n]))
	if len(f) > 1 {
		return f[1]
	}
	return ""
}

// stackOf returns the current stack of goroutine gid
func stackOf(gid string) string {
	buf := make([]byte, 1<<20)
	for {
		n := runtime.Stack(buf, true)
		if n < len(buf) {
			buf = buf[:n]
			break
		}
		buf = make([]byte, 2*len(buf))
	}
	for _, blk := range strings.Split(string(buf), "\n\n") {
		if strings.HasPrefix(blk, "goroutine "+gid+" ") {
			return blk
		}
	}
	return ""
}

// selfDeadlock: the goroutine of the call holds the read lock of the application's member map
// (lib.Map.Range) and, below it on the same stack, waits for the write lock of a lib.Map
// (LoadAndDelete from application.terminate): it can never continue.  A structural witness.
func (c *call) selfDeadlock() (string, bool) {
	gid, _ := c.gid.Load().(string)
	if gid == "" {
		return "", false
	}
	st := stackOf(gid)
	if strings.Contains(st, "lib.(*Map[...]).Range") && strings.Contains(st, "lib.(*Map[...]).LoadAndDelete") &&
		strings.Contains(st, "sync.(*RWMutex).Lock") && strings.Contains(st, "node.(*application).terminate") {
		var keep []string
		for _, l := range strings.Split(st, "\n") {
			if strings.HasPrefix(l, "\t") == false {
				keep = append(keep, l)
			}
		}
		return strings.Join(keep, " <- "), true
	}
	return "", false
}

type run struct {
	c   ccase
	w   *world
	rng *rand.Rand

	mu       sync.Mutex
	findings []finding
	calls    []*call
	incon    string

	// measured at the fault instant
	parkedAtFault   []string
	gateHeld        bool
	gateChildKilled bool
	shutdownSeen    bool
	restartSeen     bool
	// a registered child of the locus was killed while the locus was inside ProcessInit (a descendant parked in Init)
	childDiedInStartup bool

	stopGate   *hk.Gate
	stopRanged bool // Node.Stop was held at node.stop.ranged while a start was in flight

	// the application's member map is dead-locked: nothing about this node can be asked any more
	wedged bool

	gracefulOK   int // graceful stop calls that returned success and were checked at return
	gracefulFail int
	// pids registered (born) when Node.Stop / StopForce returned
	nodeStopReturned atomic.Bool
	forceStopped     atomic.Bool
	forceIssued      atomic.Bool // ApplicationStopForce / Node.StopForce was called in this case
	bornAtStop       map[gen.PID]bool
}

func (x *run) addFinding(f finding) {
	x.mu.Lock()
	x.findings = append(x.findings, f)
	x.mu.Unlock()
}

func (x *run) inconclusive(s string) {
	x.mu.Lock()
	if x.incon == "" {
		x.incon = s
	}
	x.mu.Unlock()
}

func (x *run) async(name string, fn func() error) *call {
	c := &call{name: name, done: make(chan struct{})}
	x.mu.Lock()
	x.calls = append(x.calls, c)
	x.mu.Unlock()
	go func() {
		c.gid.Store(goid())
		c.err = fn()
		c.returned.Store(true)
		close(c.done)
	}()
	return c
}

func (c *call) wait(d time.Duration) bool {
	select {
	case <-c.done:
		return true
	case <-time.After(d):
		return false
	}
}

func witnessOf(w *world, rs []*rec) []map[string]any {
	var out []map[string]any
	for _, r := range rs {
		m := map[string]any{"label": r.Label, "incarnation": r.Inc, "kind": r.Kind, "pid": r.PID.String(), "parent": r.Parent.String()}
		if pr := w.recOfPID(r.Parent); pr != nil {
			m["parent_label"] = pr.Label
		}
		if w.nodeRunning() {
			m["info"] = w.pinfo(r.PID)
		}
		out = append(out, m)
	}
	return out
}

func kindsOf(rs []*rec) string {
	k := map[string]bool{}
	for _, r := range rs {
		k[r.Kind] = true
	}
	var s []string
	for x := range k {
		s = append(s, x)
	}
	sort.Strings(s)
	return strings.Join(s, "+")
}

// gracefulAppStop calls ApplicationStopWithTimeout and, when it reports success, looks at
// the process table at that very instant
func (x *run) gracefulAppStop(tag string, timeout time.Duration) error {
	w := x.w
	err := w.node.ApplicationStopWithTimeout(w.app, timeout)
	w.step("%s: ApplicationStopWithTimeout(%s) returned %v", tag, timeout, err)
	if err != nil {
		x.mu.Lock()
		x.gracefulFail++
		x.mu.Unlock()
		return err
	}
	alive := w.aliveWith(func(r *rec) bool { return isFree(r) == false })
	if x.forceIssued.Load() {
		// a forced stop ran beside this graceful one (members were killed, the application counts its
		// members only): "stopped gracefully" does not describe this run, the claim at return is void
		if len(alive) > 0 {
			addStat("graceful_return_with_live_processes_beside_forced_stop_not_judged", 1)
			w.step("note: graceful stop returned success beside a forced stop with %d live processes (not judged)", len(alive))
		}
		return nil
	}
	x.mu.Lock()
	x.gracefulOK++
	x.mu.Unlock()
	if len(alive) > 0 {
		cls := "children"
		if kindsOf(alive) == "worker" {
			cls = "pool-workers"
		}
		x.addFinding(finding{class: "at-return", sig: "appstop-success-before-" + cls + "-terminated",
			what: fmt.Sprintf("ApplicationStop returned nil (success) while %d processes of the application were still in Node.ProcessList(): %v",
				len(alive), labelsOf(alive)),
			witness: witnessOf(w, alive)})
	}
	return nil
}

func (x *run) nodeStop(tag string, force bool) error {
	w := x.w
	if force {
		x.forceStopped.Store(true)
		w.node.StopForce()
	} else {
		w.node.Stop()
	}
	nodesStopped.Add(1)
	// what was registered when the call returned
	snap := map[gen.PID]bool{}
	var undead []*rec
	for _, r := range w.allRecs() {
		if r.bound.Load() && born(r.PID) {
			snap[r.PID] = true
			if dead(r.PID) == false {
				undead = append(undead, r)
			}
		}
	}
	if x.nodeStopReturned.Swap(true) == false {
		x.mu.Lock()
		x.bornAtStop = snap
		x.mu.Unlock()
	}
	w.step("%s: Node.Stop(force=%v) returned, %d registered, %d not yet unregistered", tag, force, len(snap), len(undead))
	if force == false {
		x.mu.Lock()
		x.gracefulOK++
		x.mu.Unlock()
		if len(undead) > 0 {
			x.addFinding(finding{class: "at-return", sig: "nodestop-returned-before-all-terminated",
				what:    fmt.Sprintf("Node.Stop returned while %d processes had not been unregistered: %v", len(undead), labelsOf(undead)),
				witness: witnessOf(w, undead)})
		}
	}
	return nil
}

// victimPID: newest incarnation of the victim that reached its Init callback
func (x *run) victimPID() (gen.PID, bool) {
	if r := x.w.current(x.c.Victim); r != nil {
		return r.PID, true
	}
	if r := x.w.newest(x.c.Victim); r != nil {
		return r.PID, true
	}
	return gen.PID{}, false
}

func (x *run) applyCause() {
	w, c := x.w, x.c
	x.parkedAtFault = w.parkedInInit()
	isPool := false
	if ns := c.Shape.find(c.Victim); ns != nil && ns.Kind == "pool" {
		isPool = true
	}
	send := func(pid gen.PID, m any) error {
		if isPool {
			// only high/max priority messages reach the pool's own handler
			return w.node.SendWithPriority(pid, m, gen.MessagePriorityHigh)
		}
		return w.node.Send(pid, m)
	}
	switch c.Cause {
	case "kill", "exit", "herr", "panic":
		pid, ok := x.victimPID()
		if ok == false {
			w.step("cause %s: victim %s has no pid yet", c.Cause, c.Victim)
			return
		}
		if strings.HasPrefix(c.Shape.Name, "single-") {
			x.observeAndForget(pid)
		}
		var err error
		switch c.Cause {
		case "kill":
			err = w.node.Kill(pid)
		case "exit":
			err = w.node.SendExit(pid, errors.New("c10-foreign-exit"))
		case "herr":
			err = send(pid, errors.New("c10-handler-error"))
		case "panic":
			err = send(pid, "panic")
		}
		w.step("cause %s on %s %s: %v", c.Cause, c.Victim, pid, err)
	case "appstop":
		t := 4 * time.Second
		if c.Moment == "startup" {
			// the application is inside start(): its stopped channel does not exist yet, the call can only time out
			t = 300 * time.Millisecond
		}
		x.async("appstop", func() error { return x.gracefulAppStop("cause", t) })
		x.waitStopping()
	case "appstopforce":
		x.forceIssued.Store(true)
		cl := x.async("appstopforce", func() error {
			err := w.node.ApplicationStopForce(w.app)
			w.step("cause ApplicationStopForce returned %v", err)
			return err
		})
		if cl.wait(2*time.Second) == false {
			x.checkWedged(cl, "appstopforce-self-deadlock", "ApplicationStopForce")
		}
	case "nodestop":
		if c.Moment == "startup" && stopRangedHookMayExist() {
			// optional yield point node.stop.ranged (between the exit signals to all registered processes and
			// waitprocesses.Wait()): holds Node.Stop there until the application start in flight has registered
			// its processes. Without the yield point in /repo the gate is never reached and nothing changes.
			x.stopGate = hk.Park("node.stop.ranged", hk.Eq(w.node.Name()), false).SetMaxWait(parkDeadline)
		}
		x.async("nodestop", func() error { return x.nodeStop("cause", false) })
		x.waitStopping()
		if x.stopGate != nil {
			x.stopRanged = x.stopGate.WaitArrived(7 * time.Second)
			w.step("Node.Stop held after its exit signals to the registered processes: %v", x.stopRanged)
		}
	case "nodestopforce":
		x.forceIssued.Store(true)
		cl := x.async("nodestopforce", func() error { return x.nodeStop("cause", true) })
		cl.wait(5 * time.Second)
	case "childinit-err", "childinit-panic":
		// applied by the release of the parked Init
		w.step("cause %s: the parked child's Init will fail at release", c.Cause)
	}
}

// checkWedged decides what a harness call that did not return means
func (x *run) checkWedged(cl *call, sig, name string) {
	x.wedged = true
	if st, ok := cl.selfDeadlock(); ok {
		x.w.step("%s is dead-locked: %s", name, st)
		x.addFinding(finding{class: "hang", sig: sig,
			what: name + " never returns and the processes of the application are not taken down: the calling goroutine iterates the application's member map " +
				"under its read lock (lib.Map.Range) and kills a sleeping member synchronously, which re-enters application.terminate -> lib.Map.LoadAndDelete " +
				"(write lock of the same map) on the same goroutine",
			witness: st})
		return
	}
	x.inconclusive("watchdog: " + name + " did not return")
}

// stopRangedHookMayExist: the yield point is passed by every Node.Stop/StopForce; once a node of this
// process has been stopped without a hit, it does not exist in this build of /repo
func stopRangedHookMayExist() bool {
	return nodesStopped.Load() == 0 || hk.Hits("node.stop.ranged") > 0
}

var nodesStopped atomic.Int64

// waitStopping waits (watchdog) until a graceful stop visibly began: the application left
// state Running, or the stop call already returned
func (x *run) waitStopping() {
	hk.WaitUntil(3*time.Second, func() bool {
		if x.w.nodeRunning() == false {
			return true
		}
		if s := x.w.appState(); s != gen.ApplicationStateRunning {
			return true
		}
		x.mu.Lock()
		defer x.mu.Unlock()
		for _, c := range x.calls {
			if (c.name == "appstop" || c.name == "nodestop") && c.returned.Load() {
				return true
			}
		}
		return false
	})
}

func (x *run) startDynamic() bool {
	w := x.w
	ok := true
	w.sh.walk(func(n, _ *nspec) {
		if n.sofo() == false {
			return
		}
		r := w.current(n.Label)
		if r == nil {
			ok = false
			return
		}
		for i := 0; i < n.Size; i++ {
			done := make(chan error, 1)
			if err := w.node.Send(r.PID, startChild{Name: gen.Atom(n.Kids[0].Label), Done: done}); err != nil {
				ok = false
				return
			}
			select {
			case err := <-done:
				if err != nil {
					ok = false
				}
			case <-time.After(5 * time.Second):
				ok = false
			}
		}
	})
	return ok
}

// freeTree: a supervisor with two actors spawned by the node itself, outside any application.
// Only the node owns it: Node.Stop has to wait for it through the process wait-group alone.
func freeTree() *nspec {
	return sup("f", ofo, transient, false, leaf("f.a", false), leaf("f.b", true))
}

func isFree(r *rec) bool { return under(r.Label, "f") }

func (x *run) spawnFree() bool {
	if _, err := x.w.node.Spawn(x.w.factory(freeTree()), gen.ProcessOptions{}); err != nil {
		x.inconclusive("setup: spawn of the free supervisor: " + err.Error())
		return false
	}
	return true
}

// startIdle starts the application completely and waits for quiescence
func (x *run) startIdle() bool {
	w := x.w
	if x.spawnFree() == false {
		return false
	}
	if err := w.node.ApplicationStart(w.app, gen.ApplicationOptions{}); err != nil {
		x.inconclusive("setup: ApplicationStart: " + err.Error())
		return false
	}
	if x.startDynamic() == false {
		x.inconclusive("setup: dynamic children of the simple-one-for-one supervisor did not start")
		return false
	}
	if w.quiesce(10*time.Second) == false {
		w.step("not quiet: %v", w.unquiet())
		x.inconclusive("watchdog: no quiescence after start")
		return false
	}
	w.step("application started: %d processes", len(w.aliveWith(func(*rec) bool { return true })))
	return true
}

// leafKidsOf returns live leaf/worker children whose parent is the live incarnation of label
func (x *run) liveKids(label string) []*rec {
	p := x.w.current(label)
	if p == nil {
		return nil
	}
	return x.w.aliveWith(func(r *rec) bool { return r.Parent == p.PID })
}

// triggerRestart makes the live supervisor / pool `l` lose one child so that it re-spawns.
// needLeafInit: the restart must lead to a leaf/worker Init below l (for Init parks).
func (x *run) triggerRestart(l *nspec, needLeafInit bool) bool {
	w := x.w
	kids := x.liveKids(l.Label)
	var cand []*rec
	for _, k := range kids {
		if needLeafInit && k.Kind == "sup" {
			if ns := w.sh.find(k.Label); ns != nil && ns.sofo() {
				continue
			}
		}
		cand = append(cand, k)
	}
	if len(cand) == 0 {
		return false
	}
	k := cand[x.rng.Intn(len(cand))]
	var err error
	if k.Kind == "sup" {
		// a graceful abnormal exit: the old children are gone (names free) before the restart
		err = w.node.SendExit(k.PID, errors.New("c10-trigger"))
	} else {
		err = w.node.Kill(k.PID)
	}
	w.step("trigger: child %s#%d %s of %s removed (%v)", k.Label, k.Inc, k.PID, l.Label, err)
	if l.Kind == "pool" {
		// a pool notices a dead worker when it forwards a message to it
		p := w.current(l.Label)
		if p == nil {
			return false
		}
		for i := 0; i < l.Size; i++ {
			w.node.Send(p.PID, ping{i})
		}
	}
	return err == nil
}

func (x *run) pickLeafUnder(l *nspec) *rec {
	w := x.w
	// direct leaf / worker children first, else any leaf below
	kids := x.liveKids(l.Label)
	var c []*rec
	for _, k := range kids {
		if k.Kind == "leaf" || k.Kind == "worker" {
			c = append(c, k)
		}
	}
	if len(c) == 0 {
		c = w.aliveWith(func(r *rec) bool {
			return (r.Kind == "leaf" || r.Kind == "worker") && under(r.Label, l.Label) && r.Label != l.Label
		})
	}
	if len(c) == 0 {
		return nil
	}
	return c[x.rng.Intn(len(c))]
}

func (x *run) deadUnder(label string) int {
	n := 0
	for _, r := range x.w.allRecs() {
		if r.bound.Load() && under(r.Label, label) && dead(r.PID) {
			n++
		}
	}
	return n
}

func (x *run) body() {
	w, c := x.w, x.c
	var locus *nspec
	if c.Locus != "" {
		locus = c.Shape.find(c.Locus)
	}
	var startCall *call
	var gate *hk.Gate
	var initPark *park

	switch c.Moment {
	case "idle":
		if x.startIdle() == false {
			return
		}

	case "startup":
		// hold one child of the locus inside Init while the whole path above it is starting
		var target string
		inc := 0
		if locus.Kind == "pool" {
			target = locus.Label + ".w"
			inc = 1 + x.rng.Intn(locus.Size-1) // at least one worker already runs
		} else {
			var leaves []string
			for _, k := range locus.Kids {
				if k.Kind == "leaf" {
					leaves = append(leaves, k.Label)
				}
			}
			if len(leaves) == 0 {
				x.inconclusive("setup: locus has no direct leaf child")
				return
			}
			target = leaves[x.rng.Intn(len(leaves))]
		}
		result := "ok"
		if c.Cause == "childinit-err" {
			result = "err"
		} else if c.Cause == "childinit-panic" {
			result = "panic"
		}
		initPark = w.armPark(result, func(r *rec) bool { return r.Label == target && r.Inc == inc })
		if x.spawnFree() == false {
			return
		}
		startCall = x.async("appstart", func() error {
			err := w.node.ApplicationStart(w.app, gen.ApplicationOptions{})
			w.step("ApplicationStart returned %v", err)
			return err
		})
		if initPark.Entered(5*time.Second) == false {
			x.inconclusive("gate: the child to be parked in Init never started")
			return
		}
		w.step("start-up: %s#%d parked in Init; registered so far: %v", target, inc, labelsOf(w.aliveWith(func(*rec) bool { return true })))

	case "startup-childdead":
		// a child of the locus dies while the locus (a supervisor) is still inside its own ProcessInit,
		// i.e. not registered yet; then the start-up completes and the cause arrives at an idle tree
		liveKidsOfLocus := func() []*rec {
			lr := w.newest(locus.Label)
			if lr == nil {
				return nil
			}
			var ks []*rec
			for _, k := range w.allRecs() {
				if k.bound.Load() && k.Parent == lr.PID && born(k.PID) && dead(k.PID) == false {
					ks = append(ks, k)
				}
			}
			return ks
		}
		initPark = w.armPark("ok", func(r *rec) bool {
			return (r.Kind == "leaf" || r.Kind == "worker") && under(r.Label, locus.Label) && r.Label != locus.Label && len(liveKidsOfLocus()) > 0
		})
		if x.spawnFree() == false {
			return
		}
		startCall = x.async("appstart", func() error {
			err := w.node.ApplicationStart(w.app, gen.ApplicationOptions{})
			w.step("ApplicationStart returned %v", err)
			return err
		})
		if initPark.Entered(5*time.Second) == false {
			x.inconclusive("gate: no child of the locus reached Init after a sibling had been registered")
			return
		}
		ks := liveKidsOfLocus()
		if len(ks) == 0 {
			x.inconclusive("setup: no registered child of the locus")
			return
		}
		k := ks[x.rng.Intn(len(ks))]
		err := w.node.Kill(k.PID)
		okDead := hk.WaitUntil(3*time.Second, func() bool { return dead(k.PID) })
		w.step("start-up of %s: %s#%d parked in Init; already registered child %s#%d %s killed (%v, unregistered %v) while %s is not registered yet",
			locus.Label, initPark.r.Label, initPark.r.Inc, k.Label, k.Inc, k.PID, err, okDead, locus.Label)
		x.childDiedInStartup = okDead && len(w.parkedInInit()) > 0
		initPark.Release()
		if startCall.wait(8*time.Second) == false {
			x.checkWedged(startCall, "appstart-rollback-self-deadlock", "ApplicationStart")
			return
		}
		startCall = nil
		if startCall == nil && w.quiesce(10*time.Second) == false {
			w.step("not quiet: %v", w.unquiet())
			x.inconclusive("watchdog: no quiescence after start")
			return
		}
		w.step("start-up finished: %d processes", len(w.aliveWith(func(*rec) bool { return true })))

	case "restart":
		if x.startIdle() == false {
			return
		}
		initPark = w.armPark("ok", func(r *rec) bool {
			return (r.Kind == "leaf" || r.Kind == "worker") && under(r.Label, locus.Label) && r.Label != locus.Label
		})
		if x.triggerRestart(locus, true) == false {
			x.inconclusive("setup: no child to remove for the restart wave")
			return
		}
		if initPark.Entered(5*time.Second) == false {
			x.inconclusive("gate: no replacement child reached Init (no restart wave)")
			return
		}
		x.restartSeen = true
		w.step("restart wave at %s: replacement %s#%d parked in Init", locus.Label, initPark.r.Label, initPark.r.Inc)

	case "shutdown":
		if x.startIdle() == false {
			return
		}
		lf := x.pickLeafUnder(locus)
		if lf == nil {
			x.inconclusive("setup: no leaf below the locus")
			return
		}
		if _, ok := w.blockHandler(lf); ok == false {
			x.inconclusive("gate: leaf did not enter the blocking handler")
			return
		}
		w.step("shutdown: %s#%d parked in a message handler", lf.Label, lf.Inc)
		before := x.deadUnder(c.victimLabel())
		switch c.Victim {
		case "node":
			x.async("first-nodestop", func() error { return x.nodeStop("first", false) })
			x.waitStopping()
			x.shutdownSeen = w.nodeRunning() && w.appState() == gen.ApplicationStateStopping
		case "app":
			x.async("first-appstop", func() error { return x.gracefulAppStop("first", 4*time.Second) })
			hk.WaitUntil(3*time.Second, func() bool { return w.appState() != gen.ApplicationStateRunning })
			x.shutdownSeen = w.appState() == gen.ApplicationStateStopping
		default:
			pid, ok := x.victimPID()
			if ok == false {
				x.inconclusive("setup: victim not running")
				return
			}
			err := w.node.SendExit(pid, errors.New("c10-first-exit"))
			w.step("first shutdown trigger: SendExit(%s %s) = %v", c.Victim, pid, err)
			// evidence of an unfinished shutdown: something below the victim has terminated while the victim still lives
			hk.WaitUntil(3*time.Second, func() bool { return x.deadUnder(c.victimLabel()) > before })
			if r := w.current(c.Victim); r != nil && r.PID == pid && x.deadUnder(c.victimLabel()) > before {
				x.shutdownSeen = true
			}
		}
		w.step("ongoing shutdown observed: %v", x.shutdownSeen)

	case "gate", "gate-childdead":
		if x.startIdle() == false {
			return
		}
		lr := w.current(locus.Label)
		if lr == nil {
			x.inconclusive("setup: locus not running")
			return
		}
		var gatePID atomic.Value
		gate = hk.Park("proc.spawn.linked", func(s any) bool {
			pid, ok := s.(gen.PID)
			if ok == false {
				return false
			}
			r := w.recOfPID(pid)
			if r == nil || r.Parent != lr.PID {
				return false
			}
			gatePID.CompareAndSwap(nil, pid)
			return true
		}, false).SetMaxWait(parkDeadline)
		if x.triggerRestart(locus, false) == false {
			gate.Release()
			x.inconclusive("setup: no child to remove for the restart")
			return
		}
		if gate.WaitArrived(5*time.Second) == false {
			gate.Release()
			x.inconclusive("gate: the supervisor never re-spawned a child")
			return
		}
		x.gateHeld = true
		cp, _ := gatePID.Load().(gen.PID)
		cr := w.recOfPID(cp)
		w.step("%s held at proc.spawn.linked: new child %s#%d %s runs, the supervisor's link to it does not exist yet", locus.Label, cr.Label, cr.Inc, cp)
		if c.Moment == "gate-childdead" {
			err := w.node.Kill(cp)
			x.gateChildKilled = err == nil && hk.WaitUntil(3*time.Second, func() bool { return dead(cp) })
			w.step("new child %s killed inside the window: %v (unregistered: %v)", cp, err, x.gateChildKilled)
		}
	}

	// ---- the fault
	if gate != nil {
		if lr := w.current(locus.Label); lr != nil {
			w.gateHolder.Store(lr)
		}
	}
	if c.Moment != "idle" {
		if w.settle(3*time.Second) == false {
			w.step("note: the tree did not settle before the fault")
			statMu.Lock()
			stats["fault_applied_to_unsettled_tree"]++
			statMu.Unlock()
		}
	}
	x.applyCause()
	if x.wedged {
		w.disarm()
		if gate != nil {
			gate.Release()
		}
		w.releaseAll()
		return
	}

	if c.Moment == "shutdown" && c.Victim != "node" && c.Victim != "app" {
		// let the victim handle the cause while its shutdown is still unfinished
		if pid, ok := x.victimPID(); ok {
			hk.WaitUntil(2*time.Second, func() bool {
				info, err := w.node.ProcessInfo(pid)
				if err != nil {
					return true
				}
				q := info.MailboxQueues
				return info.State == gen.ProcessStateSleep && q.Main+q.System+q.Urgent == 0
			})
		}
	}

	// ---- release everything the harness holds
	w.disarm()
	if gate != nil {
		w.gateHolder.Store((*rec)(nil))
		gate.Release()
		if gate.TimedOut() {
			x.inconclusive("gate: released by deadline")
		}
	}
	w.releaseAll()
	w.step("all harness parks released")
	_ = initPark

	// ---- wait for the harness calls
	if startCall != nil {
		if startCall.wait(8*time.Second) == false {
			if x.stopGate != nil {
				x.stopGate.Release()
			}
			x.checkWedged(startCall, "appstart-rollback-self-deadlock", "ApplicationStart (rolling back after a member failed to start)")
			return
		}
	}
	if x.stopGate != nil {
		// the start in flight is over: its processes are registered; let Node.Stop go on to its wait
		x.stopGate.Release()
		if x.stopGate.TimedOut() {
			x.inconclusive("gate: released by deadline")
		}
	}
	x.mu.Lock()
	calls := append([]*call(nil), x.calls...)
	x.mu.Unlock()
	var hung []*call
	for _, cl := range calls {
		if cl.wait(12*time.Second) == false {
			hung = append(hung, cl)
		}
	}
	q := w.quiesce(20 * time.Second)
	if w.watchdog.Load() {
		x.inconclusive("watchdog: a harness park was released by its deadline")
	}
	for _, cl := range hung {
		if cl.returned.Load() {
			continue
		}
		gid, _ := cl.gid.Load().(string)
		st := stackOf(gid)
		if strings.Contains(cl.name, "nodestop") && cl.name != "nodestopforce" && q && w.nodeRunning() &&
			strings.Contains(st, "sync.(*WaitGroup).Wait") && strings.Contains(st, "node.(*node).stop") {
			// structural: Node.Stop sits in waitprocesses.Wait(), every registered process is asleep with an
			// empty mailbox, nothing is parked by the harness: the processes it waits for will never terminate
			alive := w.aliveWith(func(*rec) bool { return true })
			x.addFinding(finding{class: "hang", sig: "nodestop-never-returns-" + c.Moment,
				what: fmt.Sprintf("Node.Stop never returns (blocked in waitprocesses.Wait()): %d processes stay registered for ever, all asleep with empty mailboxes: %v",
					len(alive), labelsOf(alive)),
				witness: witnessOf(w, alive)})
		} else {
			x.inconclusive("watchdog: " + cl.name + " did not return")
		}
	}
	if q == false {
		w.step("not quiet: %v", w.unquiet())
		x.inconclusive("watchdog: no quiescence after the fault")
		return
	}
	x.judge()
}

// judge: the set-difference oracle at quiescence
func (x *run) judge() {
	w, c := x.w, x.c
	if w.nodeRunning() == false {
		// the node is gone: everything that was registered when the stop call returned must have been unregistered
		x.mu.Lock()
		snap := x.bornAtStop
		x.mu.Unlock()
		var left, late []*rec
		collect := func() {
			left, late = nil, nil
			for _, r := range w.allRecs() {
				if r.bound.Load() == false || born(r.PID) == false || dead(r.PID) {
					continue
				}
				if snap == nil || snap[r.PID] {
					left = append(left, r)
				} else {
					late = append(late, r)
				}
			}
		}
		// a stopped node cannot be asked for process states: wait for the unregistrations themselves
		if hk.WaitUntil(20*time.Second, func() bool { collect(); return len(left) == 0 }) == false {
			// structural part of the witness: no runner goroutine and no callback of the survivors exists,
			// and nobody can reach them any more on a stopped node
			for _, r := range left {
				if hk.LiveRunners(r.PID) > 0 || (r.Inst != nil && r.Inst.InCallback()) {
					x.inconclusive("watchdog: a killed process is still running a callback")
					return
				}
			}
		}
		if len(late) > 0 {
			// registered after the stop call had returned (a spawn that was in flight): outside the statement, reported as a number only
			addStat("registered_after_node_stop_returned", int64(len(late)))
			w.step("note: %d processes were registered after the node stop returned: %v", len(late), labelsOf(late))
		}
		if len(left) > 0 && x.forceStopped.Load() {
			// a force-stopped node does not wait; records left in its table can never run again (every send
			// fails with ErrNodeTerminated) and Node.ProcessList() is not available: counted, not judged
			addStat("left_registered_in_force_stopped_node", int64(len(left)))
			w.step("note: %d processes stay in the table of the force-stopped node: %v", len(left), labelsOf(left))
		} else if len(left) > 0 {
			x.addFinding(finding{class: "orphan", sig: "orphan-after-" + c.Cause + "-" + c.Moment,
				what:    fmt.Sprintf("node stopped, yet %d processes registered before the stop returned were never unregistered: %v", len(left), labelsOf(left)),
				witness: witnessOf(w, left)})
		}
		return
	}
	alive, _ := w.aliveSet()
	appGone := w.appState() == gen.ApplicationStateLoaded
	type okey struct{ kind, okind, fate string }
	groups := map[okey][]*rec{}
	for _, r := range w.allRecs() {
		if r.bound.Load() == false || alive[r.PID] == false {
			continue
		}
		if r.Parent == w.core {
			if appGone && isFree(r) == false {
				groups[okey{r.Kind, "app", "stopped"}] = append(groups[okey{r.Kind, "app", "stopped"}], r)
			}
			continue
		}
		pr := w.recOfPID(r.Parent)
		if pr == nil || alive[pr.PID] {
			continue
		}
		fate := "terminated"
		if born(pr.PID) == false {
			fate = "initfailed"
		}
		k := okey{r.Kind, pr.Kind, fate}
		groups[k] = append(groups[k], r)
	}
	var keys []okey
	for k := range groups {
		keys = append(keys, k)
	}
	sort.Slice(keys, func(i, j int) bool { return fmt.Sprint(keys[i]) < fmt.Sprint(keys[j]) })
	for _, k := range keys {
		rs := groups[k]
		sig := fmt.Sprintf("orphan-%s-owner-%s-%s-%s", k.kind, k.okind, k.fate, c.Moment)
		if k.okind == "app" {
			// members that survive an application which has been declared stopped (state loaded)
			sig = "orphan-member-of-stopped-app-" + c.Moment
		}
		x.addFinding(finding{class: "orphan", sig: sig,
			what: fmt.Sprintf("at quiescence %d %s process(es) %v are in Node.ProcessList() although their owner (%s, %s) is gone",
				len(rs), k.kind, labelsOf(rs), k.okind, k.fate),
			witness: witnessOf(w, rs)})
	}
	if s := w.appState(); s == gen.ApplicationStateStopping {
		addStat("application_left_in_state_stopping", 1)
		w.step("note: application is left in state stopping with %d live processes", len(w.aliveWith(func(*rec) bool { return true })))
	}
}

func runOnce(c ccase) (*run, error) {
	id := c.id()
	x := &run{c: c, rng: hk.Rng("c10", id)}
	w, err := newWorld(id, c.Shape)
	if err != nil {
		return nil, err
	}
	x.w = w
	x.body()

	// teardown
	w.disarm()
	w.releaseAll()
	if w.nodeRunning() {
		d := make(chan struct{})
		go func() { w.node.StopForce(); nodesStopped.Add(1); close(d) }()
		if x.wedged == false {
			// (a wedged node cannot even be force-stopped: every termination blocks on the member map)
			select {
			case <-d:
			case <-time.After(10 * time.Second):
			}
		}
	}
	return x, nil
}

// setupSpoiled: the restart that was to arrange the moment failed with ErrTaken because the supervisor
// re-registered the child's name before unregisterProcess of the old child had released it (a known race
// of the framework outside this property); the tree collapsed before the fault point was reached
func setupSpoiled(x *run) bool {
	x.mu.Lock()
	incon := x.incon
	x.mu.Unlock()
	if strings.HasPrefix(incon, "gate: no replacement") == false && strings.HasPrefix(incon, "gate: the supervisor never re-spawned") == false {
		return false
	}
	for _, l := range x.w.node.Cap.Lines() {
		if strings.Contains(l.Text, "resource is taken") {
			return true
		}
	}
	return false
}

func runCase(c ccase) {
	id := c.id()
	if hk.Want(id) == false {
		return
	}
	var x *run
	for try := 0; try < 4; try++ {
		var err error
		x, err = runOnce(c)
		if err != nil {
			hk.Emit(hk.Case{ID: id, Scenario: c.Moment, Verdict: hk.Inconclusive, What: "setup: start node: " + err.Error()})
			return
		}
		if setupSpoiled(x) == false {
			break
		}
		statMu.Lock()
		stats["setup_repeated_restart_name_race"]++
		statMu.Unlock()
	}
	w := x.w

	nontrivial := len(x.parkedAtFault) > 0 || x.gateHeld || x.shutdownSeen || x.childDiedInStartup || x.stopRanged
	var cls []string
	if len(x.parkedAtFault) > 0 {
		if x.restartSeen {
			cls = append(cls, "replacement-in-init")
		} else {
			cls = append(cls, "child-in-init")
		}
	}
	if x.gateHeld {
		cls = append(cls, "spawn-link-window")
	}
	if x.gateChildKilled {
		cls = append(cls, "child-died-in-window")
	}
	if x.shutdownSeen {
		cls = append(cls, "shutdown-unfinished")
	}
	if x.childDiedInStartup {
		cls = append(cls, "child-died-while-supervisor-in-init")
	}
	if x.stopRanged {
		cls = append(cls, "nodestop-held-after-exit-signals")
	}
	detail := map[string]any{
		"shape": c.Shape.describe(), "victim": c.Victim, "cause": c.Cause, "moment": c.Moment, "locus": c.Locus,
		"parked_in_init_at_fault": x.parkedAtFault, "observed": cls, "census": w.census(),
		"graceful_stops_checked_at_return": x.gracefulOK, "graceful_stops_not_successful": x.gracefulFail,
		"steps": w.steps,
	}
	cs := hk.Case{ID: id, Scenario: c.Moment, Key: id + "/" + strings.Join(cls, "+"), Nontrivial: nontrivial, Events: w.events(), Detail: detail}
	x.mu.Lock()
	fs := x.findings
	incon := x.incon
	x.mu.Unlock()
	switch {
	case len(fs) > 0:
		// orphan > hang > at-return
		rank := map[string]int{"orphan": 0, "hang": 1, "at-return": 2}
		sort.SliceStable(fs, func(i, j int) bool { return rank[fs[i].class] < rank[fs[j].class] })
		cs.Verdict = hk.Violated
		cs.Sig = fs[0].sig
		var ws []string
		var wit []any
		for _, f := range fs {
			ws = append(ws, f.sig+": "+f.what)
			wit = append(wit, map[string]any{"sig": f.sig, "processes": f.witness})
		}
		cs.What = strings.Join(ws, " | ")
		detail["witness"] = wit
		detail["framework_log"] = logLines(w)
	case incon != "":
		cs.Verdict = hk.Inconclusive
		cs.What = incon
		detail["framework_log"] = logLines(w)
	default:
		cs.Verdict = hk.Held
	}
	hk.Emit(cs)
	statMu.Lock()
	stats["graceful_stop_success_checked_at_return"] += int64(x.gracefulOK)
	stats["graceful_stop_calls_without_success"] += int64(x.gracefulFail)
	stats["processes_created"] += int64(w.census()["created"])
	stats["processes_registered"] += int64(w.census()["registered"])
	stats["processes_unregistered_observed"] += int64(w.census()["unregistered"])
	if nontrivial {
		stats["nontrivial_"+c.Moment]++
	}
	if sampled[c.Moment] < 2 && incon == "" {
		sampled[c.Moment]++
		hk.Sample(map[string]any{"id": id, "verdict": cs.Verdict, "shape": c.Shape.describe(), "victim": c.Victim, "cause": c.Cause,
			"moment": c.Moment, "locus": c.Locus, "observed": cls, "steps": w.steps})
	}
	statMu.Unlock()
}

func logLines(w *world) []string {
	var ll []string
	for _, l := range w.node.Cap.Lines() {
		if len(ll) < 16 {
			ll = append(ll, l.Text)
		}
	}
	return ll
}

func addStat(name string, v int64) {
	statMu.Lock()
	stats[name] += v
	statMu.Unlock()
}

var (
	statMu  sync.Mutex
	stats   = map[string]int64{}
	sampled = map[string]int{}
)

func main() {
	hk.InstallHook()
	installObservers()
	if os.Getenv("C10_DEBUG") != "" {
		for _, pt := range []string{"proc.kill.zombie", "proc.kill.term", "proc.unreg.deleted", "proc.run.term.kill", "proc.run.term.err", "proc.run.enter", "proc.run.exit", "proc.run.tosleep", "proc.run.wake"} {
			hk.Observe(pt, nil, func(p string, s any) { fmt.Fprintln(os.Stderr, hk.Now(), p, s) })
		}
	}
	hk.Rule("fault enumeration: tree shape (application -> {supervisor s1 -> {supervisor s2 -> actors, pool -> workers, actor}, actor}; supervisor types/strategies per shape) x victim (node, application, every supervisor, every pool) x cause (Node.Kill, foreign exit signal, handler error, handler panic | ApplicationStop, ApplicationStopForce | Node.Stop, Node.StopForce | failing Init of a child during the victim's start-up) x moment (idle, start-up, start-up in which an already started child died before its supervisor was registered, restart wave, unfinished shutdown, spawn-link window, spawn-link window with the new child dying inside it) x locus (the supervisor/pool at or below the victim where the moment is arranged). Secondary choices (which child is parked/removed) are drawn from VERIF_SEED. Non-trivial iff the monitor observed at the fault instant: >=1 descendant parked inside Init (start-up or replacement of a restart wave), or a child killed while a descendant was parked in Init, or the spawner held at proc.spawn.linked, or an unfinished shutdown (something below the victim already terminated / application in state stopping while a child is held in a handler). distinct = case id x observed class")
	hk.Assume("ownership is the parent recorded by the instrumented behaviours in Init (gen.Process.Parent()); an owner is gone when its pid is absent from Node.ProcessList() at quiescence (an owner whose ProcessInit failed counts as gone), the application is gone when its state is loaded, the node when Node.Stop/StopForce returned")
	hk.Assume("a stop call that returns gen.ErrApplicationStopping (timeout) is not a success and asserts nothing; processes whose registration completed after Node.Stop/StopForce had returned (a spawn in flight) are outside the statement and only counted")
	hk.Assume("all harness parks (Init, handler, yield-point gate) are released before the quiescence oracle is applied; quiescence = every recorded live process asleep with empty queues, no live runner goroutine, no instrumented callback in progress, all harness calls returned")

	var cases []ccase
	for _, sh := range shapes() {
		cs := enumerate(sh)
		if strings.HasPrefix(sh.Name, "apppool") {
			// the pool-under-application shape adds the pool / application / node victims only
			var f []ccase
			for _, c := range cs {
				if c.Victim == "node" || c.Victim == "app" || c.Victim == "p" || strings.HasPrefix(c.Cause, "childinit") {
					f = append(f, c)
				}
			}
			cs = f
		}
		cases = append(cases, cs...)
	}
	par := 8
	if v, err := strconv.Atoi(os.Getenv("C10_PAR")); err == nil && v > 0 {
		par = v
	}
	ch := make(chan ccase)
	var wg sync.WaitGroup
	for i := 0; i < par; i++ {
		wg.Add(1)
		go func() {
			defer wg.Done()
			for c := range ch {
				runCase(c)
			}
		}()
	}
	for _, c := range cases {
		ch <- c
	}
	close(ch)
	wg.Wait()

	statMu.Lock()
	for k, v := range stats {
		hk.Stat(k, v)
	}
	statMu.Unlock()
	hk.Stat("fault_points_enumerated", int64(len(cases)))
	hk.Stat("hook_observations_registration_unregistration", hookObs.Load())
	h, _ := hk.PointStats()
	hk.Note("hook_hits", h)
	os.Stdout.Sync()
	os.Exit(0)
}
