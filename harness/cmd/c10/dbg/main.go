package main

import (
	"fmt"
	"time"

	"ergo.services/ergo/gen"
	"verif/harness/actors"
	"verif/harness/hk"
)

func main() {
	hk.InstallHook()
	hk.Observe("proc.kill.zombie", nil, func(p string, s any) { fmt.Println("kill.zombie", s) })
	hk.Observe("proc.unreg.deleted", nil, func(p string, s any) { fmt.Println("unreg", s) })
	n, _ := hk.StartNode(hk.NodeCfg{Name: "dbg", Network: false})
	f, i := actors.NewProbe("a", nil)
	pid, err := n.Spawn(f, gen.ProcessOptions{})
	fmt.Println("spawned", pid, err)
	time.Sleep(100 * time.Millisecond)
	pl, _ := n.ProcessList()
	fmt.Println("list", pl)
	n.StopForce()
	fmt.Println("stopforce returned; term count", i.TermCount.Load())
	time.Sleep(200 * time.Millisecond)
	fmt.Println("term count", i.TermCount.Load())
}
