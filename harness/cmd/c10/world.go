package main

import (
	"fmt"
	"sort"
	"strings"
	"sync"
	"sync/atomic"
	"time"

	"ergo.services/ergo/act"
	"ergo.services/ergo/gen"

	"verif/harness/actors"
	"verif/harness/hk"
)

// ---------------------------------------------------------------------------
// tree shapes

// nspec describes one node of a supervision tree shape
type nspec struct {
	Label     string
	Kind      string // sup | pool | leaf | worker
	Type      act.SupervisorType
	Strategy  act.SupervisorStrategy
	KeepOrder bool
	Kids      []*nspec
	Size      int  // pool: workers; simple-one-for-one supervisor: dynamic children started after start-up
	Trap      bool // leaf: SetTrapExit(true)
}

func (n *nspec) sofo() bool { return n.Kind == "sup" && n.Type == act.SupervisorTypeSimpleOneForOne }

func (n *nspec) describe() string {
	switch n.Kind {
	case "sup":
		var k []string
		for _, c := range n.Kids {
			k = append(k, c.describe())
		}
		t := map[act.SupervisorType]string{0: "ofo", 1: "afo", 2: "rfo", 3: "sofo"}[n.Type]
		if n.KeepOrder {
			t += "+keep"
		}
		s := map[act.SupervisorStrategy]string{0: "transient", 1: "temporary", 2: "permanent"}[n.Strategy]
		if n.sofo() {
			return fmt.Sprintf("%s[%s/%s x%d dyn]", n.Label, t, s, n.Size)
		}
		return fmt.Sprintf("%s[%s/%s]{%s}", n.Label, t, s, strings.Join(k, " "))
	case "pool":
		return fmt.Sprintf("%s[pool x%d]", n.Label, n.Size)
	}
	if n.Trap {
		return n.Label + "(trap)"
	}
	return n.Label
}

type shape struct {
	Name  string
	Mode  gen.ApplicationMode
	Group []*nspec
}

func (s *shape) describe() string {
	var k []string
	for _, c := range s.Group {
		k = append(k, c.describe())
	}
	return fmt.Sprintf("app(%s){%s}", s.Mode, strings.Join(k, " "))
}

func (s *shape) walk(f func(n, parent *nspec)) {
	var rec func(n, p *nspec)
	rec = func(n, p *nspec) {
		f(n, p)
		for _, c := range n.Kids {
			rec(c, n)
		}
	}
	for _, g := range s.Group {
		rec(g, nil)
	}
}

func (s *shape) find(label string) *nspec {
	var r *nspec
	s.walk(func(n, _ *nspec) {
		if n.Label == label {
			r = n
		}
	})
	return r
}

// under reports whether label is at or below anc in the label hierarchy ("" = application / node)
func under(label, anc string) bool {
	return anc == "" || label == anc || strings.HasPrefix(label, anc+".")
}

// ---------------------------------------------------------------------------
// registry

// rec is one process created by an instrumented factory
type rec struct {
	ID     int
	Label  string
	Kind   string
	Inc    int // incarnation of this label (0 = first)
	PID    gen.PID
	Parent gen.PID
	Inst   *actors.Inst // leaf / worker

	bound   atomic.Bool // behaviour Init entered: PID and Parent are valid
	initOut atomic.Bool // behaviour Init left
	initErr atomic.Bool // behaviour Init returned an error / panicked (by plan)
	parked  atomic.Bool // currently parked in Init by the harness
	terms   atomic.Int32
}

// global observation of registration and unregistration (node names are unique per case)
var (
	bornMap sync.Map // gen.PID -> int64 logical time of the first proc.run.wake (end of a successful spawn)
	deadMap sync.Map // gen.PID -> int64 logical time of proc.unreg.deleted
	hookObs atomic.Int64
)

func installObservers() {
	hk.Observe("proc.run.wake", nil, func(_ string, s any) {
		if pid, ok := s.(gen.PID); ok {
			if _, had := bornMap.Load(pid); had == false {
				bornMap.LoadOrStore(pid, hk.Tick())
				hookObs.Add(1)
			}
		}
	})
	hk.Observe("proc.unreg.deleted", nil, func(_ string, s any) {
		if pid, ok := s.(gen.PID); ok {
			deadMap.LoadOrStore(pid, hk.Tick())
			hookObs.Add(1)
		}
	})
}

func born(pid gen.PID) bool { _, ok := bornMap.Load(pid); return ok }
func dead(pid gen.PID) bool { _, ok := deadMap.Load(pid); return ok }

// park is an armed plan to hold the next matching leaf/worker inside its Init callback
type park struct {
	match    func(r *rec) bool
	entered  chan struct{}
	release  chan struct{}
	result   string // ok | err | panic
	r        *rec
	taken    bool
	timedOut atomic.Bool
	relOnce  sync.Once
}

func (p *park) Release() { p.relOnce.Do(func() { close(p.release) }) }
func (p *park) Entered(d time.Duration) bool {
	select {
	case <-p.entered:
		return true
	case <-time.After(d):
		return false
	}
}

// hblock parks a leaf inside a message handler
type hblock struct {
	Entered  chan struct{}
	Release  chan struct{}
	TimedOut *atomic.Bool
	once     *sync.Once
}

func (b hblock) Free() { b.once.Do(func() { close(b.Release) }) }

type startChild struct {
	Name gen.Atom
	Done chan error
}

type ping struct{ N int }

type world struct {
	id   string
	sh   *shape
	node *hk.HNode
	core gen.PID
	app  gen.Atom

	mu     sync.Mutex
	recs   []*rec
	byPID  map[gen.PID]*rec
	byInst map[*actors.Inst]*rec
	incs   map[string]int
	parks  []*park
	blocks []hblock
	steps  []string

	watchdog   atomic.Bool  // a harness park was released by its deadline
	gateHolder atomic.Value // *rec: the supervisor held at the proc.spawn.linked gate
}

func (w *world) step(format string, a ...any) {
	s := fmt.Sprintf(format, a...)
	w.mu.Lock()
	w.steps = append(w.steps, fmt.Sprintf("%d %s", hk.Tick(), s))
	w.mu.Unlock()
}

func (w *world) newRec(ns *nspec, i *actors.Inst) *rec {
	w.mu.Lock()
	defer w.mu.Unlock()
	r := &rec{ID: len(w.recs), Label: ns.Label, Kind: ns.Kind, Inc: w.incs[ns.Label], Inst: i}
	w.incs[ns.Label]++
	w.recs = append(w.recs, r)
	if i != nil {
		w.byInst[i] = r
	}
	return r
}

func (w *world) bind(r *rec, pid, parent gen.PID) {
	w.mu.Lock()
	r.PID = pid
	r.Parent = parent
	w.byPID[pid] = r
	w.mu.Unlock()
	r.bound.Store(true)
}

func (w *world) recOfInst(i *actors.Inst) *rec {
	w.mu.Lock()
	defer w.mu.Unlock()
	return w.byInst[i]
}

func (w *world) recOfPID(pid gen.PID) *rec {
	w.mu.Lock()
	defer w.mu.Unlock()
	return w.byPID[pid]
}

func (w *world) allRecs() []*rec {
	w.mu.Lock()
	defer w.mu.Unlock()
	return append([]*rec(nil), w.recs...)
}

func (w *world) armPark(result string, match func(r *rec) bool) *park {
	p := &park{match: match, entered: make(chan struct{}), release: make(chan struct{}), result: result}
	w.mu.Lock()
	w.parks = append(w.parks, p)
	w.mu.Unlock()
	return p
}

func (w *world) takePark(r *rec) *park {
	w.mu.Lock()
	ps := append([]*park(nil), w.parks...)
	w.mu.Unlock()
	for _, p := range ps {
		w.mu.Lock()
		taken := p.taken
		w.mu.Unlock()
		if taken || p.match(r) == false { // match may use the registry: not under w.mu
			continue
		}
		w.mu.Lock()
		if p.taken == false {
			p.taken = true
			p.r = r
			w.mu.Unlock()
			return p
		}
		w.mu.Unlock()
	}
	return nil
}

// disarm makes never-taken parks inert
func (w *world) disarm() {
	w.mu.Lock()
	for _, p := range w.parks {
		p.taken = true
	}
	w.mu.Unlock()
}

func (w *world) parkedInInit() []string {
	var r []string
	for _, x := range w.allRecs() {
		if x.parked.Load() {
			r = append(r, x.Label)
		}
	}
	return r
}

func (w *world) releaseAll() {
	w.mu.Lock()
	ps := append([]*park(nil), w.parks...)
	bs := append([]hblock(nil), w.blocks...)
	w.mu.Unlock()
	for _, p := range ps {
		p.Release()
	}
	for _, b := range bs {
		b.Free()
	}
}

const parkDeadline = 40 * time.Second

func (w *world) leafHooks(ns *nspec) *actors.Hooks {
	return &actors.Hooks{
		Init: func(p *actors.Probe, args ...any) error {
			r := w.recOfInst(p.I)
			w.bind(r, p.PID(), p.Parent())
			defer r.initOut.Store(true)
			if ns.Trap {
				p.SetTrapExit(true)
			}
			if pk := w.takePark(r); pk != nil {
				r.parked.Store(true)
				close(pk.entered)
				select {
				case <-pk.release:
				case <-time.After(parkDeadline):
					pk.timedOut.Store(true)
					w.watchdog.Store(true)
				}
				r.parked.Store(false)
				switch pk.result {
				case "err":
					r.initErr.Store(true)
					return fmt.Errorf("c10: init of %s fails by plan", r.Label)
				case "panic":
					r.initErr.Store(true)
					panic("c10: init of " + r.Label + " panics by plan")
				}
			}
			return nil
		},
		Msg: func(p *actors.Probe, from gen.PID, msg any) error {
			switch m := msg.(type) {
			case hblock:
				close(m.Entered)
				select {
				case <-m.Release:
				case <-time.After(parkDeadline):
					m.TimedOut.Store(true)
					w.watchdog.Store(true)
				}
			case error:
				return m
			case string:
				if m == "panic" {
					panic("c10: requested panic")
				}
			}
			return nil
		},
		Terminate: func(p *actors.Probe, reason error) {
			if r := w.recOfInst(p.I); r != nil {
				r.terms.Add(1)
			}
		},
	}
}

// hsup is the instrumented supervisor behaviour
type hsup struct {
	act.Supervisor
	w  *world
	r  *rec
	ns *nspec
}

func (s *hsup) Init(args ...any) (act.SupervisorSpec, error) {
	s.w.bind(s.r, s.PID(), s.Parent())
	defer s.r.initOut.Store(true)
	spec := act.SupervisorSpec{
		Type: s.ns.Type,
		Restart: act.SupervisorRestart{
			Strategy:  s.ns.Strategy,
			Intensity: 100,
			Period:    5,
			KeepOrder: s.ns.KeepOrder,
		},
	}
	for _, k := range s.ns.Kids {
		spec.Children = append(spec.Children, act.SupervisorChildSpec{Name: gen.Atom(k.Label), Factory: s.w.factory(k)})
	}
	return spec, nil
}

func (s *hsup) HandleMessage(from gen.PID, message any) error {
	switch m := message.(type) {
	case error:
		return m
	case string:
		if m == "panic" {
			panic("c10: requested panic")
		}
	case startChild:
		m.Done <- s.StartChild(m.Name)
	}
	return nil
}

func (s *hsup) Terminate(reason error) { s.r.terms.Add(1) }

// hpool is the instrumented pool behaviour
type hpool struct {
	act.Pool
	w  *world
	r  *rec
	ns *nspec
}

func (p *hpool) Init(args ...any) (act.PoolOptions, error) {
	p.w.bind(p.r, p.PID(), p.Parent())
	defer p.r.initOut.Store(true)
	wk := &nspec{Label: p.ns.Label + ".w", Kind: "worker"}
	return act.PoolOptions{PoolSize: int64(p.ns.Size), WorkerFactory: p.w.factory(wk)}, nil
}

// only messages of high / max priority reach the pool's own handler
func (p *hpool) HandleMessage(from gen.PID, message any) error {
	switch m := message.(type) {
	case error:
		return m
	case string:
		if m == "panic" {
			panic("c10: requested panic")
		}
	}
	return nil
}

func (p *hpool) Terminate(reason error) { p.r.terms.Add(1) }

func (w *world) factory(ns *nspec) gen.ProcessFactory {
	switch ns.Kind {
	case "sup":
		return func() gen.ProcessBehavior { return &hsup{w: w, r: w.newRec(ns, nil), ns: ns} }
	case "pool":
		return func() gen.ProcessBehavior { return &hpool{w: w, r: w.newRec(ns, nil), ns: ns} }
	}
	return actors.NewProbeMulti(ns.Label, w.leafHooks(ns), func(i *actors.Inst) { w.newRec(ns, i) })
}

// happ is the application behaviour
type happ struct{ spec gen.ApplicationSpec }

func (a *happ) Load(node gen.Node, args ...any) (gen.ApplicationSpec, error) { return a.spec, nil }
func (a *happ) Start(mode gen.ApplicationMode)                               {}
func (a *happ) Terminate(reason error)                                       {}

func newWorld(id string, sh *shape) (*world, error) {
	n, err := hk.StartNode(hk.NodeCfg{Name: hk.UniqueName("c10n"), Network: false})
	if err != nil {
		return nil, err
	}
	w := &world{id: id, sh: sh, node: n, core: n.PID(), app: "c10app",
		byPID: map[gen.PID]*rec{}, byInst: map[*actors.Inst]*rec{}, incs: map[string]int{}}
	spec := gen.ApplicationSpec{Name: w.app, Mode: sh.Mode}
	for _, g := range sh.Group {
		spec.Group = append(spec.Group, gen.ApplicationMemberSpec{Name: gen.Atom(g.Label), Factory: w.factory(g)})
	}
	if _, err := n.ApplicationLoad(&happ{spec: spec}); err != nil {
		n.StopForce()
		return nil, err
	}
	return w, nil
}

func (w *world) nodeRunning() bool { return w.node.IsAlive() }

func (w *world) appState() gen.ApplicationState {
	info, err := w.node.ApplicationInfo(w.app)
	if err != nil {
		return 0
	}
	return info.State
}

// aliveSet is the authoritative liveness observation: Node.ProcessList()
func (w *world) aliveSet() (map[gen.PID]bool, bool) {
	pl, err := w.node.ProcessList()
	if err != nil {
		return nil, false
	}
	m := make(map[gen.PID]bool, len(pl))
	for _, p := range pl {
		m[p] = true
	}
	return m, true
}

// current returns the newest bound, alive record with the label
func (w *world) current(label string) *rec {
	alive, ok := w.aliveSet()
	rs := w.allRecs()
	for i := len(rs) - 1; i >= 0; i-- {
		r := rs[i]
		if r.Label == label && r.bound.Load() && (ok == false || alive[r.PID]) {
			return r
		}
	}
	return nil
}

// newest returns the newest bound record with the label, alive or not
func (w *world) newest(label string) *rec {
	rs := w.allRecs()
	for i := len(rs) - 1; i >= 0; i-- {
		if rs[i].Label == label && rs[i].bound.Load() {
			return rs[i]
		}
	}
	return nil
}

// aliveWith returns the alive records (by ProcessList) accepted by f, oldest first
func (w *world) aliveWith(f func(r *rec) bool) []*rec {
	alive, ok := w.aliveSet()
	if ok == false {
		return nil
	}
	var out []*rec
	for _, r := range w.allRecs() {
		if r.bound.Load() && alive[r.PID] && f(r) {
			out = append(out, r)
		}
	}
	return out
}

// quiet: nothing the framework or the harness still has to do is visible.
// Node running: every recorded live process sleeps with empty queues and no
// live runner goroutine, no instrumented callback is in progress.
func (w *world) quiet() bool {
	rs := w.allRecs()
	for _, r := range rs {
		if r.Inst != nil && r.Inst.InCallback() {
			return false
		}
		if r.bound.Load() && hk.LiveRunners(r.PID) > 0 {
			return false
		}
	}
	if w.nodeRunning() == false {
		return true
	}
	for _, r := range rs {
		if r.bound.Load() == false {
			continue
		}
		info, err := w.node.ProcessInfo(r.PID)
		if err != nil {
			continue
		}
		if q := info.MailboxQueues; q.Main+q.System+q.Urgent+q.Log > 0 {
			return false
		}
		if info.State != gen.ProcessStateSleep {
			return false
		}
	}
	return true
}

// settle waits (watchdog only) until every registered recorded process has finished what it was
// doing when the moment was arranged: asleep, or running because it is blocked by a harness park.
// It makes the fault instant well defined; no verdict depends on it.
func (w *world) settle(d time.Duration) bool {
	return hk.WaitUntil(d, func() bool {
		if w.nodeRunning() == false {
			return true
		}
		for _, r := range w.allRecs() {
			if r.bound.Load() == false {
				continue
			}
			info, err := w.node.ProcessInfo(r.PID)
			if err != nil {
				continue
			}
			q := info.MailboxQueues
			if info.State == gen.ProcessStateSleep && hk.LiveRunners(r.PID) == 0 && q.Main+q.System+q.Urgent == 0 {
				continue
			}
			if info.State == gen.ProcessStateRunning && hk.LiveRunners(r.PID) == 1 && w.blockedByHarness(r) {
				continue
			}
			return false
		}
		return true
	})
}

// blockedByHarness: r itself is parked in a handler, or r is a supervisor/pool whose spawn of a
// descendant is held (a descendant parked in Init, or the gate holds it)
func (w *world) blockedByHarness(r *rec) bool {
	if r.Inst != nil && r.Inst.InCallback() {
		return true
	}
	if h, _ := w.gateHolder.Load().(*rec); h != nil && w.descends(h, r) {
		// r is the supervisor held at the proc.spawn.linked gate (or spawns it)
		return true
	}
	for _, x := range w.allRecs() {
		if x.parked.Load() && w.descends(x, r) {
			return true
		}
	}
	return false
}

// descends: r is x or an ancestor of x along the recorded parent pids
func (w *world) descends(x, r *rec) bool {
	for i := 0; i < 8 && x != nil; i++ {
		if x == r {
			return true
		}
		if x.bound.Load() == false {
			return false
		}
		x = w.recOfPID(x.Parent)
	}
	return false
}

// unquiet describes what keeps the world from being quiet (diagnostics for watchdog expiries)
func (w *world) unquiet() []string {
	var out []string
	for _, r := range w.allRecs() {
		if r.Inst != nil && r.Inst.InCallback() {
			out = append(out, fmt.Sprintf("%s#%d in callback", r.Label, r.Inc))
		}
		if r.bound.Load() == false {
			continue
		}
		if n := hk.LiveRunners(r.PID); n > 0 {
			out = append(out, fmt.Sprintf("%s#%d %d live runner(s)", r.Label, r.Inc, n))
		}
		if w.nodeRunning() {
			if info, err := w.node.ProcessInfo(r.PID); err == nil {
				q := info.MailboxQueues
				if info.State != gen.ProcessStateSleep || q.Main+q.System+q.Urgent+q.Log > 0 {
					out = append(out, fmt.Sprintf("%s#%d state=%s queues=%+v", r.Label, r.Inc, info.State, q))
				}
			}
		}
	}
	return out
}

func (w *world) quiesce(d time.Duration) bool {
	return hk.WaitUntil(d, func() bool {
		if w.quiet() == false {
			return false
		}
		// twice in a row: a runner elected between the two reads would show up in the second
		return w.quiet()
	})
}

func (w *world) blockHandler(r *rec) (hblock, bool) {
	b := hblock{Entered: make(chan struct{}), Release: make(chan struct{}), TimedOut: new(atomic.Bool), once: new(sync.Once)}
	w.mu.Lock()
	w.blocks = append(w.blocks, b)
	w.mu.Unlock()
	if err := w.node.Send(r.PID, b); err != nil {
		return b, false
	}
	select {
	case <-b.Entered:
		return b, true
	case <-time.After(5 * time.Second):
		return b, false
	}
}

// pinfo renders ProcessInfo of a live process for a witness
func (w *world) pinfo(pid gen.PID) map[string]any {
	info, err := w.node.ProcessInfo(pid)
	if err != nil {
		return map[string]any{"error": err.Error()}
	}
	return map[string]any{
		"state": info.State.String(), "parent": info.Parent.String(), "name": string(info.Name), "behavior": info.Behavior,
		"links": fmt.Sprint(info.LinksPID), "queues": fmt.Sprintf("%+v", info.MailboxQueues),
	}
}

func (w *world) events() int64 {
	var n int64
	for _, r := range w.allRecs() {
		if r.Inst != nil {
			n += r.Inst.Callbacks.Load()
		}
		if r.bound.Load() {
			n++ // Init of the behaviour observed
			if born(r.PID) {
				n++
			}
			if dead(r.PID) {
				n++
			}
		}
	}
	return n
}

func (w *world) census() map[string]int {
	m := map[string]int{}
	for _, r := range w.allRecs() {
		m["created"]++
		if r.bound.Load() && born(r.PID) {
			m["registered"]++
		}
		if r.bound.Load() && dead(r.PID) {
			m["unregistered"]++
		}
	}
	return m
}

func labelsOf(rs []*rec) []string {
	var s []string
	for _, r := range rs {
		s = append(s, fmt.Sprintf("%s#%d", r.Label, r.Inc))
	}
	sort.Strings(s)
	return s
}
