// Package canary holds the plain (non-atomic) memory words the harness uses to
// turn the Go race detector into a happens-before oracle: every callback of an
// instrumented process touches its canary first thing on entry and last thing
// on exit.  If the framework serialises callbacks (property C01/C05) every pair
// of touches is ordered by the framework's own synchronisation; if not, the
// detector reports a race whose stack contains this package.
package canary

// Word is a plain counter
type Word struct {
	v uint64
}

// Touch is a plain read-modify-write
//
//go:noinline
func (w *Word) Touch() {
	w.v++
}

// Value reads the counter (call only at quiescence)
//
//go:noinline
func (w *Word) Value() uint64 {
	return w.v
}
