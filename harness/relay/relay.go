// Package relay is a TCP relay the harness puts in front of a node's acceptor:
// it re-segments the byte stream (chosen chunk sizes, coalescing, delays),
// counts frames in both directions and can cut the connection after the k-th
// byte/chunk in either direction.
package relay

import (
	"math/rand"
	"net"
	"sync"
	"sync/atomic"
	"time"
)

// Config of a relay
type Config struct {
	// Target is host:port of the real acceptor
	Target string
	// Chunk returns the size of the next write towards dir ("up" = client->target, "down" = target->client)
	// given how many bytes are available; nil = forward as read. Must return 1..avail.
	Chunk func(dir string, avail int) int
	// Delay between chunks (0 = none)
	Delay func(dir string) time.Duration
	// CutAfterBytes cuts both directions once this many bytes were forwarded in direction CutDir (0 = never)
	CutAfterBytes int64
	CutDir        string
	// Seed for the default random chunker
	Seed int64
}

// Relay is a running relay
type Relay struct {
	cfg   Config
	ln    net.Listener
	Port  uint16
	mu    sync.Mutex
	conns []*pair
	// BytesUp / BytesDown forwarded so far (all connections)
	BytesUp, BytesDown atomic.Int64
	// ChunksUp / ChunksDown written so far
	ChunksUp, ChunksDown atomic.Int64
	// Accepted connections
	Accepted atomic.Int64
	closed   atomic.Bool
	rngMu    sync.Mutex
	rng      *rand.Rand
}

type pair struct {
	c, t net.Conn
	once sync.Once
}

func (p *pair) close() {
	p.once.Do(func() {
		p.c.Close()
		p.t.Close()
	})
}

// Start a relay on a free 127.0.0.1 port
func Start(cfg Config) (*Relay, error) {
	ln, err := net.Listen("tcp", "127.0.0.1:0")
	if err != nil {
		return nil, err
	}
	r := &Relay{cfg: cfg, ln: ln, Port: uint16(ln.Addr().(*net.TCPAddr).Port), rng: rand.New(rand.NewSource(cfg.Seed))}
	go r.accept()
	return r, nil
}

func (r *Relay) accept() {
	for {
		c, err := r.ln.Accept()
		if err != nil {
			return
		}
		t, err := net.DialTimeout("tcp", r.cfg.Target, 3*time.Second)
		if err != nil {
			c.Close()
			continue
		}
		if tc, ok := c.(*net.TCPConn); ok {
			tc.SetNoDelay(true)
		}
		if tc, ok := t.(*net.TCPConn); ok {
			tc.SetNoDelay(true)
		}
		r.Accepted.Add(1)
		p := &pair{c: c, t: t}
		r.mu.Lock()
		r.conns = append(r.conns, p)
		r.mu.Unlock()
		go r.pump(p, c, t, "up")
		go r.pump(p, t, c, "down")
	}
}

func (r *Relay) pump(p *pair, from, to net.Conn, dir string) {
	defer p.close()
	buf := make([]byte, 256*1024)
	for {
		n, err := from.Read(buf)
		if n > 0 {
			data := buf[:n]
			for len(data) > 0 {
				k := len(data)
				if r.cfg.Chunk != nil {
					r.rngMu.Lock()
					k = r.cfg.Chunk(dir, len(data))
					r.rngMu.Unlock()
					if k < 1 {
						k = 1
					}
					if k > len(data) {
						k = len(data)
					}
				}
				if r.cfg.CutAfterBytes > 0 && r.cfg.CutDir == dir {
					done := r.bytes(dir).Load()
					if done+int64(k) > r.cfg.CutAfterBytes {
						k = int(r.cfg.CutAfterBytes - done)
						if k > 0 {
							to.Write(data[:k])
							r.bytes(dir).Add(int64(k))
						}
						r.CutAll()
						return
					}
				}
				if _, werr := to.Write(data[:k]); werr != nil {
					return
				}
				r.bytes(dir).Add(int64(k))
				if dir == "up" {
					r.ChunksUp.Add(1)
				} else {
					r.ChunksDown.Add(1)
				}
				data = data[k:]
				if r.cfg.Delay != nil {
					if d := r.cfg.Delay(dir); d > 0 {
						time.Sleep(d)
					}
				}
			}
		}
		if err != nil {
			return
		}
	}
}

func (r *Relay) bytes(dir string) *atomic.Int64 {
	if dir == "up" {
		return &r.BytesUp
	}
	return &r.BytesDown
}

// Rand returns a number in [0,n) from the relay's seeded PRNG (only call from Chunk)
func (r *Relay) Rand(n int) int { return r.rng.Intn(n) }

// CutAll closes every relayed connection (both directions) but keeps listening
func (r *Relay) CutAll() {
	r.mu.Lock()
	cs := r.conns
	r.conns = nil
	r.mu.Unlock()
	for _, p := range cs {
		p.close()
	}
}

// Close stops the relay
func (r *Relay) Close() {
	if r.closed.Swap(true) {
		return
	}
	r.ln.Close()
	r.CutAll()
}

// FixedChunks returns a Chunk function cycling through the given sizes
func FixedChunks(sizes ...int) func(string, int) int {
	var i atomic.Int64
	return func(dir string, avail int) int {
		k := sizes[int(i.Add(1))%len(sizes)]
		if k > avail {
			k = avail
		}
		return k
	}
}
